import SqVerif.VNetWFMeas
import SqVerif.VNetWFMerge2
/-
L2 — `_two_qubit_gate` (all placements) preserves well-formedness, never fails for
capacity reasons, and the step relation as a whole preserves `WFp` (C02 / C07).
-/
namespace SqVerif.VNet.WFP
open List

/-! ### `remote_new_register` -/

def arNode (k : Nat) (n : Node) : Node :=
  { n with numRegs := n.numRegs + 1, nextReg := n.nextReg + 1,
           regs := n.regs ++ [{ num := k, max := 10, toks := [] }] }

theorem addRegister_cases {s : Net} {a : Nat} {n : Node} (hn : s.nodes[a]? = some n) :
    (n.numRegs < n.maxRegs ∧ addRegister s a = .ok (modNode s a (arNode n.nextReg), n.nextReg)) ∨
    (n.maxRegs ≤ n.numRegs ∧ addRegister s a = .error .quantum) := by
  unfold addRegister
  simp only [hn]
  rcases Nat.lt_or_ge n.numRegs n.maxRegs with h | h
  · left; refine ⟨h, ?_⟩
    simp only [ge_iff_le, Nat.not_le.2 h, if_false]
    rfl
  · right; refine ⟨h, ?_⟩
    simp only [ge_iff_le, h, if_true]

theorem arNet_nodes {s : Net} {a : Nat} {n : Node} (hn : s.nodes[a]? = some n) (i : Nat) :
    (modNode s a (arNode n.nextReg)).nodes[i]? = if i = a then some (arNode n.nextReg n) else s.nodes[i]? := by
  simp only [modNode]; exact getElem?_modify' _ hn i

theorem wfp_addRegister {s : Net} {a : Nat} {n : Node} (w : WFp none s) (hn : s.nodes[a]? = some n) :
    WFp (some (a, n.nextReg)) (modNode s a (arNode n.nextReg)) := by
  have hnd := arNet_nodes hn
  have hvirt : ∀ i : Nat, ((modNode s a (arNode n.nextReg)).nodes[i]?).map (·.virt) = (s.nodes[i]?).map (·.virt) := by
    intro i; rw [hnd]; by_cases h : i = a
    · subst h; simp [hn, arNode]
    · simp [h]
  have hsim : ∀ i : Nat, ((modNode s a (arNode n.nextReg)).nodes[i]?).map (·.sim) = (s.nodes[i]?).map (·.sim) := by
    intro i; rw [hnd]; by_cases h : i = a
    · subst h; simp [hn, arNode]
    · simp [h]
  have hlive : ∀ (j o : Nat) (m : Node), s.nodes[j]? = some m → o ∈ m.sim →
      ∃ m', (modNode s a (arNode n.nextReg)).nodes[j]? = some m' ∧ o ∈ m'.sim := by
    intro j o m e ho
    have := hsim j
    rw [e] at this
    cases e' : (modNode s a (arNode n.nextReg)).nodes[j]? with
    | none => rw [e'] at this; cases this
    | some m' => rw [e'] at this; simp at this; exact ⟨m', rfl, this ▸ ho⟩
  have hheld := mem_allHeld_congr hvirt
  have hallsim := mem_allSim_congr hsim
  refine { nodes := ?_, backInj := ?_, backSurj := ?_, staleInactive := ?_, toksNodup := ?_, toksFresh := ?_ }
  · intro i m e
    rw [hnd] at e
    by_cases hi : i = a
    · rw [if_pos hi] at e; cases e; subst hi
      have wn := w.nodes i n hn
      have hv : VirtP (modNode s i (arNode n.nextReg)) i (arNode n.nextReg n) := by
        have : VirtP (modNode s i (arNode n.nextReg)) i n :=
          wn.virtP.frame (fun _ _ => rfl) (fun h vq m _ _ e2 e3 => hlive _ _ m e2 e3)
        exact { virtNodup := this.virtNodup, virtNumsInj := this.virtNumsInj, cap := this.cap, virtOK := this.virtOK }
      refine NodeP.ofParts hv ?_
      have ws := wn.simP
      refine { simNodup := ws.simNodup, simNumsInj := ws.simNumsInj, numRegs := ?_, regNumsNodup := ?_,
               regNumsFresh := ?_, regsNonEmpty := ?_, regsWithinMax := ?_, simOK := ?_,
               posInj := ws.posInj, posLt := ?_, posSurj := ?_ }
      · simp [arNode, ws.numRegs]
      · simp only [arNode, map_append, map_cons, map_nil, nodup_append]
        refine ⟨ws.regNumsNodup, by simp, ?_⟩
        intro x hx y hy
        simp only [mem_singleton] at hy
        obtain ⟨r, hr, rfl⟩ := mem_map.1 hx
        have := ws.regNumsFresh r hr
        omega
      · intro r hr
        simp only [arNode, mem_append, mem_singleton] at hr ⊢
        rcases hr with hr | rfl
        · have := ws.regNumsFresh r hr; omega
        · simp
      · intro r hr he
        simp only [arNode, mem_append, mem_singleton] at hr
        rcases hr with hr | rfl
        · exact absurd (ws.regsNonEmpty r hr he) (by simp)
        · rfl
      · intro r hr
        simp only [arNode, mem_append, mem_singleton] at hr
        rcases hr with hr | rfl
        · exact ws.regsWithinMax r hr
        · simp
      · intro o ho
        obtain ⟨sq, e1, e2, e3, r, e4, e5⟩ := ws.simOK o ho
        exact ⟨sq, e1, e2, e3, r, by simp [arNode, e4], e5⟩
      · intro o q r ho e hr hrn
        simp only [arNode, mem_append, mem_singleton] at hr
        rcases hr with hr | rfl
        · exact ws.posLt o q r ho e hr hrn
        · exfalso
          obtain ⟨sq, e1, _, _, r, e4, e5⟩ := ws.simOK o ho
          have e : s.sqs[o]? = some q := e
          rw [e] at e1; cases e1
          have := ws.regNumsFresh r e4
          simp only at hrn; omega
      · intro r p hr hp
        simp only [arNode, mem_append, mem_singleton] at hr
        rcases hr with hr | rfl
        · exact ws.posSurj r p hr hp
        · simp at hp
    · rw [if_neg hi] at e
      have wm := w.nodes i m e
      have : NodeP none (modNode s a (arNode n.nextReg)) i m :=
        wm.frame (fun _ _ => rfl) (fun _ _ => rfl) (fun h vq m _ _ e2 e3 => hlive _ _ m e2 e3)
      exact this.mono (fun r hr he hE => by cases hE)
  · intro h h' vq vq' hh hh'
    rw [hheld] at hh hh'
    exact w.backInj h h' vq vq' hh hh'
  · intro o ho
    rw [hallsim] at ho
    obtain ⟨h, vq, e1, e2, e3⟩ := w.backSurj o ho
    exact ⟨h, vq, (hheld h).2 e1, e2, e3⟩
  · intro h vq e hh
    rw [hheld] at hh
    exact w.staleInactive h vq e hh
  · have hp : (allToks (modNode s a (arNode n.nextReg)) ++ []).Perm (allToks s ++ []) :=
      perm_flatMap_modify (g := nodeToks) hn (by simp [nodeToks, arNode])
    simp only [append_nil] at hp
    exact hp.nodup_iff.2 w.toksNodup
  · intro t ht
    have hp : (allToks (modNode s a (arNode n.nextReg)) ++ []).Perm (allToks s ++ []) :=
      perm_flatMap_modify (g := nodeToks) hn (by simp [nodeToks, arNode])
    simp only [append_nil] at hp
    exact w.toksFresh t (hp.mem_iff.1 ht)

/-! ### relation between the node tables before and after a two-qubit gate -/

structure NodesRel (s s' : Net) : Prop where
  virt : ∀ i : Nat, (s'.nodes[i]?).map (·.virt) = (s.nodes[i]?).map (·.virt)
  caps : ∀ i : Nat, (s'.nodes[i]?).map (fun n => (n.maxQubits, n.maxRegs)) =
      (s.nodes[i]?).map (fun n => (n.maxQubits, n.maxRegs))
  regs : ∀ (i : Nat) (n n' : Node), s.nodes[i]? = some n → s'.nodes[i]? = some n' → n'.numRegs ≤ n.numRegs

theorem NodesRel.refl (s : Net) : NodesRel s s :=
  { virt := fun _ => rfl, caps := fun _ => rfl,
    regs := fun i n n' e e' => by rw [e] at e'; cases e'; exact Nat.le_refl _ }

theorem NodesRel.some_iff {s s' : Net} (r : NodesRel s s') {i : Nat} {n' : Node} (e : s'.nodes[i]? = some n') :
    ∃ n, s.nodes[i]? = some n := by
  have := r.virt i
  rw [e] at this
  cases h : s.nodes[i]? with
  | none => rw [h] at this; cases this
  | some n => exact ⟨n, rfl⟩

theorem NodesRel.trans {s s' s'' : Net} (r1 : NodesRel s s') (r2 : NodesRel s' s'') : NodesRel s s'' :=
  { virt := fun i => (r2.virt i).trans (r1.virt i)
    caps := fun i => (r2.caps i).trans (r1.caps i)
    regs := fun i n n'' e e'' => by
      obtain ⟨n', e'⟩ := r2.some_iff e''
      exact Nat.le_trans (r2.regs i n' n'' e' e'') (r1.regs i n n' e e') }

theorem NodesRel.of_vqs {s : Net} (h : Nat) (f : VQ → VQ) : NodesRel s (setVQ s h f) :=
  { virt := fun _ => rfl, caps := fun _ => rfl,
    regs := fun i n n' e e' => by
      have e' : s.nodes[i]? = some n' := e'
      rw [e] at e'; cases e'; exact Nat.le_refl _ }

theorem lmNet_rel {s : Net} {n : Nat} {nd : Node} {r1 r2 : Reg} (hn : s.nodes[n]? = some nd) :
    NodesRel s (lmNet s n nd r1 r2) := by
  refine { virt := lmNet_virt hn, caps := ?_, regs := ?_ }
  · intro i; rw [lmNet_nodes hn]
    by_cases h : i = n
    · subst h; simp [hn, lmNode, Node.delReg, Node.modReg]
    · simp [h]
  · intro i m m' e e'
    rw [lmNet_nodes hn] at e'
    by_cases h : i = n
    · subst h; rw [if_pos rfl] at e'; cases e'
      rw [hn] at e; cases e
      simp [lmNode, Node.delReg, Node.modReg]
    · rw [if_neg h, e] at e'; cases e'; exact Nat.le_refl _

theorem MergeSpec.rel {s s' : Net} {dst src : Nat} {sn dn : Node} {oldR locR : Reg}
    (sp : MergeSpec s dst src sn dn oldR locR s') (hsd : src ≠ dst)
    (hsn : s.nodes[src]? = some sn) (hdn : s.nodes[dst]? = some dn) : NodesRel s s' := by
  refine { virt := ?_, caps := ?_, regs := ?_ }
  · intro i; rw [sp.nodes]
    by_cases h1 : i = src
    · subst h1; simp [hsn, mfSrc, Node.delReg]
    · by_cases h2 : i = dst
      · subst h2; simp [h1, hdn, mfDst, Node.modReg]
      · simp [h1, h2]
  · intro i; rw [sp.nodes]
    by_cases h1 : i = src
    · subst h1; simp [hsn, mfSrc, Node.delReg]
    · by_cases h2 : i = dst
      · subst h2; simp [h1, hdn, mfDst, Node.modReg]
      · simp [h1, h2]
  · intro i m m' e e'
    rw [sp.nodes] at e'
    by_cases h1 : i = src
    · subst h1; rw [if_pos rfl] at e'; cases e'
      rw [hsn] at e; cases e
      simp [mfSrc, Node.delReg]
    · by_cases h2 : i = dst
      · subst h2; rw [if_neg h1, if_pos rfl] at e'; cases e'
        rw [hdn] at e; cases e
        simp [mfDst, Node.modReg]
      · rw [if_neg h1, if_neg h2, e] at e'; cases e'; exact Nat.le_refl _

/-! ### the gate itself -/

theorem gate2Op_unit {s : Net} (w : WFp none s) (g : G2) {hc ht : Nat} {vc vt : VQ} (hne : hc ≠ ht)
    (h1 : hc ∈ allHeld s) (h2 : ht ∈ allHeld s) (e1 : s.vqs[hc]? = some vc) (e2 : s.vqs[ht]? = some vt)
    (hs : vc.simNode = vt.simNode)
    (hreg : ∀ qc qt, s.sqs[vc.simObj]? = some qc → s.sqs[vt.simObj]? = some qt → qc.reg = qt.reg) :
    ∃ qc qt, s.sqs[vc.simObj]? = some qc ∧ s.sqs[vt.simObj]? = some qt ∧ qc.pos ≠ qt.pos ∧
      gate2Op s g vc.simObj vt.simObj = (s, .unit, [.gate2 g qc.node qc.reg qc.pos qt.pos]) := by
  obtain ⟨i, n, en, hm⟩ := mem_allHeld.1 h1
  obtain ⟨vq', f1, _, _, nd, f4, f5⟩ := (w.nodes i n en).virtOK hc hm
  rw [e1] at f1; cases f1
  obtain ⟨i', n', en', hm'⟩ := mem_allHeld.1 h2
  obtain ⟨vq', f1', _, _, nd', f4', f5'⟩ := (w.nodes i' n' en').virtOK ht hm'
  rw [e2] at f1'; cases f1'
  rw [← hs, f4] at f4'; cases f4'
  obtain ⟨qc, g1, _⟩ := (w.nodes _ _ f4).simOK _ f5
  obtain ⟨qt, g1', _⟩ := (w.nodes _ _ f4).simOK _ f5'
  have hpos : qc.pos ≠ qt.pos := by
    intro hp
    have := (w.nodes _ _ f4).posInj _ _ qc qt f5 f5' g1 g1' (hreg qc qt g1 g1') hp
    exact hne (w.backInj hc ht vc vt h1 h2 e1 e2 this)
  refine ⟨qc, qt, g1, g1', hpos, ?_⟩
  unfold gate2Op
  simp only [g1, g1']
  have : ¬ (qc.pos == qt.pos) = true := by simpa using hpos
  simp [this]

theorem stepGate2_guard {s : Net} {hc ht : Nat} {g : G2} :
    ((s.vqs[hc]? = none ∨ s.vqs[ht]? = none) → stepGate2 s hc ht g = (s, .badCall, [])) ∧
    (∀ vc vt, s.vqs[hc]? = some vc → s.vqs[ht]? = some vt → vc.virtNode ≠ vt.virtNode →
      stepGate2 s hc ht g = (s, .badCall, [])) ∧
    (∀ vc vt, s.vqs[hc]? = some vc → s.vqs[ht]? = some vt → vc.virtNode = vt.virtNode →
      (vc.active = false ∨ vt.active = false) → stepGate2 s hc ht g = (s, .none, [])) := by
  refine ⟨?_, ?_, ?_⟩
  · rintro (h | h)
    · unfold stepGate2; simp [h]
    · unfold stepGate2
      cases s.vqs[hc]? <;> simp [h]
  · intro vc vt e1 e2 hn
    unfold stepGate2; simp [e1, e2, hn]
  · intro vc vt e1 e2 hn ha
    unfold stepGate2
    rcases ha with ha | ha <;> simp [e1, e2, hn, ha]

/-- post-condition of a two-qubit gate that was carried out -/
structure G2Post (s s' : Net) : Prop where
  wf : WFp none s'
  virt : ∀ i : Nat, (s'.nodes[i]?).map (·.virt) = (s.nodes[i]?).map (·.virt)
  caps : ∀ i : Nat, (s'.nodes[i]?).map (fun n => (n.maxQubits, n.maxRegs)) =
      (s.nodes[i]?).map (fun n => (n.maxQubits, n.maxRegs))
  regs : ∀ (i : Nat) (n n' : Node), s.nodes[i]? = some n → s'.nodes[i]? = some n' →
      n'.numRegs ≤ n.numRegs ∨ (n'.numRegs ≤ n.numRegs + 1 ∧ n.numRegs < n.maxRegs)

theorem G2Post.of_rel {s s' : Net} (w : WFp none s') (r : NodesRel s s') : G2Post s s' :=
  { wf := w, virt := r.virt, caps := r.caps, regs := fun i n n' e e' => Or.inl (r.regs i n n' e e') }

theorem stepGate2_active {s : Net} {hc ht : Nat} {g : G2} {vc vt : VQ} (e1 : s.vqs[hc]? = some vc)
    (e2 : s.vqs[ht]? = some vt) (hn : vc.virtNode = vt.virtNode) (a1 : vc.active = true) (a2 : vt.active = true) :
    stepGate2 s hc ht g =
      if vc.simNode == vt.simNode then
        let (s1, e1) := localMerge s vc.simNode vc.simObj vt.simObj
        let (s2, r, e2) := gate2Op s1 g vc.simObj vt.simObj
        (s2, r, e1 ++ e2)
      else if vc.simNode == vc.virtNode then
        match s.sqs[vc.simObj]? with
        | none => (s, .badCall, [])
        | some qc =>
          let (s1, newT, e1) := mergeFrom s vc.virtNode vt.simNode vt.simObj qc.reg
          let s1' := setVQ s1 ht fun v => { v with simObj := newT }
          let (s2, r, e2) := gate2Op s1' g vc.simObj newT
          (s2, r, e1 ++ e2)
      else if vt.simNode == vc.virtNode then
        match s.sqs[vt.simObj]? with
        | none => (s, .badCall, [])
        | some qt =>
          let (s1, newC, e1) := mergeFrom s vc.virtNode vc.simNode vc.simObj qt.reg
          let s1' := setVQ s1 hc fun v => { v with simObj := newC }
          let (s2, r, e2) := gate2Op s1' g newC vt.simObj
          (s2, r, e1 ++ e2)
      else
        match addRegister s vc.virtNode with
        | .error e => (s, .err e, [])
        | .ok (s0, newReg) =>
          let (s1, newC, e1) := mergeFrom s0 vc.virtNode vc.simNode vc.simObj newReg
          let s1' := setVQ s1 hc fun v => { v with simObj := newC }
          let (s2, newT, e2) := mergeFrom s1' vc.virtNode vt.simNode vt.simObj newReg
          let s2' := setVQ s2 ht fun v => { v with simObj := newT }
          let (s3, r, e3) := gate2Op s2' g newC newT
          (s3, r, [.newReg vc.virtNode newReg] ++ e1 ++ e2 ++ e3) := by
  unfold stepGate2
  simp only [e1, e2]
  have h1 : (vc.virtNode != vt.virtNode) = false := by simp [hn]
  have h2 : (!vc.active || !vt.active) = false := by simp [a1, a2]
  simp only [h1, h2, Bool.false_eq_true, if_false]
  rfl

/-- the outcome of a two-qubit gate on active handles of one node -/
def G2Result (s : Net) (hc ht : Nat) (res : Net × Res × List EOp) : Prop :=
  (res.1 = s ∧ res.2.1 = .err .value ∧ hc = ht) ∨ (res.2.1 = .unit ∧ hc ≠ ht ∧ G2Post s res.1)

theorem gate2_case1 {s : Net} (w : WFp none s) {hc ht : Nat} (g : G2) {vc vt : VQ}
    (e1 : s.vqs[hc]? = some vc) (e2 : s.vqs[ht]? = some vt) (hn : vc.virtNode = vt.virtNode)
    (a1 : vc.active = true) (a2 : vt.active = true) (hs : vc.simNode = vt.simNode) :
    G2Result s hc ht (stepGate2 s hc ht g) := by
  rw [stepGate2_active e1 e2 hn a1 a2]
  have : (vc.simNode == vt.simNode) = true := by simpa using hs
  rw [if_pos this]
  obtain ⟨nac, ndc, qc, rc, hac, hhc, hsc, hoc, hqc, _, _, hrc, hrnc, _⟩ := w.handle_sim e1 a1
  obtain ⟨nat, ndt, qt, rt, hat, hht, hst, hot, hqt, _, _, hrt, hrnt, _⟩ := w.handle_sim e2 a2
  rw [← hs, hsc] at hst; cases hst
  have hheldc : hc ∈ allHeld s := mem_allHeld.2 ⟨_, _, hac, hhc⟩
  have hheldt : ht ∈ allHeld s := mem_allHeld.2 ⟨_, _, hat, hht⟩
  by_cases hne : hc = ht
  · subst hne
    rw [e1] at e2; cases e2
    rw [hqc] at hqt; cases hqt
    left
    rw [localMerge_same hqc hqc rfl]
    simp only [gate2Op, hqc]
    simp
  · right
    obtain ⟨q1, q2, f1, f2, hcase⟩ := localMerge_cases w hsc hoc hot
    rw [hqc] at f1; cases f1
    rw [hqt] at f2; cases f2
    rcases hcase with ⟨hreq, hlm⟩ | ⟨hrne, r1, r2, hr1, hr2, hn1, hn2, hlm⟩
    · rw [hlm]
      obtain ⟨_, _, _, _, _, hg⟩ := gate2Op_unit w g hne hheldc hheldt e1 e2 hs (fun a b ha hb => by
        rw [hqc] at ha; rw [hqt] at hb; cases ha; cases hb; exact hreq)
      simp only [hg]
      exact ⟨trivial, hne, G2Post.of_rel w (NodesRel.refl s)⟩
    · rw [hlm]
      have hrne' : r1.num ≠ r2.num := by rw [hn1, hn2]; exact hrne
      have w' := wfp_lmNet w hsc hr1 hr2 hrne'
      have hheld := mem_allHeld_congr (lmNet_virt (r1 := r1) (r2 := r2) hsc)
      obtain ⟨_, _, _, _, _, hg⟩ := gate2Op_unit (s := lmNet s vc.simNode ndc r1 r2) w' g hne
        ((hheld hc).2 hheldc) ((hheld ht).2 hheldt) e1 e2 hs (fun a b ha hb => by
          rw [lmNet_sqs, hqc] at ha; rw [lmNet_sqs, hqt] at hb
          simp only [Option.map_some, Option.some.injEq] at ha hb
          subst ha hb
          rw [lmSq_miss (Or.inr (by rw [hn2]; exact hrne)), lmSq_hit hot hn2.symm]
          exact hn1.symm)
      simp only [hg]
      exact ⟨trivial, hne, G2Post.of_rel w' (lmNet_rel hsc)⟩

/-- pulling the register of a remotely simulated qubit (handle `hr`) into register `rl` of node `a`,
followed by the (redundant) update of the handle -/
theorem pull_remote {E} {s : Net} {a hr : Nat} {vr : VQ} {ndr nda : Node} {qr : SQ} {rl : Reg} (w : WFp E s)
    (hE : E = none ∨ E = some (a, rl.num)) (er : s.vqs[hr]? = some vr) (hheld : hr ∈ allHeld s)
    (hsn : s.nodes[vr.simNode]? = some ndr) (hor : vr.simObj ∈ ndr.sim) (hqr : s.sqs[vr.simObj]? = some qr)
    (hda : s.nodes[a]? = some nda) (hrl : rl ∈ nda.regs) (hne : vr.simNode ≠ a) :
    ∃ oldR s1, (mergeFrom s a vr.simNode vr.simObj rl.num).1 = s1 ∧
      (mergeFrom s a vr.simNode vr.simObj rl.num).2.1 = s.sqs.length + qr.pos ∧
      setVQ s1 hr (fun v => { v with simObj := s.sqs.length + qr.pos }) = s1 ∧
      WFp none s1 ∧ NodesRel s s1 ∧ MergeSpec s a vr.simNode ndr nda oldR rl s1 ∧
      oldR ∈ ndr.regs ∧ qr.pos < oldR.toks.length ∧
      s1.vqs[hr]? = some { vr with simNode := a, simObj := s.sqs.length + qr.pos } ∧
      (∃ q', s1.sqs[s.sqs.length + qr.pos]? = some q' ∧ q'.reg = rl.num) ∧
      (∀ x, x ∈ allHeld s1 ↔ x ∈ allHeld s) := by
  obtain ⟨oldR, h1, h2, h3, _, h5, h6⟩ := mergeFrom_wfp w hE hne hsn hda hqr hor hrl
  generalize (mergeFrom s a vr.simNode vr.simObj rl.num) = res at h3 h5 h6
  obtain ⟨s1, newO, ev⟩ := res
  simp only at h3 h5 h6
  have hpos := (w.nodes _ _ hsn).posLt _ qr oldR hor hqr h1 h2
  have hmoved := h5.vqMoved hr vr qr hheld er rfl hqr h2.symm
  have hrel := h5.rel hne hsn hda
  refine ⟨oldR, s1, rfl, h3, ?_, h6, hrel, h5, h1, hpos, hmoved, ?_, mem_allHeld_congr hrel.virt⟩
  · unfold setVQ
    rw [modify_eq_of_fix]
    intro v hv
    rw [hmoved] at hv; cases hv; rfl
  · obtain ⟨q', f1, _, f3, _⟩ := h5.sqNew qr.pos hpos
    exact ⟨q', f1, f3⟩

theorem gate2_case2 {s : Net} (w : WFp none s) {hc ht : Nat} (g : G2) {vc vt : VQ}
    (e1 : s.vqs[hc]? = some vc) (e2 : s.vqs[ht]? = some vt) (hn : vc.virtNode = vt.virtNode)
    (a1 : vc.active = true) (a2 : vt.active = true) (hs : vc.simNode ≠ vt.simNode)
    (hl : vc.simNode = vc.virtNode) :
    (stepGate2 s hc ht g).2.1 = .unit ∧ hc ≠ ht ∧ G2Post s (stepGate2 s hc ht g).1 := by
  rw [stepGate2_active e1 e2 hn a1 a2]
  have c1 : ¬ (vc.simNode == vt.simNode) = true := by simpa using hs
  have c2 : (vc.simNode == vc.virtNode) = true := by simpa using hl
  rw [if_neg c1, if_pos c2]
  obtain ⟨nac, ndc, qc, rc, hac, hhc, hsc, hoc, hqc, _, _, hrc, hrnc, _⟩ := w.handle_sim e1 a1
  obtain ⟨nat, ndt, qt, rt, hat, hht, hst, hot, hqt, _, _, hrt, hrnt, _⟩ := w.handle_sim e2 a2
  have hheldc : hc ∈ allHeld s := mem_allHeld.2 ⟨_, _, hac, hhc⟩
  have hheldt : ht ∈ allHeld s := mem_allHeld.2 ⟨_, _, hat, hht⟩
  have hne : hc ≠ ht := by
    intro e; subst e; rw [e1] at e2; cases e2; exact hs rfl
  have hda : s.nodes[vc.virtNode]? = some ndc := hl ▸ hsc
  have hta : vt.simNode ≠ vc.virtNode := by rw [← hl]; exact Ne.symm hs
  obtain ⟨oldR, s1, m1, m2, m3, w1, rel, sp, _, _, hv, ⟨q', hq', hq'r⟩, hheld⟩ :=
    pull_remote w (Or.inl rfl) e2 hheldt hst hot hqt hda hrc hta
  simp only [hqc]
  rw [← hrnc, m1, m2, m3]
  have hvc : s1.vqs[hc]? = some vc := sp.vqSame hc vc e1 (Or.inr (Or.inl hs))
  have hqc1 : s1.sqs[vc.simObj]? = some qc := (sp.sqOld _ (lt_length_of_getElem? hqc)).trans hqc
  obtain ⟨_, _, _, _, _, hg⟩ := gate2Op_unit w1 g hne ((hheld hc).2 hheldc) ((hheld ht).2 hheldt) hvc hv hl
    (fun a b ha hb => by
      rw [hqc1] at ha; cases ha
      simp only at hb
      rw [hq'] at hb; cases hb
      rw [hq'r, hrnc])
  simp only at hg
  simp only [hg]
  exact ⟨trivial, hne, G2Post.of_rel w1 rel⟩

theorem gate2_case3 {s : Net} (w : WFp none s) {hc ht : Nat} (g : G2) {vc vt : VQ}
    (e1 : s.vqs[hc]? = some vc) (e2 : s.vqs[ht]? = some vt) (hn : vc.virtNode = vt.virtNode)
    (a1 : vc.active = true) (a2 : vt.active = true) (hs : vc.simNode ≠ vt.simNode)
    (hl : vc.simNode ≠ vc.virtNode) (hl' : vt.simNode = vc.virtNode) :
    (stepGate2 s hc ht g).2.1 = .unit ∧ hc ≠ ht ∧ G2Post s (stepGate2 s hc ht g).1 := by
  rw [stepGate2_active e1 e2 hn a1 a2]
  have c1 : ¬ (vc.simNode == vt.simNode) = true := by simpa using hs
  have c2 : ¬ (vc.simNode == vc.virtNode) = true := by simpa using hl
  have c3 : (vt.simNode == vc.virtNode) = true := by simpa using hl'
  rw [if_neg c1, if_neg c2, if_pos c3]
  obtain ⟨nac, ndc, qc, rc, hac, hhc, hsc, hoc, hqc, _, _, hrc, hrnc, _⟩ := w.handle_sim e1 a1
  obtain ⟨nat, ndt, qt, rt, hat, hht, hst, hot, hqt, _, _, hrt, hrnt, _⟩ := w.handle_sim e2 a2
  have hheldc : hc ∈ allHeld s := mem_allHeld.2 ⟨_, _, hac, hhc⟩
  have hheldt : ht ∈ allHeld s := mem_allHeld.2 ⟨_, _, hat, hht⟩
  have hne : hc ≠ ht := by
    intro e; subst e; rw [e1] at e2; cases e2; exact hs rfl
  have hda : s.nodes[vc.virtNode]? = some ndt := hl' ▸ hst
  obtain ⟨oldR, s1, m1, m2, m3, w1, rel, sp, _, _, hv, ⟨q', hq', hq'r⟩, hheld⟩ :=
    pull_remote w (Or.inl rfl) e1 hheldc hsc hoc hqc hda hrt hl
  simp only [hqt]
  rw [← hrnt, m1, m2, m3]
  have hvt : s1.vqs[ht]? = some vt := sp.vqSame ht vt e2 (Or.inr (Or.inl (Ne.symm hs)))
  have hqt1 : s1.sqs[vt.simObj]? = some qt := (sp.sqOld _ (lt_length_of_getElem? hqt)).trans hqt
  obtain ⟨_, _, _, _, _, hg⟩ := gate2Op_unit w1 g hne ((hheld hc).2 hheldc) ((hheld ht).2 hheldt) hv hvt hl'.symm
    (fun a b ha hb => by
      rw [hqt1] at hb; cases hb
      simp only at ha
      rw [hq'] at ha; cases ha
      rw [hq'r, hrnt])
  simp only at hg
  simp only [hg]
  exact ⟨trivial, hne, G2Post.of_rel w1 rel⟩

theorem gate2_case4 {s : Net} (w : WFp none s) {hc ht : Nat} (g : G2) {vc vt : VQ}
    (e1 : s.vqs[hc]? = some vc) (e2 : s.vqs[ht]? = some vt) (hn : vc.virtNode = vt.virtNode)
    (a1 : vc.active = true) (a2 : vt.active = true) (hs : vc.simNode ≠ vt.simNode)
    (hl : vc.simNode ≠ vc.virtNode) (hl' : vt.simNode ≠ vc.virtNode) :
    ∃ na, s.nodes[vc.virtNode]? = some na ∧
      ((na.numRegs < na.maxRegs ∧ (stepGate2 s hc ht g).2.1 = .unit ∧ hc ≠ ht ∧
          G2Post s (stepGate2 s hc ht g).1) ∨
       (na.maxRegs ≤ na.numRegs ∧ stepGate2 s hc ht g = (s, .err .quantum, []))) := by
  rw [stepGate2_active e1 e2 hn a1 a2]
  have c1 : ¬ (vc.simNode == vt.simNode) = true := by simpa using hs
  have c2 : ¬ (vc.simNode == vc.virtNode) = true := by simpa using hl
  have c3 : ¬ (vt.simNode == vc.virtNode) = true := by simpa using hl'
  rw [if_neg c1, if_neg c2, if_neg c3]
  obtain ⟨na, ndc, qc, rc, hac, hhc, hsc, hoc, hqc, _, _, hrc, hrnc, _⟩ := w.handle_sim e1 a1
  obtain ⟨nat, ndt, qt, rt, hat, hht, hst, hot, hqt, _, _, hrt, hrnt, _⟩ := w.handle_sim e2 a2
  have hheldc : hc ∈ allHeld s := mem_allHeld.2 ⟨_, _, hac, hhc⟩
  have hheldt : ht ∈ allHeld s := mem_allHeld.2 ⟨_, _, hat, hht⟩
  have hne : hc ≠ ht := by
    intro e; subst e; rw [e1] at e2; cases e2; exact hs rfl
  refine ⟨na, hac, ?_⟩
  rcases addRegister_cases hac with ⟨hlt, har⟩ | ⟨hge, har⟩
  · left
    refine ⟨hlt, ?_⟩
    rw [har]
    simp only
    -- the state with the fresh empty register
    have w0 := wfp_addRegister w hac
    generalize hs0 : modNode s vc.virtNode (arNode na.nextReg) = s0 at w0
    have hnodes0 : ∀ i : Nat, s0.nodes[i]? = if i = vc.virtNode then some (arNode na.nextReg na) else s.nodes[i]? := by
      intro i; rw [← hs0]; exact arNet_nodes hac i
    have hvq0 : s0.vqs = s.vqs := by rw [← hs0]; rfl
    have hsq0 : s0.sqs = s.sqs := by rw [← hs0]; rfl
    have hvirt0 : ∀ i : Nat, (s0.nodes[i]?).map (·.virt) = (s.nodes[i]?).map (·.virt) := by
      intro i; rw [hnodes0]; by_cases h : i = vc.virtNode
      · subst h; simp [hac, arNode]
      · simp [h]
    have hheld0 := mem_allHeld_congr hvirt0
    have hda0 : s0.nodes[vc.virtNode]? = some (arNode na.nextReg na) := by rw [hnodes0, if_pos rfl]
    have hsc0 : s0.nodes[vc.simNode]? = some ndc := by rw [hnodes0, if_neg hl]; exact hsc
    have hst0 : s0.nodes[vt.simNode]? = some ndt := by rw [hnodes0, if_neg hl']; exact hst
    -- first merge: the control's register
    obtain ⟨oldR1, s1, m1, m2, m3, w1, rel1, sp1, _, hp1, hv1, ⟨q1', hq1', hq1'r⟩, hheld1⟩ :=
      pull_remote (rl := { num := na.nextReg, max := 10, toks := [] }) w0 (Or.inr rfl)
        (hvq0 ▸ e1) ((hheld0 hc).2 hheldc) hsc0 hoc (hsq0 ▸ hqc) hda0 (by simp [arNode]) hl
    simp only at m1 m2 m3
    rw [m1, m2, m3]
    -- second merge: the target's register
    have hvt1 : s1.vqs[ht]? = some vt := sp1.vqSame ht vt (hvq0 ▸ e2) (Or.inr (Or.inl (Ne.symm hs)))
    have hst1 : s1.nodes[vt.simNode]? = some ndt := by
      rw [sp1.nodes, if_neg (Ne.symm hs), if_neg hl']; exact hst0
    have hqt1 : s1.sqs[vt.simObj]? = some qt :=
      (sp1.sqOld _ (by rw [hsq0]; exact lt_length_of_getElem? hqt)).trans (hsq0 ▸ hqt)
    have hda1 : s1.nodes[vc.virtNode]? = some
        (mfDst (arNode na.nextReg na) na.nextReg oldR1 (List.range' s0.sqs.length oldR1.toks.length)) := by
      rw [sp1.nodes, if_neg (Ne.symm hl), if_pos rfl]
    have hrl1 : MergeCtx.absorbed { num := na.nextReg, max := 10, toks := [] } oldR1 ∈
        (mfDst (arNode na.nextReg na) na.nextReg oldR1 (List.range' s0.sqs.length oldR1.toks.length)).regs := by
      simp [mfDst, Node.modReg, arNode, MergeCtx.absorbed]
    obtain ⟨oldR2, s2, n1, n2, n3, w2, rel2, sp2, _, hp2, hv2, ⟨q2', hq2', hq2'r⟩, hheld2⟩ :=
      pull_remote (rl := MergeCtx.absorbed { num := na.nextReg, max := 10, toks := [] } oldR1) w1 (Or.inl rfl)
        hvt1 ((hheld1 ht).2 ((hheld0 ht).2 hheldt)) hst1 hot hqt1 hda1 hrl1 hl'
    have habs : (MergeCtx.absorbed { num := na.nextReg, max := 10, toks := [] } oldR1).num = na.nextReg := rfl
    rw [habs] at n1 n2
    rw [n1, n2, n3]
    -- the gate
    have hvc2 : s2.vqs[hc]? = some { vc with simNode := vc.virtNode, simObj := s0.sqs.length + qc.pos } :=
      sp2.vqSame hc _ hv1 (Or.inr (Or.inl (by simp only; exact Ne.symm hl')))
    have hqc2 : s2.sqs[s0.sqs.length + qc.pos]? = some q1' := by
      rw [sp2.sqOld _ (lt_length_of_getElem? hq1')]; exact hq1'
    obtain ⟨_, _, _, _, _, hg⟩ := gate2Op_unit w2 g hne
      ((hheld2 hc).2 ((hheld1 hc).2 ((hheld0 hc).2 hheldc)))
      ((hheld2 ht).2 ((hheld1 ht).2 ((hheld0 ht).2 hheldt))) hvc2 hv2 rfl
      (fun a b ha hb => by
        simp only at ha hb
        rw [hqc2] at ha; cases ha
        rw [hq2'] at hb; cases hb
        rw [hq1'r, hq2'r]; rfl)
    simp only at hg
    simp only [hg]
    refine ⟨trivial, hne, ?_⟩
    have rel12 := rel1.trans rel2
    refine { wf := w2, virt := fun i => (rel12.virt i).trans (hvirt0 i), caps := ?_, regs := ?_ }
    · intro i
      rw [rel12.caps i, hnodes0]
      by_cases h : i = vc.virtNode
      · subst h; simp [hac, arNode]
      · simp [h]
    · intro i n n' en en'
      by_cases h : i = vc.virtNode
      · subst h
        rw [hac] at en; cases en
        have := rel12.regs _ _ n' hda0 en'
        right
        exact ⟨by simpa [arNode] using this, hlt⟩
      · left
        have e0 : s0.nodes[i]? = some n := by rw [hnodes0, if_neg h]; exact en
        exact rel12.regs _ _ n' e0 en'
  · right
    refine ⟨hge, ?_⟩
    rw [har]

/-- the both-remote-two-simulators placement of a two-qubit gate -/
def BothRemote (s : Net) (hc ht : Nat) (na : Node) : Prop :=
  ∃ vc vt, s.vqs[hc]? = some vc ∧ s.vqs[ht]? = some vt ∧ vc.virtNode = vt.virtNode ∧
    vc.active = true ∧ vt.active = true ∧ vc.simNode ≠ vt.simNode ∧ vc.simNode ≠ vc.virtNode ∧
    vt.simNode ≠ vc.virtNode ∧ s.nodes[vc.virtNode]? = some na

/-- every outcome of `_two_qubit_gate` on a well-formed state -/
theorem stepGate2_spec {s : Net} (w : WFp none s) (hc ht : Nat) (g : G2) :
    ((stepGate2 s hc ht g).1 = s ∧
      ((stepGate2 s hc ht g).2.1 = .badCall ∨ (stepGate2 s hc ht g).2.1 = .none ∨
       ((stepGate2 s hc ht g).2.1 = .err .value ∧ hc = ht) ∨
       ((stepGate2 s hc ht g).2.1 = .err .quantum ∧ ∃ na, BothRemote s hc ht na ∧ na.maxRegs ≤ na.numRegs))) ∨
    ((stepGate2 s hc ht g).2.1 = .unit ∧ hc ≠ ht ∧ G2Post s (stepGate2 s hc ht g).1 ∧
      ∀ na, BothRemote s hc ht na → na.numRegs < na.maxRegs) := by
  obtain ⟨g1, g2, g3⟩ := @stepGate2_guard s hc ht g
  cases e1 : s.vqs[hc]? with
  | none => left; rw [g1 (Or.inl e1)]; exact ⟨rfl, Or.inl rfl⟩
  | some vc =>
    cases e2 : s.vqs[ht]? with
    | none => left; rw [g1 (Or.inr e2)]; exact ⟨rfl, Or.inl rfl⟩
    | some vt =>
      by_cases hn : vc.virtNode = vt.virtNode
      · cases a1 : vc.active with
        | false => left; rw [g3 vc vt e1 e2 hn (Or.inl a1)]; exact ⟨rfl, Or.inr (Or.inl rfl)⟩
        | true =>
          cases a2 : vt.active with
          | false => left; rw [g3 vc vt e1 e2 hn (Or.inr a2)]; exact ⟨rfl, Or.inr (Or.inl rfl)⟩
          | true =>
            have notBR : ∀ na, (vc.simNode = vt.simNode ∨ vc.simNode = vc.virtNode ∨ vt.simNode = vc.virtNode) →
                ¬ BothRemote s hc ht na := by
              rintro na hcond ⟨vc', vt', f1, f2, _, _, _, k1, k2, k3, _⟩
              rw [e1] at f1; rw [e2] at f2; cases f1; cases f2
              rcases hcond with h | h | h
              · exact k1 h
              · exact k2 h
              · exact k3 h
            by_cases hs : vc.simNode = vt.simNode
            · rcases gate2_case1 w g e1 e2 hn a1 a2 hs with ⟨k1, k2, k3⟩ | ⟨k1, k2, k3⟩
              · exact Or.inl ⟨k1, Or.inr (Or.inr (Or.inl ⟨k2, k3⟩))⟩
              · exact Or.inr ⟨k1, k2, k3, fun na hb => absurd hb (notBR na (Or.inl hs))⟩
            · by_cases hl : vc.simNode = vc.virtNode
              · obtain ⟨k1, k2, k3⟩ := gate2_case2 w g e1 e2 hn a1 a2 hs hl
                exact Or.inr ⟨k1, k2, k3, fun na hb => absurd hb (notBR na (Or.inr (Or.inl hl)))⟩
              · by_cases hl' : vt.simNode = vc.virtNode
                · obtain ⟨k1, k2, k3⟩ := gate2_case3 w g e1 e2 hn a1 a2 hs hl hl'
                  exact Or.inr ⟨k1, k2, k3, fun na hb => absurd hb (notBR na (Or.inr (Or.inr hl')))⟩
                · obtain ⟨na, hna, hcase⟩ := gate2_case4 w g e1 e2 hn a1 a2 hs hl hl'
                  have hbr : BothRemote s hc ht na := ⟨vc, vt, e1, e2, hn, a1, a2, hs, hl, hl', hna⟩
                  have huniq : ∀ na', BothRemote s hc ht na' → na' = na := by
                    rintro na' ⟨vc', vt', f1, f2, _, _, _, _, _, _, f3⟩
                    rw [e1] at f1; cases f1
                    rw [hna] at f3; cases f3; rfl
                  rcases hcase with ⟨k0, k1, k2, k3⟩ | ⟨k0, k1⟩
                  · exact Or.inr ⟨k1, k2, k3, fun na' hb => by rw [huniq na' hb]; exact k0⟩
                  · rw [k1]
                    exact Or.inl ⟨rfl, Or.inr (Or.inr (Or.inr ⟨rfl, na, hbr, k0⟩))⟩
      · left; rw [g2 vc vt e1 e2 hn]; exact ⟨rfl, Or.inl rfl⟩

theorem wfp_stepGate2 {s : Net} (w : WFp none s) (hc ht : Nat) (g : G2) : WFp none (stepGate2 s hc ht g).1 := by
  rcases stepGate2_spec w hc ht g with ⟨h, _⟩ | ⟨_, _, h, _⟩
  · rw [h]; exact w
  · exact h.wf

theorem stepGate1_state (s : Net) (h : Nat) (g : G1) : (stepGate1 s h g).1 = s := by
  unfold stepGate1
  cases s.vqs[h]? with
  | none => rfl
  | some vq =>
    simp only
    split
    · rfl
    · cases s.sqs[vq.simObj]? with
      | none => rfl
      | some sq =>
        simp only
        split
        · rfl
        · split <;> rfl

/-- C02 T02.2 in pointwise form -/
theorem wfp_step {s : Net} (w : WFp none s) (op : Op) : WFp none (step s op).1 := by
  cases op with
  | new a => exact wfp_stepNew w a
  | gate1 h g => simp only [step]; rw [stepGate1_state]; exact w
  | gate2 hc ht g => exact wfp_stepGate2 w hc ht g
  | send h b => exact wfp_stepSend w h b
  | measure h ip o => exact wfp_stepMeasure w h ip o

end SqVerif.VNet.WFP

/-! L0 prototype: Pauli strings with i-phases (Nat mod 4), products, commutation character. -/
namespace Sq

abbrev P1 := Bool × Bool

/-- exponent of i picked up by the product of Hermitian letters a·b -/
def iexp (a b : P1) : Nat :=
  match a, b with
  | (true,false),(true,true) => 1   -- X·Y = iZ
  | (true,true),(false,true) => 1   -- Y·Z = iX
  | (false,true),(true,false) => 1  -- Z·X = iY
  | (true,true),(true,false) => 3
  | (false,true),(true,true) => 3
  | (true,false),(false,true) => 3
  | _, _ => 0

def mul1 (a b : P1) : P1 := (a.1 != b.1, a.2 != b.2)
/-- letters anticommute -/
def anti1 (a b : P1) : Bool := (a.1 && b.2) != (a.2 && b.1)

def b2n (b : Bool) : Nat := if b then 1 else 0
@[simp] theorem b2n_true : b2n true = 1 := rfl
@[simp] theorem b2n_false : b2n false = 0 := rfl

theorem iexp_swap (a b : P1) : (iexp a b + 2 * b2n (anti1 a b)) % 4 = iexp b a % 4 := by
  rcases a with ⟨a1,a2⟩; rcases b with ⟨b1,b2⟩
  cases a1 <;> cases a2 <;> cases b1 <;> cases b2 <;> decide

theorem iexp_assoc (a b c : P1) : (iexp a b + iexp (mul1 a b) c) % 4 = (iexp b c + iexp a (mul1 b c)) % 4 := by
  rcases a with ⟨a1,a2⟩; rcases b with ⟨b1,b2⟩; rcases c with ⟨c1,c2⟩
  cases a1 <;> cases a2 <;> cases b1 <;> cases b2 <;> cases c1 <;> cases c2 <;> decide

theorem mul1_assoc (a b c : P1) : mul1 (mul1 a b) c = mul1 a (mul1 b c) := by
  rcases a with ⟨a1,a2⟩; rcases b with ⟨b1,b2⟩; rcases c with ⟨c1,c2⟩
  cases a1 <;> cases a2 <;> cases b1 <;> cases b2 <;> cases c1 <;> cases c2 <;> rfl

theorem mul1_comm (a b : P1) : mul1 a b = mul1 b a := by
  rcases a with ⟨a1,a2⟩; rcases b with ⟨b1,b2⟩
  cases a1 <;> cases a2 <;> cases b1 <;> cases b2 <;> rfl

theorem mul1_self (a : P1) : mul1 a a = (false,false) := by
  rcases a with ⟨a1,a2⟩; cases a1 <;> cases a2 <;> rfl
theorem iexp_self (a : P1) : iexp a a = 0 := by
  rcases a with ⟨a1,a2⟩; cases a1 <;> cases a2 <;> rfl
theorem anti1_mul (a b c : P1) : anti1 a (mul1 b c) = (anti1 a b != anti1 a c) := by
  rcases a with ⟨a1,a2⟩; rcases b with ⟨b1,b2⟩; rcases c with ⟨c1,c2⟩
  cases a1 <;> cases a2 <;> cases b1 <;> cases b2 <;> cases c1 <;> cases c2 <;> rfl

/-- letterwise product, phase exponent and anticommutation parity of two strings (zip semantics) -/
def mulL : List P1 → List P1 → List P1
  | a :: as, b :: bs => mul1 a b :: mulL as bs
  | _, _ => []
def phL : List P1 → List P1 → Nat
  | a :: as, b :: bs => iexp a b + phL as bs
  | _, _ => 0
def antiL : List P1 → List P1 → Bool
  | a :: as, b :: bs => anti1 a b != antiL as bs
  | _, _ => false

structure POp where
  ph : Nat
  ps : List P1

def POp.mul (p q : POp) : POp := ⟨p.ph + q.ph + phL p.ps q.ps, mulL p.ps q.ps⟩
def POp.eqv (p q : POp) : Prop := p.ps = q.ps ∧ p.ph % 4 = q.ph % 4
infixl:70 " ⋆ " => POp.mul
infix:50 " ≈ₚ " => POp.eqv

theorem eqv_refl (p : POp) : p ≈ₚ p := ⟨rfl, rfl⟩
theorem eqv_symm {p q : POp} (h : p ≈ₚ q) : q ≈ₚ p := ⟨h.1.symm, h.2.symm⟩
theorem eqv_trans {p q r : POp} (h : p ≈ₚ q) (h' : q ≈ₚ r) : p ≈ₚ r := ⟨h.1.trans h'.1, h.2.trans h'.2⟩

theorem mulL_length (as bs : List P1) (h : as.length = bs.length) : (mulL as bs).length = as.length := by
  induction as generalizing bs with
  | nil => cases bs <;> simp_all [mulL]
  | cons a as ih => cases bs with
    | nil => simp at h
    | cons b bs => simp [mulL, ih bs (by simpa using h)]

theorem mulL_assoc (as bs cs : List P1) : mulL (mulL as bs) cs = mulL as (mulL bs cs) := by
  induction as generalizing bs cs with
  | nil => cases bs <;> cases cs <;> simp [mulL]
  | cons a as ih =>
    cases bs with
    | nil => cases cs <;> simp [mulL]
    | cons b bs => cases cs with
      | nil => simp [mulL]
      | cons c cs => simp [mulL, mul1_assoc, ih]

theorem phL_assoc (as bs cs : List P1) (h1 : as.length = bs.length) (h2 : bs.length = cs.length) :
    (phL as bs + phL (mulL as bs) cs) % 4 = (phL bs cs + phL as (mulL bs cs)) % 4 := by
  induction as generalizing bs cs with
  | nil => cases bs <;> cases cs <;> simp_all [mulL, phL]
  | cons a as ih =>
    cases bs with
    | nil => simp at h1
    | cons b bs => cases cs with
      | nil => simp at h2
      | cons c cs =>
        have := ih bs cs (by simpa using h1) (by simpa using h2)
        have h3 := iexp_assoc a b c
        simp only [mulL, phL]
        omega

theorem mul_assoc (p q r : POp) (h1 : p.ps.length = q.ps.length) (h2 : q.ps.length = r.ps.length) :
    (p ⋆ q) ⋆ r ≈ₚ p ⋆ (q ⋆ r) := by
  refine ⟨mulL_assoc _ _ _, ?_⟩
  have := phL_assoc p.ps q.ps r.ps h1 h2
  simp only [POp.mul]
  omega

theorem mulL_comm (as bs : List P1) : mulL as bs = mulL bs as := by
  induction as generalizing bs with
  | nil => cases bs <;> simp [mulL]
  | cons a as ih => cases bs with
    | nil => simp [mulL]
    | cons b bs => simp [mulL, mul1_comm a b, ih]

theorem phL_swap (as bs : List P1) : (phL as bs + 2 * b2n (antiL as bs)) % 4 = phL bs as % 4 := by
  induction as generalizing bs with
  | nil => cases bs <;> simp [phL, antiL]
  | cons a as ih =>
    cases bs with
    | nil => simp [phL, antiL]
    | cons b bs =>
      have h1 := ih bs
      have h2 := iexp_swap a b
      simp only [phL, antiL]
      cases hA : anti1 a b <;> cases hB : antiL as bs <;> rw [hA] at h2 <;> rw [hB] at h1 <;>
        simp only [b2n_true, b2n_false, bne_self_eq_false, Bool.true_bne, Bool.false_bne, Bool.not_true, Bool.not_false] at * <;> omega

/-- commuting strings: swapping the factors is exact -/
theorem mul_comm_of_commute (p q : POp) (h : antiL p.ps q.ps = false) : p ⋆ q ≈ₚ q ⋆ p := by
  refine ⟨mulL_comm _ _, ?_⟩
  have := phL_swap p.ps q.ps
  rw [h] at this
  simp only [POp.mul, b2n_false] at *
  omega

end Sq

"""C02 -- qubit conservation and bookkeeping integrity at every quiescent point
(simulaqron/virtual_node/virtual.py, quantum.py).

Thin module: program generation, execution of the REAL virtual-node code on
harness/simnet.py, the tie against the Lean model `VNet` (driver `vnet`:
result, engine-call trace and object-graph snapshot after EVERY op) and all
oracles live in harness/vnetcase.py.  This check owns the oracle
"executable WF on the real object graph + population accounting";
failures of the other L2 oracles (owned by C01/C02/C05/C06/C07) are listed as
notes in the evidence.

Extra stage (harness/vnetx_cases.py): the client-visible methods the base
model does not have -- client-made registers, remote_new_qubit_inreg,
remote_get_virtual_ref, the NetQASM send / poll wrappers with their receive
queues, the observers -- as the layer `VNetX` on top of `VNet` (theorems
Props/C02X.lean, driver `vnetx`), run after the base check on its own programs."""
from .. import core
from .. import vnetcase
from .. import vnetx_cases

LEAN_TARGETS = ["SqVerif.Props.C02", "SqVerif.Props.C02X"]
PROPS_FILE = ["SqVerif/Props/C02.lean", "SqVerif/Props/C02X.lean"]
DRIVE_TARGETS = ["SqVerif.Drive.VNet", "SqVerif.Drive.VNetX"]
TRUSTED = [
    "model VNet.lean hand-written from virtual.py / quantum.py (after the repairs F1 F2 F3); tied by differential execution "
    "after every op: result, engine-call trace, object-graph snapshot (this check)",
    "harness/simnet.py: real virtualNode objects over real Perspective Broker on in-memory pipes, FIFO delivery, fake clock",
    "creation-order identities and the engine-call trace are taken by wrapping constructors / engine methods of the scratch "
    "copy from outside",
    "NumPy state-vector reference (complex128, tolerance 1e-8) and the conventions qubit 0 = leftmost factor, "
    "K = [[1,-i],[i,-1]]/sqrt2 (validated against the stabilizer code by C13/C14)",
    "extended stage: model VNetX.lean hand-written from virtual.py:217-222, 320-321, 375-434, 475-670, 809-821, 1082-1103, "
    "1675-1744, 1780-1787 (remote_new_qubit_inreg after the repair fix-inreg-stale-register); tied after every op incl. both "
    "queue dictionaries; the empty client registers are kept beside the base network and count against its register budget "
    "(theorem budget_step; the snapshot compares Python's numRegs / maxRegs / register table)",
    "extended stage: queue oracle by object identity of the QubitNetQASM records in the real deques; a simulatedQubit object "
    "built by a refused remote_new_qubit_inreg (it enters no list) is dropped from the creation-order registry",
]
ASSUMPTIONS = [
    "operations are issued one after the other, each to completion (interleavings are C03/C04)",
    "stabilizer backend, noise off; two-qubit gates only between handles held by the same node (the API cannot express more)",
    "no send addressed to the issuing node (deadlocks: known finding under C04)",
    "extended stage: a client deletes (remote_delete_register) only registers that hold no qubit; the deletion of a populated "
    "register is carried out by the code, breaks the invariant (theorem delReg_populated_breaks_wf) and is only probed",
    "extended stage: observers through handles whose simulated qubit left the network are compared for inertness only",
]


def run(ctx):
    rp = getattr(ctx, "replay", None)
    if rp and vnetx_cases.is_x(rp):
        core.scratch_repo()
        res = core.Result()
        return vnetx_cases.stage(ctx, res)
    res = vnetcase.run_check(ctx, "C02")
    if not rp:
        vnetx_cases.stage(ctx, res)
    return res


def search(ctx, res, broken):
    return vnetcase.search(ctx, res, broken, "C02")

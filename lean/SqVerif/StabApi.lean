import SqVerif.Stab
/-
L0 (API part) — executable model of the parts of
`simulaqron/toolbox/stabilizer_states.py` that `Stab.lean` does not cover:
the constructor `StabilizerState.__init__` in all its input forms (87-160),
`_str_to_operator` / `_is_paulis` / `_is_phase` (161-195), `num_qubits`,
`__mul__`, `__str__`, `__len__`, `_row_to_string`, `to_string` (197-242),
`Pauli_phase_tracking` (244-260), the pivot columns of
`boolean_gaussian_elimination` (284, 297, 309-310), `check_symplectic` (314-315),
the argument handling of `contains` / `_contains` (420-429),
`_assert_valid_stabilizer` (447-456), `put_in_standard_form` (466-471),
`to_array` (509-529), `apply_sqrt_minIX` / `apply_sqrt_IZ` (628-634).

Core Lean only.  Rows are `Stab.Row` (letters + sign); the flat NumPy row
`x_0..x_(n-1) z_0..z_(n-1) sign` is `Row.flat`, its inverse on well-shaped rows
`unflat`.  Every `raise ValueError` of the modelled code is an explicit `Err`
constructor naming the raising statement.

Not modelled (NumPy / networkx library behaviour, not SimulaQron code):
`__repr__` (delegates to `numpy.ndarray.__repr__`, line wrapping included; the
harness checks `eval(repr(s))`), `find_SQC_equiv_graph_state` (calls
`nx.from_numpy_matrix`, which does not exist in the installed networkx: the
method raises AttributeError on every input, as does the repository's own test).
-/
namespace SqVerif.Stab

deriving instance DecidableEq for Except

/-- the `ValueError`s of the modelled code, one constructor per raising statement -/
inductive Err where
  /-- 125: `_str_to_operator` returned `None` for one of the strings -/
  | parse
  /-- 128 / 133: `np.array(rows)` of rows of unequal length -/
  | ragged
  /-- 138: `'data' needs to be an array of rank 2` -/
  | rank
  /-- 148: not `n x 2n` nor `n x (2n+1)` -/
  | width
  /-- 159: `check_symplectic` and the generators do not all commute -/
  | notCommuting
  /-- 423: `contains` with a string that does not parse -/
  | containsParse
  /-- 454: an entry of the stabilizer is not a `bool` -/
  | notBool
  /-- 456: the stabilizer has the wrong length -/
  | stabLen
  deriving DecidableEq, Repr

/-! ### `None`, `int`, another state (87-101) -/

/-- `StabilizerState()` / `StabilizerState(None)`: 87-90 -/
def ofNone : St := empty

/-- `StabilizerState(n)`: X part zero, Z part the identity, phases zero (91-97) -/
def ofInt (n : Nat) : St :=
  { n := n, rows := (List.range n).map fun i => { ps := setP (idPad n) i (false, true), neg := false } }

/-- `StabilizerState(other)`: `_group` is copied (98-101) -/
def ofState (s : St) : St := { n := s.n, rows := s.rows }

/-! ### graphs (102-110) -/

/-- entry `(i, j)` of the adjacency matrix of the undirected graph with this edge list -/
def adj (edges : List (Nat × Nat)) (i j : Nat) : Bool :=
  edges.any fun e => (e.1 == i && e.2 == j) || (e.1 == j && e.2 == i)

/-- row `i` of `(identity | adjacency | 0)`: `X_i ∏_{j ~ i} Z_j` -/
def graphRow (n : Nat) (edges : List (Nat × Nat)) (i : Nat) : Row :=
  { ps := (List.range n).map fun j => (i == j, adj edges i j), neg := false }

/-- `StabilizerState(G)` for a `networkx.Graph` with nodes `0..n-1` (qubit `i` =
node `i`): X part identity, Z part the adjacency matrix, phases zero. -/
def ofGraph (n : Nat) (edges : List (Nat × Nat)) : St :=
  { n := n, rows := (List.range n).map (graphRow n edges) }

/-! ### strings (161-195, 228-242) -/

def isPauliChar (c : Char) : Bool := c == 'I' || c == 'X' || c == 'Y' || c == 'Z'

/-- `_is_paulis`: `all(pauli in "IXYZ" for pauli in paulis)` -/
def isPaulis (cs : List Char) : Bool := cs.all isPauliChar

/-- `_is_phase`: `phase in ["+1", "-1"]` -/
def isPhase (cs : List Char) : Bool := cs == ['+', '1'] || cs == ['-', '1']

/-- `(pauli in ["X", "Y"], pauli in ["Y", "Z"])` -/
def letterOf (c : Char) : P1 := (c == 'X' || c == 'Y', c == 'Y' || c == 'Z')

/-- `bool2Pauli` -/
def charOf : P1 → Char
  | (false, false) => 'I' | (true, false) => 'X' | (true, true) => 'Y' | (false, true) => 'Z'

/-- `_str_to_operator` on the characters of the string; `none` = returns `None` -/
def strToOperatorL (cs : List Char) : Option Row :=
  -- 168-173
  let startsPM := cs.take 2 == ['+', '1'] || cs.take 2 == ['-', '1']
  let phase := if startsPM then cs.take 2 else ['+', '1']
  let paulis := if startsPM then cs.drop 2 else cs
  -- 174-177
  if !isPaulis paulis then none
  else if !isPhase phase then none
  -- 178-181
  else some { ps := paulis.map letterOf, neg := phase == ['-', '1'] }

def strToOperator (s : String) : Option Row := strToOperatorL s.toList

/-- `_row_to_string`: `"+1 "` / `"-1 "` (with the blank) followed by the letters -/
def rowToStringL (r : Row) : List Char :=
  (if r.neg then ['-', '1'] else ['+', '1']) ++ [' '] ++ r.ps.map charOf

def rowToString (r : Row) : String := String.ofList (rowToStringL r)

/-- the lines of `to_string()` -/
def toStrings (s : St) : List String := s.rows.map rowToString

/-- `to_string()`: every row followed by a newline, the last newline removed -/
def toStringSt (s : St) : String := "\n".intercalate (toStrings s)

/-- `__str__`: the header, then `"\t" + line + "\n"` for every line of
`to_string().split('\n')`, the last newline removed.  (`"".split('\n') = [""]`:
the 0-qubit state prints one empty line.) -/
def strSt (s : St) : String :=
  let ls := if s.rows.isEmpty then [""] else toStrings s
  "Stabilizer state on " ++ toString s.n ++ " with the following stabilizer generators:\n" ++
    "\n".intercalate (ls.map fun l => "\t" ++ l)

/-- `num_qubits`, `__len__` -/
def numQubits (s : St) : Nat := s.n

/-! ### boolean arrays (111-159) -/

/-- the flat NumPy row `x_part + z_part + phase_part` -/
def Row.flat (r : Row) : List Bool := r.ps.map (·.1) ++ r.ps.map (·.2) ++ [r.neg]

/-- row of an `m x (2n+1)` boolean matrix as letters + sign (total: reads `false`
outside the list; only applied to lists of length `2n+1`) -/
def unflat (n : Nat) (bs : List Bool) : Row :=
  { ps := (List.range n).map fun i => (bs.getD i false, bs.getD (n + i) false), neg := bs.getD (2 * n) false }

/-- lines 130-159 on a rank-2 candidate: `np.array(data, dtype=bool)` raises for
rows of unequal length; `n x 2n` gets a zero phase column, `n x (2n+1)` is kept,
every other shape is refused; `check_symplectic` refuses non-commuting rows. -/
def ofBoolRows (data : List (List Bool)) (check : Bool) : Except Err St :=
  match data with
  | [] => .ok empty                                                     -- 112-116
  | r0 :: _ =>
    if data.any (fun r => r.length != r0.length) then .error .ragged    -- 130-135
    else
      let nrRows := data.length                                         -- 140
      let nrCols := r0.length
      let group : Except Err (List (List Bool)) :=
        if 2 * nrRows == nrCols then .ok (data.map (· ++ [false]))      -- 142-144
        else if 2 * nrRows + 1 == nrCols then .ok data                  -- 145-146
        else .error .width                                              -- 148
      match group with
      | .error e => .error e
      | .ok g =>
        let rows := g.map (unflat nrRows)
        if check && !isSymplectic rows then .error .notCommuting        -- 149-159
        else .ok { n := nrRows, rows := rows }

/-- rank-1 data such as `[0, 1]`: 112-116, 137-138 -/
def ofBoolFlat (data : List Bool) : Except Err St :=
  if data.isEmpty then .ok empty else .error .rank

/-- data nested three deep: ragged at either level -> 133; an array of shape
`(a, 0)` (all middle lists empty) -> 148; otherwise rank 3 -> 138 -/
def ofBoolCube (data : List (List (List Bool))) : Except Err St :=
  match data with
  | [] => .ok empty
  | m0 :: _ =>
    if data.any (fun m => m.length != m0.length) then .error .ragged
    else match m0 with
      | [] => .error .width
      | v0 :: _ => if data.any (fun m => m.any fun v => v.length != v0.length) then .error .ragged else .error .rank

/-- a list of strings (118-128, then 130-159 on the parsed rows) -/
def ofStrings (data : List String) (check : Bool) : Except Err St :=
  match data.mapM strToOperator with
  | none => .error .parse                                               -- 124-126
  | some rows => ofBoolRows (rows.map Row.flat) check                   -- 127-128, 130-

/-! ### `Pauli_phase_tracking` (244-260) -/

def pauliPhaseTracking (old applied : P1) : Nat :=
  if old == (true, false) && applied == (true, true) then 3
  else if old == (true, true) && applied == (false, true) then 3
  else if old == (false, true) && applied == (true, false) then 3
  else if old == (true, true) && applied == (true, false) then 1
  else if old == (false, true) && applied == (true, true) then 1
  else if old == (true, false) && applied == (false, true) then 1
  else 0

/-! ### standard form and pivot columns (262-312, 466-471, 509-529) -/

/-- `boolean_gaussian_elimination(matrix, True)`: `gaussLoop` of `Stab.lean` with
the list `pivot_columns` (297: appended whenever a pivot row is found) -/
def gaussLoopP (w : Nat) (rows : List Row) (h k : Nat) (piv : List Nat) : Nat → List Row × List Nat
  | 0 => (rows, piv)
  | fuel + 1 =>
    if h < rows.length ∧ k < 2 * w + 1 then
      let found := (firstFrom w rows h k).isSome
      let (rows', h') := gaussStep w rows h k
      gaussLoopP w rows' h' (k + 1) (if found then piv ++ [k] else piv) fuel
    else (rows, piv)

def gaussP (w : Nat) (rows : List Row) : List Row × List Nat := gaussLoopP w rows 0 0 [] (2 * w + 1)

def pivotColumns (w : Nat) (rows : List Row) : List Nat := (gaussP w rows).2

/-- `put_in_standard_form` -/
def putInStandardForm (s : St) : St := { s with rows := gauss s.n s.rows }

/-- what `to_array` returns -/
inductive ArrayOut where
  | arr (rows : List Row)
  | arrPiv (rows : List Row) (pivots : List Nat)
  deriving DecidableEq, Repr

/-- `to_array(standard_form, return_pivot_columns)`; without `standard_form` the
second flag is ignored (528-529) -/
def toArray (s : St) (standardForm returnPivots : Bool) : ArrayOut :=
  if standardForm then
    if returnPivots then .arrPiv (gaussP s.n s.rows).1 (gaussP s.n s.rows).2
    else .arr (gauss s.n s.rows)
  else .arr s.rows

/-! ### `check_symplectic` (314-315), `__mul__` (213-214) -/

def checkSymplectic (s : St) : Bool := isSymplectic s.rows

def mulSt (a b : St) : St := tensor a b

/-! ### composite gates (628-634) -/

/-- `apply_sqrt_minIX`: `apply_K` then `apply_Z` -/
def sqrtMinIX (j : Nat) (s : St) : Option St := (applyGate1 .K j s).bind (applyGate1 .Z j)

/-- `apply_sqrt_IZ`: `apply_Z` then `apply_S` -/
def sqrtIZ (j : Nat) (s : St) : Option St := (applyGate1 .Z j s).bind (applyGate1 .S j)

/-! ### argument handling of `contains` (420-429, 447-456) -/

/-- `_assert_valid_stabilizer`; `none` stands for an entry that is not a `bool` -/
def assertValidStabilizer (stab : List (Option Bool)) (numCols : Nat) : Except Err Unit :=
  if stab.any Option.isNone then .error .notBool
  else if stab.length != numCols then .error .stabLen
  else .ok ()

/-- `contains(list)` on a state with `_group` of shape `n x (2n+1)`: a list one
short gets `False` appended, then the validity check, then `_contains` proper.
(After the check every entry is `some b`.) -/
def containsBits (s : St) (stab : List (Option Bool)) : Except Err Bool :=
  let numCols := 2 * s.n + 1
  let stab := if stab.length == numCols - 1 then stab ++ [some false] else stab
  match assertValidStabilizer stab numCols with
  | .error e => .error e
  | .ok () => .ok (contains s.n s.rows (unflat s.n (stab.map fun b => b == some true)))

/-- `contains(str)` -/
def containsStr (s : St) (str : String) : Except Err Bool :=
  match strToOperator str with
  | none => .error .containsParse
  | some r => containsBits s (r.flat.map some)

end SqVerif.Stab

import SqVerif.JointLemmasProd
/-
C01 joint layer, part 3 — how the product group moves when the HEAD factor's group moves by one
of the L0 transformers (the hypotheses `hG'` are the conclusions of `C13.gate1_group`,
`C13.gate2_group`, `C13.addQubit_group_explicit`, `C14.measure_inplace_group`,
`C14.measure_destructive_group`, stated for an abstract group predicate):

  `prodG_gate1`, `prodG_gate2`   conjugation at the token(s) labelling the position(s);
  `prodG_add`                    a fresh |0> qubit with an unused token;
  `prodG_collapse`               projection on the `(-1)^o` eigenspace of `Z_x`;
  `prodG_restrict`               … followed by removal of the token;
  `prodG_z`                      `±Z_x ∈` product group `↔ ±Z_j ∈` head group.

The same lemmas serve the engines' side (head = the register holding the token, rest = all other
registers) and the ideal side (head = the ideal register, rest = []).
-/
set_option linter.unusedSimpArgs false
set_option linter.unusedVariables false
namespace SqVerif.Joint
open SqVerif.Stab SqVerif.Stab.Meas SqVerif.VNet SqVerif.VNetEng

/-- what the head-change lemmas need of the head factor and of the rest -/
structure HeadOK (toks : List Nat) (G : POp → Prop) (rest : List Fac) : Prop where
  nodup : toks.Nodup
  width : ∀ p, G p → p.ps.length = toks.length
  off : ∀ r, ProdG rest r → ∀ x, x ∈ toks → r.f x = I1

theorem FacsOK.headOK {toks : List Nat} {G : POp → Prop} {rest : List Fac} (h : FacsOK ((toks, G) :: rest)) :
    HeadOK toks G rest :=
  ⟨h.head.nodup, h.head.width, fun r hr x hx => prodG_rest_off h hr hx⟩

theorem headOK_nil {toks : List Nat} {G : POp → Prop} (hn : toks.Nodup) (hw : ∀ p, G p → p.ps.length = toks.length) :
    HeadOK toks G [] :=
  ⟨hn, hw, fun r hr x _ => hr.2 x⟩

theorem head_letter {toks : List Nat} {j x : Nat} (q : POp) (r : TOp) (hn : toks.Nodup) (hj : toks[j]? = some x)
    (hl : q.ps.length = toks.length) (hr : r.f x = I1) : ((lift toks q).dmul r).f x = getP q.ps j := by
  have hjl : j < toks.length := (List.getElem?_eq_some_iff.1 hj).1
  show mul1 (look toks q.ps x) (r.f x) = _
  rw [hr, mul1_I1_right, look_eq_getP toks q.ps j x hn hj (hl ▸ hjl)]

theorem prodG_gate1 {toks : List Nat} {G G' : POp → Prop} {rest : List Fac} (g : Gate1) {j x : Nat}
    (hok : HeadOK toks G rest) (hj : toks[j]? = some x)
    (hG' : ∀ p', G' p' ↔ ∃ q, G q ∧ p' ≈ₚ conjAt1 g j q) (t : TOp) :
    ProdG ((toks, G') :: rest) t ↔ ∃ t0, ProdG ((toks, G) :: rest) t0 ∧ t ≈ₜ t0.conj1 g x := by
  have hjl : j < toks.length := (List.getElem?_eq_some_iff.1 hj).1
  have hx : x ∈ toks := List.mem_of_getElem? hj
  refine prodG_head_map (conjAt1 g j) (TOp.conj1 g x) hG' (fun a a' e => conj1_congr g x e) ?_ t
  intro q r hq hr
  have hl := hok.width q hq
  refine teqv_trans (conj1_dmul g x _ r (hok.off r hr x hx)) (dmul_congr ?_ (teqv_refl r))
  exact lift_conjAt1 g q hok.nodup hj (hl ▸ hjl)

theorem prodG_gate2 {toks : List Nat} {G G' : POp → Prop} {rest : List Fac} (g : Gate2) {jc jd c d : Nat}
    (hok : HeadOK toks G rest) (hjc : toks[jc]? = some c) (hjd : toks[jd]? = some d)
    (hG' : ∀ p', G' p' ↔ ∃ q, G q ∧ p' ≈ₚ conjAt2 g jc jd q) (t : TOp) :
    ProdG ((toks, G') :: rest) t ↔ ∃ t0, ProdG ((toks, G) :: rest) t0 ∧ t ≈ₜ t0.conj2 g c d := by
  have hjcl : jc < toks.length := (List.getElem?_eq_some_iff.1 hjc).1
  have hjdl : jd < toks.length := (List.getElem?_eq_some_iff.1 hjd).1
  have hc : c ∈ toks := List.mem_of_getElem? hjc
  have hd : d ∈ toks := List.mem_of_getElem? hjd
  refine prodG_head_map (conjAt2 g jc jd) (TOp.conj2 g c d) hG' (fun a a' e => conj2_congr g c d e) ?_ t
  intro q r hq hr
  have hl := hok.width q hq
  refine teqv_trans (conj2_dmul g c d _ r (hok.off r hr c hc) (hok.off r hr d hd)) (dmul_congr ?_ (teqv_refl r))
  exact lift_conjAt2 g q hok.nodup hjc hjd (hl ▸ hjcl) (hl ▸ hjdl)

theorem prodG_add {toks : List Nat} {G G' : POp → Prop} {rest : List Fac} {x : Nat}
    (hok : HeadOK toks G rest) (hx : x ∉ toks) (hxr : ∀ F, F ∈ rest → x ∉ F.1)
    (hG' : ∀ p', G' p' ↔ ∃ q, G q ∧ ∃ b : Bool, p' ≈ₚ ⟨q.ph, q.ps ++ [(false, b)]⟩) (t : TOp) :
    ProdG ((toks ++ [x], G') :: rest) t ↔ TAdded (ProdG ((toks, G) :: rest)) x t := by
  have key : ∀ (q : POp) (r : TOp) (b : Bool), G q → ProdG rest r →
      (lift (toks ++ [x]) ⟨q.ph, q.ps ++ [(false, b)]⟩).dmul r ≈ₜ
        ⟨((lift toks q).dmul r).ph, upd ((lift toks q).dmul r).f x (false, b)⟩ := by
    intro q r b hq hr
    have hrx : r.f x = I1 := prodG_off rest hr hxr
    have e1 := lift_snoc q (false, b) hx (hok.width q hq)
    refine teqv_trans (dmul_congr e1 (teqv_refl r)) ⟨rfl, fun y => ?_⟩
    exact (upd_dmul (lift toks q) r x (false, b) hrx y).symm
  have := prodG_head_rel (toks := toks) (toks' := toks ++ [x]) (G := G) (G' := G') (rest := rest)
    (fun q p' => ∃ b : Bool, p' ≈ₚ ⟨q.ph, q.ps ++ [(false, b)]⟩)
    (fun t0 t => ∃ b : Bool, t ≈ₜ ⟨t0.ph, upd t0.f x (false, b)⟩) hG' ?_ ?_ ?_ t
  · rw [this]
    constructor
    · rintro ⟨t0, h0, b, hb⟩; exact ⟨t0, b, h0, hb⟩
    · rintro ⟨t0, b, h0, hb⟩; exact ⟨t0, h0, b, hb⟩
  · rintro a a' b b' ea eb ⟨c, hc⟩
    refine ⟨c, teqv_trans (teqv_symm eb) (teqv_trans hc ⟨ea.1, fun y => ?_⟩)⟩
    simp only [upd, ea.2 y]
  · rintro q p' r hq ⟨b, hb⟩ hr
    exact ⟨b, teqv_trans (dmul_congr (lift_congr _ hb) (teqv_refl r)) (key q r b hq hr)⟩
  · rintro q r t hq hr ⟨b, hb⟩
    exact ⟨⟨q.ph, q.ps ++ [(false, b)]⟩, ⟨b, eqv_refl _⟩, teqv_trans hb (teqv_symm (key q r b hq hr))⟩

theorem prodG_collapse {toks : List Nat} {G G' : POp → Prop} {rest : List Fac} {j x : Nat} (o : Bool)
    (hok : HeadOK toks G rest) (hj : toks[j]? = some x)
    (hG' : ∀ p', G' p' ↔ ∃ q0, G q0 ∧ (antiL q0.ps (zAt toks.length j false).ps = false ∧
      (p' ≈ₚ q0 ∨ p' ≈ₚ q0 ⋆ zAt toks.length j o))) (t : TOp) :
    ProdG ((toks, G') :: rest) t ↔ TCollapsed (ProdG ((toks, G) :: rest)) x o t := by
  have hjl : j < toks.length := (List.getElem?_eq_some_iff.1 hj).1
  have hx : x ∈ toks := List.mem_of_getElem? hj
  have hanti : ∀ q r, G q → ProdG rest r →
      (antiL q.ps (zAt toks.length j false).ps = false ↔ (((lift toks q).dmul r).f x).1 = false) := by
    intro q r hq hr
    rw [head_letter q r hok.nodup hj (hok.width q hq) (hok.off r hr x hx),
      antiL_zAt toks.length j hjl false q.ps (hok.width q hq)]
  have hmz : ∀ q r, G q → ProdG rest r →
      (lift toks (q ⋆ zAt toks.length j o)).dmul r ≈ₜ ((lift toks q).dmul r).mulZ x o := by
    intro q r hq hr
    refine teqv_trans (dmul_congr (lift_mulZ o q hok.nodup hj (hok.width q hq)) (teqv_refl r)) ?_
    exact teqv_symm (mulZ_dmul x o _ r (hok.off r hr x hx))
  refine prodG_head_rel (toks := toks) (toks' := toks) (G := G) (G' := G') (rest := rest)
    (fun q0 p' => antiL q0.ps (zAt toks.length j false).ps = false ∧
      (p' ≈ₚ q0 ∨ p' ≈ₚ q0 ⋆ zAt toks.length j o))
    (fun t0 t => (t0.f x).1 = false ∧ (t ≈ₜ t0 ∨ t ≈ₜ t0.mulZ x o)) hG' ?_ ?_ ?_ t
  · rintro a a' b b' ea eb ⟨h1, h2⟩
    refine ⟨by rw [← ea.2 x]; exact h1, ?_⟩
    rcases h2 with h2 | h2
    · exact .inl (teqv_trans (teqv_symm eb) (teqv_trans h2 ea))
    · exact .inr (teqv_trans (teqv_symm eb) (teqv_trans h2 (mulZ_congr x o ea)))
  · rintro q p' r hq ⟨h1, h2⟩ hr
    refine ⟨(hanti q r hq hr).1 h1, ?_⟩
    rcases h2 with h2 | h2
    · exact .inl (dmul_congr (lift_congr _ h2) (teqv_refl r))
    · exact .inr (teqv_trans (dmul_congr (lift_congr _ h2) (teqv_refl r)) (hmz q r hq hr))
  · rintro q r t hq hr ⟨h1, h2⟩
    rcases h2 with h2 | h2
    · exact ⟨q, ⟨(hanti q r hq hr).2 h1, .inl (eqv_refl _)⟩, h2⟩
    · exact ⟨q ⋆ zAt toks.length j o, ⟨(hanti q r hq hr).2 h1, .inr (eqv_refl _)⟩,
        teqv_trans h2 (teqv_symm (hmz q r hq hr))⟩

theorem prodG_restrict {toks : List Nat} {G G' : POp → Prop} {rest : List Fac} {j x : Nat} (o : Bool)
    (hok : HeadOK toks G rest) (hj : toks[j]? = some x)
    (hG' : ∀ p', G' p' ↔ ∃ q, G q ∧ ((getP q.ps j).1 = false ∧ p' ≈ₚ restrictOp j o q)) (t : TOp) :
    ProdG ((toks.eraseIdx j, G') :: rest) t ↔ TRestricted (ProdG ((toks, G) :: rest)) x o t := by
  have hx : x ∈ toks := List.mem_of_getElem? hj
  have hlet : ∀ q r, G q → ProdG rest r → ((lift toks q).dmul r).f x = getP q.ps j :=
    fun q r hq hr => head_letter q r hok.nodup hj (hok.width q hq) (hok.off r hr x hx)
  have hre : ∀ q r, G q → ProdG rest r →
      (lift (toks.eraseIdx j) (restrictOp j o q)).dmul r ≈ₜ ((lift toks q).dmul r).restrict x o := by
    intro q r hq hr
    refine teqv_trans (dmul_congr (lift_restrictOp o q hok.nodup hj (hok.width q hq)) (teqv_refl r)) ?_
    exact teqv_symm (restrict_dmul x o _ r (hok.off r hr x hx))
  refine prodG_head_rel (toks := toks) (toks' := toks.eraseIdx j) (G := G) (G' := G') (rest := rest)
    (fun q p' => (getP q.ps j).1 = false ∧ p' ≈ₚ restrictOp j o q)
    (fun t0 t => (t0.f x).1 = false ∧ t ≈ₜ t0.restrict x o) hG' ?_ ?_ ?_ t
  · rintro a a' b b' ea eb ⟨h1, h2⟩
    exact ⟨by rw [← ea.2 x]; exact h1, teqv_trans (teqv_symm eb) (teqv_trans h2 (restrict_congr x o ea))⟩
  · rintro q p' r hq ⟨h1, h2⟩ hr
    exact ⟨by rw [hlet q r hq hr]; exact h1,
      teqv_trans (dmul_congr (lift_congr _ h2) (teqv_refl r)) (hre q r hq hr)⟩
  · rintro q r t hq hr ⟨h1, h2⟩
    exact ⟨restrictOp j o q, ⟨by rw [← hlet q r hq hr]; exact h1, eqv_refl _⟩,
      teqv_trans h2 (teqv_symm (hre q r hq hr))⟩

theorem lift_zAt {toks : List Nat} {j x : Nat} (b : Bool) (hn : toks.Nodup) (hj : toks[j]? = some x) :
    lift toks (zAt toks.length j b) ≈ₜ TOp.z x b := by
  have hjl : j < toks.length := (List.getElem?_eq_some_iff.1 hj).1
  refine ⟨rfl, fun y => ?_⟩
  show look toks (setP (idPad toks.length) j (false, true)) y = upd (fun _ => I1) x (false, true) y
  rw [look_setP toks (idPad toks.length) j x _ y hn hj (by simpa [idPad] using hjl), look_idPad]
  rfl

/-- `±Z_x` is in the product group iff `±Z_j` is in the group of the register holding `x` -/
theorem prodG_z {toks : List Nat} {G : POp → Prop} {rest : List Fac} {j x : Nat} (b : Bool)
    (hok : FacsOK ((toks, G) :: rest)) (hj : toks[j]? = some x) :
    ProdG ((toks, G) :: rest) (TOp.z x b) ↔ G (zAt toks.length j b) := by
  rw [← prodG_head_only hok (zAt toks.length j b) (zAt_psl _ _ _)]
  have e := lift_zAt b hok.head.nodup hj
  exact ⟨prodG_congr _ (teqv_symm e), prodG_congr _ e⟩

end SqVerif.Joint

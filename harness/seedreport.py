"""Build seeded/RESULTS.md and refresh seeded/<id>/<m>/meta.json from the seedtest logs
(/tmp/seeds_batch*.log by default, or the files given as arguments).  Later logs override
earlier ones per (mutant, check)."""
import glob
import json
import os
import re
import shutil
import sys

V = os.path.dirname(os.path.dirname(os.path.abspath(__file__)))


def parse(files):
    res = {}
    for f in files:
        txt = open(f, errors="replace").read()
        for blk in txt.split("=== ")[1:]:
            lines = blk.strip().split("\n")
            head = lines[0].split()
            if len(head) < 2:
                continue
            prop, m = head[0], head[1]
            rnd = 1
            if m.startswith("r2-"):
                rnd, m = 2, m[3:]
            elif m.startswith("r6-"):
                rnd, m = 6, m[3:]
            elif m.startswith("r5-"):
                rnd, m = 5, m[3:]
            elif m.startswith("r4-"):
                rnd, m = 4, m[3:]
            elif m.startswith("r3-"):
                rnd, m = 3, m[3:]
            key = (prop, rnd, m)
            r = res.setdefault(key, {"checks": {}, "suite": None, "demo_clean": None, "demo_mutant": None})
            for l in lines[1:]:
                if l.startswith("demo clean"):
                    r["demo_clean"] = l.split("=")[1].strip()
                elif l.startswith("demo mutant"):
                    r["demo_mutant"] = l[len("demo mutant "):].strip()[:200]
                elif "passed" in l and "failed" in l:
                    mm = re.search(r"(\d+) failed, (\d+) passed", l)
                    if mm:
                        r["suite"] = "%s failed, %s passed" % (mm.group(1), mm.group(2))
                elif l.startswith("check "):
                    parts = l.split()
                    c, rc = parts[1], parts[2].split("=")[1]
                    if "violation(s)" in l:
                        nv = int(re.search(r"(\d+) violation\(s\)", l).group(1))
                        nn = int(re.search(r"(\d+) without input", l).group(1))
                    else:
                        nv = l.count("VIOLATION property=")
                        nn = l.count("no-failing-input-found")
                        if rc == "1" and nv == 0:
                            nv = 1  # summary line cut off by KNOWN-FINDING lines
                    r["checks"][c] = {"exit": rc, "violations": nv, "no_failing_input": nn}
    return res


def verdict(r, prop):
    best = "missed"
    by = []
    for c, v in sorted(r["checks"].items()):
        if v["exit"] == "1" and v["violations"] - v["no_failing_input"] > 0:
            by.append("%s (failing input)" % c)
            best = "caught"
        elif v["exit"] == "1":
            by.append("%s (no-failing-input-found)" % c)
            if best == "missed":
                best = "caught-without-input"
        elif v["exit"] not in ("0", "1"):
            by.append("%s (exit %s)" % (c, v["exit"]))
    return best, by


def main():
    files = sys.argv[1:] or sorted(glob.glob("/tmp/seeds_batch*.log"), key=lambda p: int(re.findall(r"\d+", p)[-1]))
    res = parse(files)
    rows = []
    for (prop, rnd, m), r in sorted(res.items()):
        src = "/tmp/seed%s_%s_out/%s" % ("" if rnd == 1 else str(rnd), prop, m)
        name = m if rnd == 1 else "r%d" % rnd + m
        dst = os.path.join(V, "seeded", prop, name)
        if os.path.exists(os.path.join(src, "patch.diff")):
            os.makedirs(dst, exist_ok=True)
            for fn in ("patch.diff", "demo.py"):
                shutil.copy(os.path.join(src, fn), os.path.join(dst, fn))
            try:
                meta = json.load(open(os.path.join(src, "meta.json")))
            except Exception:
                meta = {}
        elif os.path.exists(os.path.join(dst, "meta.json")):
            meta = json.load(open(os.path.join(dst, "meta.json")))
        else:
            continue
        best, by = verdict(r, prop)
        valid = r["demo_clean"] == "0" and (r["demo_mutant"] or "").startswith("exit=1") and (r["suite"] in (None, "1 failed, 116 passed"))
        meta["confirmed_by_coordinator"] = {
            "how": "harness/seedtest.sh: patch applied to a scratch worktree of /repo HEAD; demo on the clean and on the mutated "
                   "tree; pinned test suite on the mutated tree (baseline: 116 passed, 1 pre-existing failure); ./check with "
                   "VERIF_REPO=<mutated tree>",
            "demo_clean_exit": r["demo_clean"], "demo_mutant": r["demo_mutant"], "suite": r["suite"],
            "checks": r["checks"], "verdict": best, "reported_by": by, "valid_seed": valid}
        json.dump(meta, open(os.path.join(dst, "meta.json"), "w"), indent=1)
        rows.append((prop, name, meta.get("what", "")[:150].replace("|", "/"), meta.get("needs_to_manifest", "")[:120].replace("|", "/"),
                     r["suite"] or "not run", best, ", ".join(by) or "-", valid))
    out = ["# Seeded changes and what the checks report\n",
           "Produced by independent sub-agents that saw only the property text and their own scratch worktree; confirmed with",
           "`harness/seedtest.sh` (demo fails with / passes without the change; pinned suite unchanged: 116 passed + the one",
           "pre-existing failure).  `caught` = the property's check (or a neighbouring one, named) prints a VIOLATION with a",
           "concrete failing input; `caught-without-input` = only `no-failing-input-found`; rows marked *not a valid seed* changed",
           "the result of the pinned suite or of the clean demo and are kept for the record only.\n",
           "| property | change | what it does | needs | pinned suite | verdict | reported by |", "|---|---|---|---|---|---|---|"]
    for prop, name, what, needs, suite, best, by, valid in rows:
        out.append("| %s | %s | %s | %s | %s | %s%s | %s |" % (prop, name, what, needs, suite, best, "" if valid else " (*not a valid seed*)", by))
    n = len(rows)
    c = sum(1 for r in rows if r[5] == "caught")
    w = sum(1 for r in rows if r[5] == "caught-without-input")
    out.append("\n%d changes: %d caught with a failing input, %d caught without a failing input, %d missed.\n" % (n, c, w, n - c - w))
    open(os.path.join(V, "seeded", "RESULTS.md"), "w").write("\n".join(out))
    print("\n".join(out[-2:]))
    for r in rows:
        if r[5] != "caught" or not r[7]:
            print("ATTN", r[0], r[1], r[4], r[5], r[6])


if __name__ == "__main__":
    main()

"""Stateful-sequence stage of C13 / C14: sequences of 3..12 operations on ONE
long-lived `StabilizerState` (or one `stabilizerEngine`), a second long-lived
state and the copies made along the way.

The other stages (stabutil.py, stabapi_cases.py) run one operation per freshly
constructed object; anything an object remembers between calls (caches, flags,
shared arrays) is invisible to them.  Here every public method is drawn into
sequences on the same objects: gates X/Y/Z/H/K/S/CNOT/CZ/sqrt gates, `add_qubit`,
`tensor_product` / `*` (engine: `absorb`, `absorb_parts`, `add_qubit(array)`),
`put_in_standard_form`, `to_array` in its four forms (engine:
`get_register_RI`), `==` against a fresh object with the same generators / a
re-mixed generator set / the same in standard form / a different state / another
long-lived object / itself, `contains`, `measure` in place and destructive with
a scripted coin (engine: `measure_qubit`, `measure_qubit_inplace`,
`remove_qubit`), copy construction followed by continued use of BOTH objects,
`str` / `repr` / `len` / `to_string`.

A case is the picklable tuple
    ("seq", via, n0, rows0, n1, rows1, ops, api)
`via` = "state" | "engine" (object #0 lives in a `stabilizerEngine`), object #1 is
the second long-lived state, `ops` a tuple of operations naming their object by
index (modulo the number of objects alive, so that every sub-sequence is again a
valid case: that is what the shrinker relies on), `api` = whether the driver
`stabapi` may be used (C13) or only `stab` (C14).

After EVERY step
* oracle (NumPy, model-independent): a reference state vector is carried along
  for every object (gate matrices, kron, projectors); the generators held by the
  object touched must be n independent commuting operators fixing its reference
  vector; every OTHER object must hold literally the rows it held before the step
  (aliasing); `==` must answer "same vector up to phase", `contains(P)` must answer
  "P|psi> = |psi>", standard forms must be reduced and identical to the standard
  form of a fresh object built from a re-mixed generator set (canonical);
  queries leave the group alone; arrays handed out are copies (they are
  overwritten and the object must not notice).
* tie: the same step is run on the Lean model state threaded through the
  sequence (drivers `stab` / `stabapi`, stateless per line: the pre-state of a
  line is the model's own post-state of the previous line; see `tie`).
"""
import copy
import itertools
import multiprocessing
import os
import random

import numpy as np

from . import core
from . import stabutil as su
from . import stabapi_cases as sa

KIND = "seq"
MAX_OBJS = 5
MAX_QUBITS = 10
ENGINE_GATE = dict(su.ENGINE_GATE, S="apply_S")


def is_seq(desc):
    return isinstance(desc[0], str) and desc[0] == KIND


def _deep(x):
    return tuple(_deep(y) for y in x) if isinstance(x, (list, tuple)) else x


# --------------------------------------------------------------------------
# showing a sequence
# --------------------------------------------------------------------------

def show_op(op):
    k = op[0]
    o = "#%d" % op[1]
    if k == "g":
        return "%s.apply_%s(%s)" % (o, op[2], ",".join(map(str, op[3])))
    if k == "sq":
        return "%s.apply_sqrt_%s(%d)" % (o, op[2], op[3])
    if k == "addq":
        return "%s.add_qubit()" % o
    if k == "tensor":
        a, b = (("#%d" % op[2]), o) if op[3] else (o, ("#%d" % op[2]))
        return "%s = %s (x) %s [%s]" % (o, a, b, op[4])
    if k == "std":
        return "%s.put_in_standard_form()" % o
    if k == "arr":
        return "%s.to_array(standard_form=%s, return_pivot_columns=%s) [overwritten afterwards]" % (o, bool(op[2]), bool(op[3]))
    if k == "eq":
        return "%s == <%s> (both ways)" % (o, op[2])
    if k == "eqs":
        return "%s == #%d" % (o, op[2])
    if k == "contains":
        return "%s.contains(<%s as %s>)" % (o, op[2], op[3])
    if k == "measure":
        return "%s.measure(%d, inplace=%s) coin %d%s" % (o, op[2], bool(op[3]), op[4], " via remove_qubit" if len(op) > 5 and op[5] == "remove" else "")
    if k == "copy":
        return "new object = StabilizerState(%s)" % o
    if k == "str":
        return "str/repr/len(%s)" % o
    return repr(op)


def show_seq(desc, upto=None):
    _, via, n0, rows0, n1, rows1, ops, api = desc
    ops = ops if upto is None else ops[:upto + 1]
    return "#0 = %s%s, #1 = %s; %s" % (su.show(n0, rows0), " in a stabilizerEngine" if via == "engine" else "",
                                       su.show(n1, rows1), " -> ".join(show_op(o) for o in ops))


# --------------------------------------------------------------------------
# executor
# --------------------------------------------------------------------------

class _Stop(Exception):
    pass


class _Slot:
    """one long-lived object + its reference vector"""

    def __init__(self, obj=None, eng=None, n=0, v=None):
        self._obj, self.eng, self.n, self.v = obj, eng, n, v

    @property
    def obj(self):
        return self.eng.qubitReg if self.eng is not None else self._obj

    def put(self, o):
        if self.eng is not None:
            self.eng.qubitReg = o
        else:
            self._obj = o


def _proj(v, n, j, o):
    idx, _ = su._tables(n)
    return np.where(((idx >> (n - 1 - j)) & 1) == o, v, 0)


def _same(v, w):
    return len(v) == len(w) and abs(np.vdot(v, w)) > 1 - 1e-6


def _vec(n, rows):
    v = su.stab_vector(n, rows)
    if v is None:
        raise core.MachineryError("stabseq: no state vector for %s" % su.show(n, rows))
    return v


class _Run:
    def __init__(self, desc):
        _, via, n0, rows0, n1, rows1, ops, api = desc
        self.desc, self.ops, self.api = desc, ops, api
        self.out = su.Out(desc, max(n0, n1))
        self.out.steps = []          # tie records, see rec()
        self.out.nsteps = 0
        self.i = -1
        self.slots = []
        self.pre = []
        if via == "engine":
            self.slots.append(_Slot(eng=su.engine(n0, rows0), n=n0, v=_vec(n0, rows0)))
        else:
            self.slots.append(_Slot(obj=su.mk(n0, rows0), n=n0, v=_vec(n0, rows0)))
        self.slots.append(_Slot(obj=su.mk(n1, rows1), n=n1, v=_vec(n1, rows1)))

    # -- helpers ---------------------------------------------------------
    def slot(self, k):
        return k % len(self.slots)

    def bad(self, key, what, **extra):
        self.out.bad("seq:" + key, "step %d of [%s]: %s" % (self.i + 1, show_seq(self.desc, self.i), what), step=self.i, **extra)
        raise _Stop()

    def rec(self, driver, tmpl, k, obs, mode, ko=None, upd=None):
        """one model query: `tmpl` with {S} = state of object k, {O} = state of object ko; `upd` = object whose
        model state becomes the state printed by the model"""
        self.out.steps.append((self.i, driver, tmpl, k, ko, self.pre[k], None if ko is None else self.pre[ko], obs, mode, upd))

    def snapshot(self):
        return [su.enc_state(*su.dump(s.obj)) for s in self.slots]

    def check_all(self, touched, query):
        """after a step: objects not touched hold literally what they held; the touched ones hold n independent
        commuting generators of their reference vector; shapes"""
        for k, s in enumerate(self.slots):
            o = s.obj
            pn, prows = su.dump(o)
            g = o._group
            why = None
            if not isinstance(g, np.ndarray) or g.dtype != np.bool_ or g.ndim != 2 or g.shape[0] != pn or (pn and g.shape[1] != 2 * pn + 1):
                why = "_group is a %s of shape %r, dtype %s for %d qubits" % (type(g).__name__, getattr(g, "shape", None), getattr(g, "dtype", None), pn)
            elif len(o) != pn or o.num_qubits != pn:
                why = "len() = %r, num_qubits = %r" % (len(o), o.num_qubits)
            elif k not in touched:
                if k < len(self.pre) and su.enc_state(pn, prows) != self.pre[k]:
                    self.bad("aliasing", "object #%d was not involved but changed from %s to %s" % (k, self.pre[k], su.show(pn, prows)),
                             observed=su.enc_state(pn, prows))
                continue
            elif pn != s.n:
                why = "the object has %d qubits, the reference state %d" % (pn, s.n)
            else:
                why = su.check_generators(pn, prows, s.v)
            if why:
                self.bad(self.key, "afterwards object #%d holds %s: %s%s" % (k, su.show(pn, prows), why, " (a query changed the state)" if query else ""),
                         observed=su.enc_state(pn, prows))
            if query and k < len(self.pre) and su.enc_state(pn, prows) != self.pre[k]:
                self.out.cnt.append("seq:query re-arranged the generators (group kept)")

    # -- the operations --------------------------------------------------
    def run(self):
        try:
            for i, op in enumerate(self.ops):
                self.i = i
                self.pre = self.snapshot()
                self.key = op[0]
                getattr(self, "op_" + op[0])(*op[1:])
                self.out.nsteps += 1
                self.out.n = max(self.out.n, max(s.n for s in self.slots))
        except _Stop:
            pass
        self.out.nontrivial = self.out.nsteps >= 3 and self.out.n >= 2
        return self.out

    def op_g(self, k, g, args):
        k = self.slot(k)
        S = self.slots[k]
        n, args = S.n, tuple(args)
        self.key = "gate:" + g
        valid = len(args) == (1 if g in su.U1 else 2) and all(0 <= a < n for a in args) and len(set(args)) == len(args)
        if S.eng is not None and g in ENGINE_GATE:
            kind, _ = su._call(getattr(S.eng, ENGINE_GATE[g]), *args)
        else:
            kind, _ = su._call(getattr(S.obj, "apply_" + g), *args)
        post = su.enc_state(*su.dump(S.obj))
        obs = "ok " + post if kind == "ok" else kind
        line = "%s %s %s | {S}" % ("g1" if g in su.U1 else "g2", g, " ".join(map(str, args)))
        if not valid:
            self.out.cnt.append("seq:reject:gate")
            if kind != "ValueError" or post != self.pre[k]:
                self.bad("reject:gate", "apply_%s%r on %d qubits must raise ValueError and leave the state alone; got %s" % (g, args, n, obs), observed=obs)
            if all(a >= 0 for a in args):
                self.rec("stab", line, k, obs, "lit")
            self.check_all(set(), False)
            return
        self.out.cnt.append("seq:gate:" + g)
        if kind != "ok":
            self.bad(self.key, "apply_%s%r raised %s" % (g, args, kind), observed=obs)
        S.v = su.apply_gate(g, args, n, S.v)
        self.rec("stab", line, k, obs, "grp", upd=k)
        self.check_all({k}, False)

    def op_sq(self, k, which, j):
        k = self.slot(k)
        S = self.slots[k]
        self.key = "sqrt_" + which
        kind, _ = su._call(getattr(S.obj, "apply_sqrt_" + which), j)
        post = su.enc_state(*su.dump(S.obj))
        obs = "ok " + post if kind == "ok" else kind
        line = "%s %d | {S}" % ("sqx" if which == "minIX" else "sqz", j)
        if not 0 <= j < S.n:
            self.out.cnt.append("seq:reject:gate")
            if kind != "ValueError" or post != self.pre[k]:
                self.bad("reject:gate", "apply_sqrt_%s(%d) on %d qubits must raise ValueError and leave the state alone; got %s" % (which, j, S.n, obs), observed=obs)
            if j >= 0 and self.api:
                self.rec("stabapi", line, k, obs, "lit")
            self.check_all(set(), False)
            return
        self.out.cnt.append("seq:gate:sqrt_" + which)
        if kind != "ok":
            self.bad(self.key, "apply_sqrt_%s(%d) raised %s" % (which, j, kind), observed=obs)
        S.v = sa.apply_u1(sa.U_SQRT[which], j, S.n, S.v)
        if self.api:
            self.rec("stabapi", line, k, obs, "grp", upd=k)
        else:
            self.rec("=", "", k, obs, "grp", upd=k)      # not served by the driver `stab`: the model takes the object's rows
        self.check_all({k}, False)

    def op_addq(self, k):
        k = self.slot(k)
        S = self.slots[k]
        if S.n >= MAX_QUBITS:
            return
        self.key = "add_qubit"
        self.out.cnt.append("seq:add_qubit")
        if S.eng is not None:
            kind, num = su._call(S.eng.add_fresh_qubit)
        else:
            kind, num = su._call(S.obj.add_qubit)
            num = S.n
        obs = "ok " + su.enc_state(*su.dump(S.obj)) if kind == "ok" else kind
        if kind != "ok" or num != S.n:
            self.bad(self.key, "add_qubit %s" % ("raised " + kind if kind != "ok" else "reported the new qubit at %r, not %d" % (num, S.n)), observed=obs)
        S.v = np.kron(S.v, np.array([1, 0], dtype=complex))
        S.n += 1
        self.rec("stab", "addq | {S}", k, obs, "grp", upd=k)
        self.check_all({k}, False)

    def op_tensor(self, k, ko, left, style):
        k, ko = self.slot(k), self.slot(ko)
        S, O = self.slots[k], self.slots[ko]
        if S.n + O.n > MAX_QUBITS:
            return
        self.key = "tensor"
        self.out.cnt.append("seq:tensor:" + style)
        a, b = (O.obj, S.obj) if left else (S.obj, O.obj)
        if S.eng is not None and not left and style in ("absorb", "parts", "addq"):
            if style == "absorb":
                e2 = su.SIM.stabilizerEngine("other", 0, maxQubits=12)
                e2.qubitReg = O.obj
                kind, _ = su._call(S.eng.absorb, e2)
            elif style == "parts":
                kind, _ = su._call(lambda: S.eng.absorb_parts(O.obj.to_array(), None, O.n))
            else:
                kind, num = su._call(lambda: S.eng.add_qubit(O.obj.to_array()))
                if kind == "ok" and num != S.n:
                    self.bad(self.key, "engine.add_qubit(array) reported the first new qubit at %r, not %d" % (num, S.n), observed=repr(num))
        else:
            kind, r = su._call((lambda: a * b) if style == "mul" else (lambda: a.tensor_product(b)))
            if kind == "ok":
                if r is O.obj and ko != k:
                    # tensor_product returns the operand itself when the other one has 0 qubits: keep the objects apart
                    self.out.cnt.append("quirk:tensor_product returned an operand itself (the other has 0 qubits)")
                    r = copy.deepcopy(r)
                S.put(r)
        obs = "ok " + su.enc_state(*su.dump(S.obj)) if kind == "ok" else kind
        if kind != "ok":
            self.bad(self.key, "tensor product raised %s" % kind, observed=obs)
        S.v = np.kron(O.v, S.v) if left else np.kron(S.v, O.v)
        S.n += O.n
        if self.api and style == "mul":
            self.rec("stabapi", "mul | {O} | {S}" if left else "mul | {S} | {O}", k, obs, "grp", ko=ko, upd=k)
        else:
            self.rec("stab", "tensor | {O} | {S}" if left else "tensor | {S} | {O}", k, obs, "grp", ko=ko, upd=k)
        self.check_all({k}, False)

    def _canonical(self, n, rows, seed):
        """standard form of a FRESH object built from a re-mixed generator set of the same group"""
        if n == 0:
            return ()
        t = su.mk(n, su.remix(random.Random(seed), rows))
        return su.rows_of(t.to_array(standard_form=True))

    def op_std(self, k):
        k = self.slot(k)
        S = self.slots[k]
        self.key = "standard_form"
        self.out.cnt.append("seq:put_in_standard_form")
        before = su.dump(S.obj)
        kind, _ = su._call(S.obj.put_in_standard_form)
        pn, prows = su.dump(S.obj)
        obs = "ok " + su.enc_state(pn, prows) if kind == "ok" else kind
        if kind != "ok":
            self.bad(self.key, "put_in_standard_form raised %s" % kind, observed=obs)
        self.check_all({k}, False)
        why = None
        if not su._reduced(pn, prows):
            why = "the generators are not reduced"
        elif pn and prows != self._canonical(*before, seed=self.i):
            why = "a fresh object holding other generators of the same group has the standard form %s" % su.show(pn, self._canonical(*before, seed=self.i))
        if why:
            self.bad(self.key, "put_in_standard_form leaves %s: %s" % (su.show(pn, prows), why), observed=obs)
        if self.api:
            self.rec("stabapi", "std | {S}", k, obs, "lit", upd=k)
        else:
            self.rec("stab", "gauss | {S}", k, obs, "lit", upd=k)

    def op_arr(self, k, sf, rp):
        k = self.slot(k)
        S = self.slots[k]
        sf, rp = bool(sf), bool(rp)
        self.key = "to_array"
        n, rows = su.dump(S.obj)
        if S.eng is not None and not sf and not rp:
            self.out.cnt.append("seq:get_register_RI")
            kind, r = su._call(S.eng.get_register_RI)
            if kind == "ok":
                if not (isinstance(r, tuple) and len(r) == 2 and r[1] is None and isinstance(r[0], list)):
                    self.bad(self.key, "get_register_RI returned %r" % (r,), observed=repr(r))
                r = np.array(r[0], dtype=bool)
                r = r.reshape(n, r.size // n) if n else r.reshape(0, 0)
        else:
            self.out.cnt.append("seq:to_array(%d,%d)" % (sf, rp))
            kind, r = su._call(S.obj.to_array, standard_form=sf, return_pivot_columns=rp)
        if kind != "ok":
            self.bad(self.key, "to_array(standard_form=%s, return_pivot_columns=%s) raised %s" % (sf, rp, kind), observed=kind)
        piv = None
        if sf and rp:
            if not (isinstance(r, tuple) and len(r) == 2):
                self.bad(self.key, "to_array(True, True) returned a %s" % type(r).__name__, observed=type(r).__name__)
            r, piv = r
            piv = [int(p) for p in piv] if isinstance(piv, list) else piv
        if not isinstance(r, np.ndarray) or r.shape[0] != n:
            self.bad(self.key, "to_array returned %r" % (r,), observed=repr(r))
        arows = su.rows_of(r)
        why = None
        if not sf:
            if arows != rows:
                why = "the array is not the generator matrix held (%s)" % su.show(n, rows)
        elif n:
            why = su.check_generators(n, arows, S.v)
            if not why and not su._reduced(n, arows):
                why = "the array is not reduced"
            if not why and arows != self._canonical(n, rows, seed=self.i):
                why = "a fresh object holding other generators of the same group gives %s" % su.show(n, self._canonical(n, rows, seed=self.i))
            if not why and piv is not None:
                why = sa._pivots_ok(arows, piv)
                if not why and len(piv) != n:
                    why = "%d pivot columns for %d qubits" % (len(piv), n)
        if why:
            self.bad(self.key, "to_array(standard_form=%s, return_pivot_columns=%s) gives %s: %s" % (sf, rp, su.show(n, arows), why),
                     observed=su.enc_state(n, arows))
        # the array is the caller's: overwrite it
        if r.size:
            r[...] = np.logical_not(r)
        if su.dump(S.obj) != (n, rows):
            self.bad(self.key, "to_array(standard_form=%s) handed out the matrix of the object itself: overwriting the array changed the state to %s" % (
                sf, su.show(*su.dump(S.obj))), observed=su.enc_state(*su.dump(S.obj)))
        self._rec_arr(k, sf, rp, n, arows)
        self.check_all({k}, True)

    def _rec_arr(self, k, sf, rp, n, arows):
        if self.api:
            if sf and rp:
                # pivots of a reduced matrix = the leading columns of its rows (judged against the array above)
                piv = [r.find("1") for r in arows if "1" in r]
                obs = "arrpiv %s ; %s" % (su.enc_state(n, arows), " ".join(map(str, piv)) if piv else "-")
            else:
                obs = "arr " + su.enc_state(n, arows)
            self.rec("stabapi", "arr %d %d | {S}" % (sf, rp), k, obs, "lit" if sf else "rep")
        elif sf:
            self.rec("stab", "gauss | {S}", k, "ok " + su.enc_state(n, arows), "lit")

    def _other(self, kind, n, rows, rng):
        """(object, its rows) to compare with"""
        if kind == "fresh" or n == 0:
            trows = rows
        elif kind in ("remix", "freshstd"):
            trows = su.remix(rng, rows)
        elif kind == "flip":
            trows = list(su.remix(rng, rows))
            i = rng.randrange(n)
            trows[i] = su.flip_sign(trows[i])
            trows = tuple(trows)
        elif kind == "gate":
            srows = [su.to_sym(r) for r in su.remix(rng, rows)]
            if n >= 2 and rng.random() < 0.5:
                srows = su.sym_gate(rng.choice(su.GATES2), tuple(rng.sample(range(n), 2)), srows)
            else:
                srows = su.sym_gate(rng.choice(su.GATES1), (rng.randrange(n),), srows)
            trows = tuple(su.from_sym(r) for r in srows)
        elif kind == "size":
            return su.mk(n + 1, su.random_state(rng, n + 1))
        else:
            raise core.MachineryError("stabseq: eq kind %r" % (kind,))
        t = su.mk(n, trows, "str" if n and rng.random() < 0.2 else "array")
        if kind == "freshstd":
            t.put_in_standard_form()
        return t

    def op_eq(self, k, kind, seed):
        k = self.slot(k)
        S = self.slots[k]
        self.key = "eq"
        n, rows = su.dump(S.obj)
        if kind == "self":
            t = S.obj
        else:
            t = self._other(kind, n, rows, random.Random(seed))
        tn, trows = su.dump(t)
        want = tn == S.n and _same(S.v, _vec(tn, trows))
        self.out.cnt.append("seq:eq:%s:%s" % (kind, "same" if want else "different"))
        tst = su.enc_state(tn, trows)
        for way, f in (("object == other", lambda: S.obj == t), ("other == object", lambda: t == S.obj)):
            kd, r = su._call(f)
            obs = ("true" if r else "false") if kd == "ok" else kd
            if kd != "ok" or bool(r) != want:
                self.bad(self.key, "%s, other = %s (%s): answered %s, but the state vectors are %s; the object holds %s" % (
                    way, su.show(tn, trows), kind, obs, "equal up to phase" if want else "different", su.show(n, rows)), observed=obs)
            if kind == "self":
                self.rec("stab", "eq | {S} | {S}", k, obs, "lit")
            elif way.startswith("object"):
                self.rec("stab", "eq | {S} | " + tst, k, obs, "lit")
            else:
                self.rec("stab", "eq | " + tst + " | {S}", k, obs, "lit")
        if su.dump(t) != (tn, trows):
            self.bad(self.key, "the comparison changed the other operand", observed=su.enc_state(*su.dump(t)))
        self.check_all({k}, True)

    def op_eqs(self, k, ko):
        k, ko = self.slot(k), self.slot(ko)
        S, O = self.slots[k], self.slots[ko]
        self.key = "eq"
        want = S.n == O.n and _same(S.v, O.v)
        self.out.cnt.append("seq:eq:objects:%s" % ("same" if want else "different"))
        kd, r = su._call(lambda: S.obj == O.obj)
        obs = ("true" if r else "false") if kd == "ok" else kd
        if kd != "ok" or bool(r) != want:
            self.bad(self.key, "#%d == #%d answered %s, but the state vectors are %s; they hold %s and %s" % (
                k, ko, obs, "equal up to phase" if want else "different", su.show(*su.dump(S.obj)), su.show(*su.dump(O.obj))), observed=obs)
        self.rec("stab", "eq | {S} | {O}", k, obs, "lit", ko=ko)
        self.check_all({k}, True)

    def op_contains(self, k, kind, form, seed):
        k = self.slot(k)
        S = self.slots[k]
        self.key = "contains"
        n, rows = su.dump(S.obj)
        if n == 0:
            return
        rng = random.Random(seed)
        p = su.group_element(rng, rows)
        if kind == "neg":
            p = su.flip_sign(p)
        elif kind == "letter":
            p = su.change_letter(rng, p)
        elif kind == "anti":
            for _ in range(50):
                p = su.random_row(rng, n)
                if not all(su.commute(p, r) for r in rows):
                    break
        elif kind == "ident":
            p = "0" * (2 * n) + rng.choice("01")
        elif kind == "rand":
            p = su.random_row(rng, n)
        if form == "str":
            arg = su.pauli_str(p)[1:] if p[-1] == "0" else "-1" + su.pauli_str(p)[1:]
        elif form == "str+":
            arg = ("-1" if p[-1] == "1" else "+1") + su.pauli_str(p)[1:]
        elif form == "list2n" and p[-1] == "0":
            arg = [c == "1" for c in p[:-1]]
        else:
            arg = [c == "1" for c in p]
        kd, r = su._call(S.obj.contains, arg)
        obs = ("true" if r else "false") if kd == "ok" else kd
        want = bool(np.linalg.norm(su.pauli_apply(p, n, S.v) - S.v) < su.TOL)
        self.out.cnt.append("seq:contains:" + ("member" if want else "non-member"))
        if kd != "ok" or bool(r) != want:
            self.bad(self.key, "contains(%s) answered %s but P|psi> %s |psi>; the object holds %s" % (su.pauli_str(p), obs, "=" if want else "!=", su.show(n, rows)),
                     observed=obs)
        self.rec("stab", "contains | {S} | " + p, k, obs, "lit")
        self.check_all({k}, True)

    def op_measure(self, k, j, inplace, coin, method=""):
        k = self.slot(k)
        S = self.slots[k]
        inplace, coin, n = bool(inplace), int(bool(coin)), S.n
        if method == "remove":
            inplace = False
        mode = "inplace" if inplace else "destructive"
        self.key = "measure:" + mode
        twin = copy.deepcopy(S.obj)
        su.COIN.value = coin
        if S.eng is not None:
            m = "remove_qubit" if method == "remove" else ("measure_qubit_inplace" if inplace else "measure_qubit")
            kind, o = su._call(getattr(S.eng, m), j)
        else:
            m = "measure"
            kind, o = su._call(S.obj.measure, j, inplace=inplace)
        pn, prows = su.dump(S.obj)
        post = su.enc_state(pn, prows)
        if not 0 <= j < n:
            self.out.cnt.append("seq:reject:measure")
            want = ("ValueError",) if S.eng is None else (("quantumError",) if (j >= n and m != "measure_qubit") else ("ValueError", "quantumError"))
            if kind not in want or post != self.pre[k]:
                self.bad("reject:measure", "%s(%d) on %d qubits must raise %s and leave the state alone; got %s" % (m, j, n, "/".join(want), kind), observed=kind)
            if j >= 0 and S.eng is None:
                self.rec("stab", "measure %d %d %d | {S}" % (j, inplace, coin), k, kind, "lit")
            self.check_all(set(), False)
            return
        if kind != "ok":
            self.bad(self.key, "%s(%d) raised %s" % (m, j, kind), observed=kind)
        p0 = float(np.linalg.norm(_proj(S.v, n, j, 0)) ** 2)
        rnd = 1e-6 < p0 < 1 - 1e-6
        self.out.cnt.append("seq:measure:%s-%s" % (mode, "random" if rnd else "deterministic"))
        if m == "remove_qubit":
            if o is not None:
                self.bad(self.key, "remove_qubit returned %r" % (o,), observed=repr(o))
            cands = [x for x in (0, 1) if np.linalg.norm(_proj(S.v, n, j, x)) ** 2 > 1e-9]
            good = [x for x in cands if pn == n - 1 and not su.check_generators(pn, prows, self._post(S.v, n, j, x, False))]
            if not good:
                self.bad(self.key, "remove_qubit(%d) leaves %s, which is not the state after either outcome" % (j, su.show(pn, prows)), observed=post)
            o = good[0]
            obs = "ok ? " + post
        else:
            if o not in (0, 1):
                self.bad(self.key, "%s(%d) returned %r" % (m, j, o), observed=repr(o))
            o = int(o)
            if np.linalg.norm(_proj(S.v, n, j, o)) ** 2 < 1e-9:
                self.bad(self.key, "%s(%d) returned %d, which has probability 0 (P(0) = %.2f)" % (m, j, o, p0), observed=o)
            obs = "ok %d %s" % (o, post)
            # the same object state with the other coin: both outcomes iff P(0) = 1/2
            su.COIN.value = 1 - coin
            k2, o2 = su._call(twin.measure, j, inplace=inplace)
            if k2 != "ok" or o2 not in (0, 1) or (int(o2) != o) != rnd:
                self.bad(self.key, "%s(%d): P(0) = %.2f, coin %d gives %d and coin %d on a deep copy gives %r" % (m, j, p0, coin, o, 1 - coin, o2 if k2 == "ok" else k2),
                         observed=[o, o2 if k2 == "ok" else k2])
        S.v = self._post(S.v, n, j, o, inplace)
        if not inplace:
            S.n -= 1
        self.rec("stab", "measure %d %d %d | {S}" % (j, inplace, coin), k, obs, "meas", upd=k)
        self.check_all({k}, False)

    @staticmethod
    def _post(v, n, j, o, inplace):
        if inplace:
            pv = _proj(v, n, j, o)
        else:
            pv = np.take(v.reshape([2] * n), o, axis=j).reshape(-1)
        return pv / np.linalg.norm(pv)

    def op_copy(self, k):
        k = self.slot(k)
        S = self.slots[k]
        if len(self.slots) >= MAX_OBJS:
            return
        self.key = "copy"
        self.out.cnt.append("seq:copy-construct")
        kind, t = su._call(su.SS.StabilizerState, S.obj)
        if kind != "ok":
            self.bad(self.key, "StabilizerState(object) raised %s" % kind, observed=kind)
        new = len(self.slots)
        self.slots.append(_Slot(obj=t, n=S.n, v=S.v.copy()))
        obs = "ok " + su.enc_state(*su.dump(t))
        if obs != "ok " + self.pre[k]:
            self.out.cnt.append("seq:copy holds other generators (group judged)")
        if self.api:
            self.rec("stabapi", "copy | {S}", k, obs, "rep", upd=new)
        else:
            self.rec("-", "", k, obs, "rep", upd=new)
        self.check_all({k, new}, True)

    def op_str(self, k):
        k = self.slot(k)
        S = self.slots[k]
        self.key = "to_string"
        self.out.cnt.append("seq:str/repr/len")
        s = S.obj
        n, rows = su.dump(s)
        k1, ts = su._call(s.to_string)
        k2, st = su._call(str, s)
        k3, ln = su._call(len, s)
        k4, rp = su._call(repr, s)
        exp_ts = "\n".join(sa._line_of(r) for r in rows)
        exp_st = "Stabilizer state on %d with the following stabilizer generators:\n" % n + "\n".join("\t" + l for l in exp_ts.split("\n"))
        why = None
        if (k1, ts) != ("ok", exp_ts):
            why = "to_string() = %r, the generators held are %r" % (ts if k1 == "ok" else k1, exp_ts)
        elif (k2, st) != ("ok", exp_st):
            why = "str() = %r" % (st if k2 == "ok" else k2,)
        elif (k3, ln) != ("ok", n) or s.num_qubits != n:
            why = "len() = %r, num_qubits = %r" % (ln if k3 == "ok" else k3, s.num_qubits)
        elif k4 != "ok":
            why = "repr raised " + k4
        elif n:
            k5, t = su._call(eval, rp, {"np": np, "StabilizerState": su.SS.StabilizerState})
            if k5 != "ok" or su.dump(t) != (n, rows):
                why = "eval(repr(object)) %s" % ("raised " + k5 if k5 != "ok" else "holds " + su.show(*su.dump(t)))
        if why:
            self.bad(self.key, why, observed=why)
        if self.api:
            self.rec("stabapi", "tostr | {S}", k, sa.enc_str(ts), "rep")
            self.rec("stabapi", "str | {S}", k, sa.enc_str(st), "rep")
            self.rec("stabapi", "len | {S}", k, str(ln), "lit")
        self.check_all({k}, True)


def _x_seq(via, n0, rows0, n1, rows1, ops, api=True):
    desc = (KIND, via, n0, _deep(rows0), n1, _deep(rows1), _deep(ops), bool(api))
    return _Run(desc).run()


# --------------------------------------------------------------------------
# generation
# --------------------------------------------------------------------------

EQ_KINDS = ["fresh", "remix", "remix", "freshstd", "flip", "gate", "self", "size"]
CONTAINS_KINDS = ["member", "member", "member", "neg", "neg", "letter", "anti", "ident", "rand"]
FORMS = ["str", "str+", "list", "list2n"]

WEIGHTS = {
    "C13": {"g": 30, "sq": 5, "addq": 4, "tensor": 4, "std": 10, "arr": 11, "eq": 14, "eqs": 3, "contains": 10, "measure": 4, "copy": 4, "str": 3},
    "C14": {"g": 22, "sq": 0, "addq": 4, "tensor": 3, "std": 8, "arr": 5, "eq": 9, "eqs": 2, "contains": 9, "measure": 36, "copy": 4, "str": 0},
}


def _gate_op(rng, k, n, bad=False, sq=True):
    if n >= 2 and rng.random() < 0.4:
        args = rng.sample(range(n), 2)
        if bad:
            args = rng.choice([[args[0], args[0]], [args[0], n], [n + 1, args[1]]])
        return ("g", k, rng.choice(su.GATES2), tuple(args))
    j = rng.choice([n, n + 2]) if bad else rng.randrange(n)
    if sq and rng.random() < 0.12:
        return ("sq", k, rng.choice(["minIX", "IZ"]), j)
    return ("g", k, rng.choice(su.GATES1), (j,))


def random_ops(rng, via, n0, n1, nmax, length, prop):
    """`length` operations; the qubit count of every object is followed so that positions are (mostly) valid"""
    ns = [n0, n1]
    w = dict(WEIGHTS[prop])
    ops = []
    while len(ops) < length:
        k = 0 if rng.random() < 0.65 else rng.randrange(len(ns))
        n = ns[k]
        kind = rng.choices(list(w), weights=list(w.values()))[0]
        if kind in ("g", "sq"):
            if n == 0:
                continue
            op = _gate_op(rng, k, n, bad=rng.random() < 0.04, sq=bool(w["sq"]))
        elif kind == "addq":
            if n >= nmax:
                continue
            op = ("addq", k)
            ns[k] += 1
        elif kind == "tensor":
            ko = rng.randrange(len(ns))
            if n + ns[ko] > nmax:
                continue
            left = rng.random() < 0.4
            style = rng.choice(["tp", "mul"] if (k or via != "engine" or left) else ["absorb", "parts", "addq", "tp"])
            op = ("tensor", k, ko, left, style)
            ns[k] += ns[ko]
        elif kind == "std":
            op = ("std", k)
        elif kind == "arr":
            sf, rp = rng.choice([(1, 0), (1, 0), (1, 1), (0, 0), (0, 1)] if prop == "C13" else [(1, 0), (1, 0), (0, 0)])
            op = ("arr", k, sf, rp)
        elif kind == "eq":
            op = ("eq", k, rng.choice(EQ_KINDS), rng.getrandbits(32))
        elif kind == "eqs":
            op = ("eqs", k, rng.randrange(len(ns)))
        elif kind == "contains":
            if n == 0:
                continue
            op = ("contains", k, rng.choice(CONTAINS_KINDS), rng.choice(FORMS), rng.getrandbits(32))
        elif kind == "measure":
            if n == 0:
                continue
            bad = rng.random() < 0.04
            j = rng.choice([n, n + 3]) if bad else rng.randrange(n)
            inplace = rng.random() < 0.55
            method = "remove" if (k == 0 and via == "engine" and not inplace and rng.random() < 0.3) else ""
            op = ("measure", k, j, inplace, rng.randrange(2), method)
            if not inplace and not bad:
                ns[k] -= 1
        elif kind == "copy":
            if len(ns) >= MAX_OBJS - 1:
                continue
            op = ("copy", k)
            ns.append(n)
        else:
            op = ("str", k)
        ops.append(op)
    return tuple(ops)


def _placements(n):
    out = [("g", 0, g, (j,)) for g in su.GATES1 for j in range(n)]
    out += [("sq", 0, w, j) for w in ("minIX", "IZ") for j in range(n)]
    out += [("g", 0, g, p) for g in su.GATES2 for p in itertools.permutations(range(n), 2)]
    return out


def _queries(rng, k, prop, short=False):
    qs = [("eq", k, "fresh", rng.getrandbits(32)), ("eq", k, "remix", rng.getrandbits(32)), ("arr", k, 1, 0),
          ("contains", k, "member", rng.choice(FORMS), rng.getrandbits(32)), ("contains", k, "neg", rng.choice(FORMS), rng.getrandbits(32)),
          ("std", k), ("eq", k, "freshstd", rng.getrandbits(32))]
    if prop == "C13":
        qs.insert(3, ("arr", k, 1, 1))
    if short:
        qs = [qs[0], rng.choice(qs[1:3]), rng.choice(qs[3:])]
    return qs


PRIMES = [("std", 0), ("std", 0), ("std", 0), ("arr", 0, 1, 0), ("eq", 0, "remix", 7), ("arr", 0, 1, 1)]


def directed(ctx, prop, api):
    """'bring the object into standard form (or ask for it), then one gate, then ask': every gate / position /
    ordered pair on a sample of the states on 1..3 qubits; copies used on both sides; measurement chains"""
    rng = ctx.rng
    descs = []
    per = {1: ctx.scale(6, 6), 2: ctx.scale(12, 60), 3: ctx.scale(4, 60)}
    if prop == "C14":
        per = {1: 2, 2: ctx.scale(3, 20), 3: ctx.scale(1, 10)}
    for n in (1, 2, 3):
        sts = su.all_states(n)
        for g in _placements(n):
            if g[0] == "sq" and not api:
                continue
            for st in rng.sample(sts, min(per[n], len(sts))):
                rows = su.remix(rng, st) if rng.random() < 0.5 else st
                prime = rng.choice(PRIMES if api else PRIMES[:5])
                ops = (prime, g) + tuple(_queries(rng, 0, prop, short=n == 3 and not ctx.thorough))
                descs.append((KIND, "engine" if rng.random() < 0.25 else "state", n, rows, 1, ("010",), ops, api))
    # copies: standard form, copy, gate on one of the two, compare them and each with fresh objects
    for n in (1, 2, 3):
        sts = su.all_states(n)
        for _ in range(ctx.scale(25, 400) if prop == "C13" else ctx.scale(8, 100)):
            st = rng.choice(sts)
            g = rng.choice([p for p in _placements(n) if api or p[0] != "sq"])
            on_copy = rng.random() < 0.5
            g2 = (g[0], 2 if on_copy else 0) + g[2:]
            ops = [rng.choice([("std", 0), ("arr", 0, 1, 0)]), ("copy", 0), g2, ("eqs", 0, 2), ("eqs", 2, 0),
                   ("eq", 2, "fresh", rng.getrandbits(32)), ("eq", 0, "remix", rng.getrandbits(32)), ("arr", 2 if on_copy else 0, 1, 0)]
            descs.append((KIND, "state", n, st, 0, (), tuple(ops), api))
    # growth after standard form: add_qubit / tensor, then ask
    for n in (1, 2):
        sts = su.all_states(n)
        for _ in range(ctx.scale(20, 300) if prop == "C13" else ctx.scale(6, 60)):
            st, st1 = rng.choice(sts), rng.choice(su.all_states(rng.choice([1, 2])))
            grow = rng.choice([("addq", 0), ("tensor", 0, 1, False, "tp"), ("tensor", 0, 1, True, "mul"), ("tensor", 0, 0, False, "mul")])
            ops = [("std", 0), grow] + _queries(rng, 0, prop, short=True) + [_gate_op(rng, 0, n + 1, sq=api), ("eq", 0, "remix", rng.getrandbits(32))]
            descs.append((KIND, rng.choice(["state", "engine"]), n, st, len(st1), st1, tuple(ops), api))
    # measurement chains: (standard form,) measure, re-measure with the other coin, ask, measure another qubit
    for n in (1, 2, 3):
        sts = su.all_states(n)
        for _ in range(ctx.scale(15, 300) if prop == "C13" else ctx.scale(60, 1200)):
            st = rng.choice(sts)
            rows = su.remix(rng, st) if rng.random() < 0.5 else st
            j, c = rng.randrange(n), rng.randrange(2)
            ops = [("std", 0)] if rng.random() < 0.5 else []
            ops += [("measure", 0, j, True, c, ""), ("measure", 0, j, True, 1 - c, ""), ("eq", 0, "remix", rng.getrandbits(32)),
                    ("contains", 0, rng.choice(["member", "neg"]), rng.choice(FORMS), rng.getrandbits(32)), ("copy", 0),
                    ("measure", 0, rng.randrange(n), False, rng.randrange(2), rng.choice(["", "remove"])), ("arr", 0, 1, 0), ("eqs", 2, 0)]
            if n >= 2:
                ops += [("measure", 0, rng.randrange(n - 1), rng.random() < 0.5, rng.randrange(2), ""), ("eq", 0, "fresh", rng.getrandbits(32))]
            ops += [("measure", 2, j, False, c, ""), ("str", 2) if api else ("std", 2)]
            descs.append((KIND, rng.choice(["state", "engine"]), n, rows, 0, (), tuple(ops), api))
    return descs


def build_cases(ctx, prop):
    rng = ctx.rng
    api = prop == "C13"
    descs = directed(ctx, prop, api)
    nmax = ctx.scale(5, 8)
    for _ in range(ctx.scale(800, 16000) if prop == "C13" else ctx.scale(500, 10000)):
        n0 = rng.choice([1, 1, 2, 2, 2, 3, 3, 3, 4, 5] if not ctx.thorough else [1, 2, 2, 3, 3, 3, 4, 4, 5, 6, 7, 8])
        n1 = rng.choice([0, 1, 1, 2, 2, 3])
        via = "engine" if rng.random() < 0.3 else "state"
        rows0, rows1 = su.random_state(rng, n0), (su.random_state(rng, n1) if n1 else ())
        ops = random_ops(rng, via, n0, n1, max(nmax, n0), rng.randint(3, 12), prop)
        descs.append((KIND, via, n0, rows0, n1, rows1, ops, api))
    return descs


RULE = ("stateful sequences: 3..12 operations on ONE long-lived StabilizerState (30%%: inside a stabilizerEngine, through its wrappers), a "
        "second long-lived state and up to 3 copies made on the way (all kept in use), drawn from gates X/Y/Z/H/K/S/CNOT/CZ/sqrt gates "
        "(4%% invalid positions), add_qubit, tensor_product / * / absorb / absorb_parts / add_qubit(array) with the other long-lived "
        "object (or with itself), put_in_standard_form, to_array in 4 forms / get_register_RI (the array is overwritten afterwards), == "
        "against fresh / re-mixed / re-mixed-then-standard-form / sign-flipped / gate-applied / other-size objects, itself and the other "
        "long-lived objects (both ways), contains of members / -members / changed / anticommuting / +-identity / random operators in 4 "
        "argument forms, measure in place / destructive / remove_qubit with a scripted coin (the other coin on a deep copy), "
        "StabilizerState(object), str / repr / len; after every step the touched object is judged against the state vector carried "
        "along, every other object must be literally unchanged, and the step is run on the Lean model state threaded through the "
        "sequence; directed: (standard form | a standard-form query) then every gate x position / ordered pair on sampled 1..3-qubit "
        "states then == / standard form / contains; the same through a copy; add_qubit / tensor after standard form; measurement "
        "chains (measure, re-measure with the other coin, copy, destructive); random: 1..%d qubits")


# --------------------------------------------------------------------------
# running, shrinking, folding into the Result
# --------------------------------------------------------------------------

def exec_case(desc):
    return _x_seq(*desc[1:])


def _chunk(descs):
    return [exec_case(d) for d in descs]


def run_cases(descs, procs=None):
    su.load()
    if procs is None:
        procs = max(1, min(12, (os.cpu_count() or 2) - 2))
    if len(descs) < 200 or procs == 1:
        return _chunk(descs)
    size = max(10, min(500, len(descs) // (procs * 6)))
    chunks = [descs[i:i + size] for i in range(0, len(descs), size)]
    with multiprocessing.get_context("fork").Pool(procs) as pool:
        return [o for part in pool.map(_chunk, chunks) for o in part]


def shrink(desc, key, budget=400):
    """smallest sub-sequence found that still fails with the same key: cut after the failing step, drop operations one
    at a time, plain state instead of the engine, no second object"""
    def fails(d):
        nonlocal budget
        budget -= 1
        try:
            o = exec_case(d)
        except Exception:
            return None
        return next((v for v in o.viol if v[0] == key), None)

    best = fails(desc)
    if best is None:
        return desc, None
    head = list(desc[:6])
    ops, api = list(desc[6]), desc[7]
    ops = ops[:best[2]["step"] + 1]

    def mk(h, o):
        return tuple(h) + (tuple(o), api)
    changed = True
    while changed and budget > 0:
        changed = False
        for i in range(len(ops) - 1, -1, -1):
            cand = ops[:i] + ops[i + 1:]
            v = fails(mk(head, cand)) if cand else None
            if v is not None:
                ops, best, changed = cand[:v[2]["step"] + 1], v, True
            if budget <= 0:
                break
    for simpler in (lambda h: [KIND, "state"] + h[2:], lambda h: h[:4] + [0, ()]):
        alt = simpler(head)
        v = fails(mk(alt, ops)) if (alt != head and budget > 0) else None
        if v is not None:
            head, best = alt, v
    return mk(head, ops), best


def collect(res, outs):
    worst, nviol = {}, {}
    for o in outs:
        for c in o.cnt:
            res.count(c)
        res.count("seq:sequences")
        res.count("seq:steps", o.nsteps)
        res.case(su.desc_json(o.desc), nontrivial=o.nontrivial)
        for key, what, extra in o.viol:
            nviol[key] = nviol.get(key, 0) + 1
            size = (o.n, extra.get("step", 0), len(str(o.desc)))
            if key not in worst or size < worst[key][0]:
                worst[key] = (size, o.desc, what, extra)
    for key in sorted(worst):
        _, desc, what, extra = worst[key]
        small, v = shrink(desc, key)
        if v is not None:
            desc, what, extra = small, v[1], v[2]
        more = nviol[key] - 1
        res.violation(key, what + (" (+%d more failing sequences with this key)" % more if more else ""), {"case": su.desc_json(desc), **extra})


def tie(res, outs, what):
    """Run every recorded step on the Lean model, the model state THREADED through each sequence.

    The drivers are stateless per line, so a line carries its pre-state.  Round 1 predicts the model's pre-state of
    every step as the rows the real object held before it (known in advance); walking through the answers in order,
    a step counts only if the pre-states it was sent with are literally the model's own current states (the
    model's post-state of the earlier steps).  Where the model's rows differ from the object's (equal groups,
    other generators) the walk stops there and the rest of that sequence is sent again in the next round from the
    model's state.  State observations are compared literally, then at group level (both canonicalised by the
    driver's `gauss`), measurement outcomes and query answers literally; observations that show the generators
    held (`to_array()`, the copy, `to_string`) literally while model and object hold the same rows, at group level
    (matrices) or not at all (strings) once they hold different generators of the same group."""
    seqs = []
    for o in outs:
        if o.steps:
            _, via, n0, rows0, n1, rows1, ops, api = o.desc
            seqs.append({"o": o, "recs": o.steps, "cur": 0, "M": {0: su.enc_state(n0, rows0), 1: su.enc_state(n1, rows1)}})
    pending = []

    def brk(sq, rec, line, g):
        res.tie_break(what, {"case": su.desc_json(sq["o"].desc), "step": rec[0], "query": line}, g, rec[7])

    for rnd in range(80):
        live = [sq for sq in seqs if sq["cur"] < len(sq["recs"])]
        if not live:
            break
        batch = {"stab": [], "stabapi": []}
        for sq in live:
            sq["lines"] = {}
            for ri in range(sq["cur"], len(sq["recs"])):
                step, driver, tmpl, k, ko, preS, preO, obs, mode, upd = sq["recs"][ri]
                if driver in ("-", "="):
                    continue
                first = ri == sq["cur"]
                useS = sq["M"].get(k, preS) if first else preS
                useO = None if ko is None else (sq["M"].get(ko, preO) if first else preO)
                line = tmpl.replace("{S}", useS).replace("{O}", useO or "")
                sq["lines"][ri] = (useS, useO, line, len(batch[driver]))
                batch[driver].append(line)
        got = {d: (core.lean_run(d, ls) if ls else []) for d, ls in batch.items()}
        for sq in live:
            M, recs = sq["M"], sq["recs"]
            ri = sq["cur"]
            while ri < len(recs):
                rec = recs[ri]
                step, driver, tmpl, k, ko, preS, preO, obs, mode, upd = rec
                if driver == "-":            # no model call (copy construction without the driver stabapi): same state
                    M[upd] = M.get(k, preS)
                    ri += 1
                    continue
                if driver == "=":            # an operation the available driver does not serve: oracle only, model re-synchronised
                    M[upd] = obs[3:]
                    ri += 1
                    continue
                useS, useO, line, pos = sq["lines"][ri]
                if useS != M.get(k, preS) or (ko is not None and useO != M.get(ko, preO)):
                    res.count("tie:seq:re-sent from the model's own state")
                    break                    # sent with a predicted state that is not the model's: next round
                g = got[driver][pos]
                ri += 1
                res.traces += 1
                same_rows = M.get(k, preS) == preS and (ko is None or M.get(ko, preO) == preO)
                if g == obs:
                    res.count("tie:row_level_equal")
                elif mode == "lit" or (mode == "rep" and same_rows):
                    brk(sq, rec, line, g)
                    ri = len(recs)           # the rest of the sequence is not compared
                    break
                elif mode == "rep" and not (g.startswith(("ok ", "arr ")) and obs.startswith(("ok ", "arr "))):
                    res.count("tie:seq:generator print-out not compared (model holds other generators of the group)")
                else:
                    a, b = su._split_obs(g.replace("arr ", "ok ", 1)), su._split_obs(obs.replace("arr ", "ok ", 1))
                    if not (a and b and a[1] == b[1] and len(a[2]) == len(b[2]) and (b[0] == "?" or a[0] == b[0])):
                        brk(sq, rec, line, g)
                        ri = len(recs)
                        break
                    if a[2] == b[2]:
                        res.count("tie:row_level_equal")
                    else:
                        pending.append((sq, rec, line, g, a, b))
                if upd is not None and g.startswith("ok "):
                    a = su._split_obs(g)
                    if a:
                        M[upd] = su.enc_state(a[1], a[2])
            sq["cur"] = ri
    else:
        raise core.MachineryError("stabseq tie: model states still not threaded after 80 rounds")
    if pending:
        glines = []
        for _, _, _, _, a, b in pending:
            glines.append("gauss | %d | %s" % (a[1], su.enc_rows(a[2])))
            glines.append("gauss | %d | %s" % (b[1], su.enc_rows(b[2])))
        canon = core.lean_run("stab", glines)
        for i, (sq, rec, line, g, a, b) in enumerate(pending):
            if canon[2 * i] == canon[2 * i + 1]:
                res.count("tie:row_level_differs_group_equal")
            else:
                res.tie_break(what + " (group level)", {"case": su.desc_json(sq["o"].desc), "step": rec[0], "query": line}, g, rec[7])


def stage(ctx, res, descs=None, prop="C13"):
    """run the sequence stage and fold it into the Result; `descs` = replayed cases (None: generate)"""
    su.load()
    sa.selftest()
    if descs is None:
        descs = build_cases(ctx, prop)
        res.rule += "; " + RULE % ctx.scale(5, 8)
    if not descs:
        return
    descs = [(KIND,) + tuple(_deep(list(d[1:7]))) + (bool(d[7]) if len(d) > 7 else prop == "C13",) for d in descs]
    outs = run_cases(descs)
    collect(res, outs)
    if ctx.lean_ok:
        before = res.traces
        tie(res, outs, "Stab model threaded through the sequence vs one long-lived StabilizerState")
        res.notes.append("sequence stage: %d sequences, %d steps on long-lived objects, %d observations compared with the model threaded "
                         "through the sequence" % (len(descs), sum(o.nsteps for o in outs), res.traces - before))

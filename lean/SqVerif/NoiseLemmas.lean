import SqVerif.Noise
import Mathlib.Analysis.Complex.Exponential
import Mathlib.Tactic.Linarith
/-
Helper lemmas for C19 about the model in `Noise.lean`.

* generic facts about `applyNoise` / `step` / `run` (any number type, any `exp`);
* the decision rule `select` over a linearly ordered commutative ring
  (covers ℤ, ℚ, ℝ and every linearly ordered field);
* the rate `(1 - exp (-t/T1)) / 4` over ℝ with Mathlib's `Real.exp`.
-/
namespace SqVerif.Noise

/-! ### structure of one step, any number type -/

section Generic
variable {α : Type} [LT α] [DecidableLT α] [BEq α] [Sub α] [Neg α] [Mul α] [Div α]
  [OfNat α 0] [OfNat α 1] [OfNat α 2] [OfNat α 3] [OfNat α 4]

theorem applyNoise_disabled (exp : α → α) (q : Qubit α) (e : Env α) (h : q.noisy = false) :
    applyNoise exp q e = (q, .skipped) := by
  simp [applyNoise, h]

theorem step_disabled (exp : α → α) (q : Qubit α) (e : Env α) (o : Op) (h : q.noisy = false) :
    step exp q e o = (q, .done [.req o q.num]) := by
  simp [step, applyNoise_disabled exp q e h, noiseCalls]

theorem run_disabled (exp : α → α) (q : Qubit α) (h : q.noisy = false) (steps : List (Env α × Op)) :
    run exp q steps = (q, steps.map fun s => .done [.req s.2 q.num]) := by
  induction steps with
  | nil => rfl
  | cons s rest ih =>
    obtain ⟨e, o⟩ := s
    simp [run, step_disabled exp q e o h, ih]

theorem applyNoise_enabled (exp : α → α) (q : Qubit α) (e : Env α) (h : q.noisy = true)
    (hT : (q.T1 == 0) = false) :
    applyNoise exp q e =
      ({ q with lastAccessed := e.now2 },
       .applied (select (rate exp (e.now1 - q.lastAccessed) q.T1) e.x)) := by
  simp [applyNoise, h, hT]

theorem step_enabled (exp : α → α) (q : Qubit α) (e : Env α) (o : Op) (h : q.noisy = true)
    (hT : (q.T1 == 0) = false) :
    step exp q e o =
      ({ q with lastAccessed := e.now2 },
       .done (noiseCalls q.num (.applied (select (rate exp (e.now1 - q.lastAccessed) q.T1) e.x))
              ++ [.req o q.num])) := by
  simp [step, applyNoise_enabled exp q e h hT]

theorem step_zeroDivision (exp : α → α) (q : Qubit α) (e : Env α) (o : Op) (h : q.noisy = true)
    (hT : (q.T1 == 0) = true) :
    step exp q e o = ({ q with lastAccessed := e.now2 }, .zeroDivision) := by
  simp [step, applyNoise, h, hT]

/-- the noise step never touches `noisy`, `T1`, `num` -/
theorem applyNoise_frame (exp : α → α) (q : Qubit α) (e : Env α) :
    (applyNoise exp q e).1.noisy = q.noisy ∧ (applyNoise exp q e).1.T1 = q.T1 ∧
    (applyNoise exp q e).1.num = q.num := by
  unfold applyNoise
  split
  · exact ⟨rfl, rfl, rfl⟩
  · split <;> exact ⟨rfl, rfl, rfl⟩

theorem step_fst (exp : α → α) (q : Qubit α) (e : Env α) (o : Op) :
    (step exp q e o).1 = (applyNoise exp q e).1 := by
  unfold step
  split <;> simp_all

theorem step_frame (exp : α → α) (q : Qubit α) (e : Env α) (o : Op) :
    (step exp q e o).1.noisy = q.noisy ∧ (step exp q e o).1.T1 = q.T1 ∧ (step exp q e o).1.num = q.num := by
  rw [step_fst]; exact applyNoise_frame exp q e

/-- shape of what one operation sends to the register: nothing (exception), the
requested call alone, or exactly one Pauli on the own position followed by it -/
theorem step_shape (exp : α → α) (q : Qubit α) (e : Env α) (o : Op) :
    (step exp q e o).2 = .zeroDivision ∨
    (step exp q e o).2 = .done [.req o q.num] ∨
    ∃ P, (step exp q e o).2 = .done [.pauli P q.num, .req o q.num] := by
  unfold step
  generalize applyNoise exp q e = r
  obtain ⟨q', obs⟩ := r
  cases obs with
  | skipped => right; left; rfl
  | zeroDivision => left; rfl
  | applied P =>
    cases P with
    | none => right; left; rfl
    | some P => right; right; exact ⟨P, rfl⟩

theorem run_cons (exp : α → α) (q : Qubit α) (e : Env α) (o : Op) (rest : List (Env α × Op)) :
    run exp q ((e, o) :: rest) =
      ((run exp (step exp q e o).1 rest).1, (step exp q e o).2 :: (run exp (step exp q e o).1 rest).2) := by
  simp [run]

/-- specification of a history: the idle time of each operation is counted from the
clock reading stored by the previous operation on the same qubit (initially: creation) -/
def specRun (exp : α → α) (T1 : α) (num : Nat) : α → List (Env α × Op) → List StepObs
  | _, [] => []
  | last, (e, o) :: rest =>
    .done (noiseCalls num (.applied (select (rate exp (e.now1 - last) T1) e.x)) ++ [.req o num])
      :: specRun exp T1 num e.now2 rest

theorem run_enabled (exp : α → α) (q : Qubit α) (h : q.noisy = true) (hT : (q.T1 == 0) = false)
    (steps : List (Env α × Op)) :
    (run exp q steps).2 = specRun exp q.T1 q.num q.lastAccessed steps := by
  induction steps generalizing q with
  | nil => rfl
  | cons s rest ih =>
    obtain ⟨e, o⟩ := s
    rw [run_cons, step_enabled exp q e o h hT]
    simp only [specRun]
    exact congrArg _ (ih { q with lastAccessed := e.now2 } h hT)

/-- every engine call of a history acts on the qubit's own position -/
theorem run_positions (exp : α → α) (q : Qubit α) (steps : List (Env α × Op)) :
    ∀ obs ∈ (run exp q steps).2, ∀ calls, obs = .done calls → ∀ c ∈ calls, c.pos = q.num := by
  induction steps generalizing q with
  | nil => intro obs h; simp [run] at h
  | cons s rest ih =>
    obtain ⟨e, o⟩ := s
    rw [run_cons]
    intro obs hobs calls hc c hmem
    rcases List.mem_cons.mp hobs with h0 | h1
    · subst h0
      rcases step_shape exp q e o with hz | hr | ⟨P, hp⟩
      · rw [hz] at hc; cases hc
      · rw [hr] at hc; cases hc; simp at hmem; subst hmem; rfl
      · rw [hp] at hc; cases hc; simp at hmem; rcases hmem with rfl | rfl <;> rfl
    · have := ih (step exp q e o).1 obs h1 calls hc c hmem
      rw [this, (step_frame exp q e o).2.2]

end Generic

/-! ### reading the Pauli off the engine calls -/

theorem noiseCalls_pauli_iff (num : Nat) (s : Option Pauli) (P : Pauli) :
    noiseCalls num (.applied s) = [.pauli P num] ↔ s = some P := by
  cases s <;> simp [noiseCalls]

theorem noiseCalls_nil_iff (num : Nat) (s : Option Pauli) :
    noiseCalls num (.applied s) = [] ↔ s = none := by
  cases s <;> simp [noiseCalls]

/-! ### the decision rule over a linearly ordered commutative ring -/

section Rule
variable {α : Type} [CommRing α] [LinearOrder α] [IsStrictOrderedRing α]

omit [IsStrictOrderedRing α] in
theorem select_X_iff (p x : α) : select p x = some .X ↔ x < p := by
  unfold select
  split_ifs <;> simp_all

omit [IsStrictOrderedRing α] in
theorem select_Y_iff (p x : α) : select p x = some .Y ↔ p ≤ x ∧ x < 2 * p := by
  unfold select
  split_ifs <;> simp_all

theorem select_Z_iff (p x : α) (hp : 0 ≤ p) : select p x = some .Z ↔ 2 * p ≤ x ∧ x < 3 * p := by
  unfold select
  split_ifs with h1 h2 h3
  · constructor
    · intro h; simp at h
    · rintro ⟨a, _⟩; exfalso; linarith
  · constructor
    · intro h; simp at h
    · rintro ⟨a, _⟩; exfalso; linarith
  · constructor
    · intro _; exact ⟨not_lt.mp h2, h3⟩
    · intro _; rfl
  · constructor
    · intro h; simp at h
    · rintro ⟨_, b⟩; exact absurd b h3

theorem select_none_iff (p x : α) (hp : 0 ≤ p) : select p x = none ↔ 3 * p ≤ x := by
  unfold select
  split_ifs with h1 h2 h3
  · constructor
    · intro h; simp at h
    · intro a; exfalso; linarith
  · constructor
    · intro h; simp at h
    · intro a; exfalso; linarith
  · constructor
    · intro h; simp at h
    · intro a; exfalso; linarith
  · constructor
    · intro _; exact not_lt.mp h3
    · intro _; rfl

/-- a non-positive rate (negative idle time after a clock step, negative `T1`) never fires -/
theorem select_none_of_nonpos (p x : α) (hp : p ≤ 0) (hx : 0 ≤ x) : select p x = none := by
  unfold select
  have h1 : ¬ x < p := by intro h; linarith
  have h2 : ¬ x < 2 * p := by intro h; linarith
  have h3 : ¬ x < 3 * p := by intro h; linarith
  simp [h1, h2, h3]

end Rule

/-! ### the rate over ℝ -/

section Real

theorem rate_real (t T1 : ℝ) : rate Real.exp t T1 = (1 - Real.exp (-t / T1)) / 4 := rfl

theorem rate_arg_nonpos (t T1 : ℝ) (ht : 0 ≤ t) (hT : 0 < T1) : -t / T1 ≤ 0 :=
  div_nonpos_of_nonpos_of_nonneg (by linarith) hT.le

theorem rate_nonneg (t T1 : ℝ) (ht : 0 ≤ t) (hT : 0 < T1) : 0 ≤ rate Real.exp t T1 := by
  rw [rate_real]
  have := Real.exp_le_one_iff.mpr (rate_arg_nonpos t T1 ht hT)
  linarith

theorem rate_lt_quarter (t T1 : ℝ) : rate Real.exp t T1 < 1 / 4 := by
  rw [rate_real]
  have := Real.exp_pos (-t / T1)
  linarith

theorem rate_zero (T1 : ℝ) : rate Real.exp 0 T1 = 0 := by
  rw [rate_real]; simp

theorem rate_pos (t T1 : ℝ) (ht : 0 < t) (hT : 0 < T1) : 0 < rate Real.exp t T1 := by
  rw [rate_real]
  have h : -t / T1 < 0 := div_neg_of_neg_of_pos (by linarith) hT
  have := Real.exp_lt_one_iff.mpr h
  linarith

/-- longer idle time, more noise -/
theorem rate_strictMono (t t' T1 : ℝ) (h : t < t') (hT : 0 < T1) :
    rate Real.exp t T1 < rate Real.exp t' T1 := by
  rw [rate_real, rate_real]
  have h' : -t' / T1 < -t / T1 := div_lt_div_of_pos_right (by linarith) hT
  have := Real.exp_lt_exp.mpr h'
  linarith

end Real

end SqVerif.Noise

# the two exit codes simulaqron.py looks at (values of daemons 1.3)
PIDFILE_INACCESSIBLE = 75
DAEMONIZE_FAILED = 71

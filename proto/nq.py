from net import *
from collections import defaultdict
from twisted.internet.testing import StringTransport
from simulaqron.netqasm_backend.factory import NetQASMFactory
from simulaqron.netqasm_backend.qnodeos import SubroutineHandler
from simulaqron.netqasm_backend.executioner import VanillaSimulaQronExecutioner
from netqasm.backend.messages import *
from netqasm.lang.parsing.text import parse_text_subroutine
from netqasm.sdk.connection import DebugConnection
from netqasm.sdk import Qubit, EPRSocket

class NqNet(Net):
    def __init__(self, names, topology=None, **kw):
        super().__init__(names, **kw)
        cfg = json.load(open(self.fn)); cfg["default"]["topology"]=topology; json.dump(cfg, open(self.fn,"w"))
        simulaqron_settings._config["network_config_file"] = self.fn   # no write-through
        qn = SocketsConfig(self.fn, network_name="default", config_type="qnodeos")
        self.facs = {}
        for n in names:
            ex = type("Exec_"+n, (VanillaSimulaQronExecutioner,), {"_next_ent_id": defaultdict(int), "_next_create_id": defaultdict(int)})
            sh = type("SH_"+n, (SubroutineHandler,), {"_get_executor_class": classmethod(lambda cls, flavour=None, ex=ex: ex)})
            f = NetQASMFactory(qn.hostDict[n], n, qn, sh)
            f.set_virtual_node(self.client(n)); self.facs[n]=f
        DebugConnection.node_ids = {n:i for i,n in enumerate(sorted(names))}
    def host(self, n):
        p = self.facs[n].buildProtocol(None); t = StringTransport(); p.makeConnection(t); return p,t
    def settle(self, maxt=400):
        for _ in range(maxt):
            self.flush()
            if not R.getDelayedCalls(): break
            R.advance(0.1)
        self.flush()
def frame(i, raw): return bytes(MessageHeader(id=i, length=MessageHeader.len()+len(raw))) + raw
def parse_ret(b):
    out=[]
    while b:
        m = deserialize_return_msg(b); b=b[len(m):]
        out.append((type(m).__name__, getattr(m,'msg_id',None), getattr(m,'values',None), getattr(m,'value',None)))
    return out
def prog(name, f, socks, **kw):
    with DebugConnection(name, epr_sockets=socks, **kw) as c:
        f(c)
    return list(c.storage)

import SqVerif.VNetEngineLab
import SqVerif.Props.C01
import SqVerif.Props.C02
/-
C01 — Location transparency, composition of L2 with L1/L0 (T01.4).

`Props/C01.lean` proves, on the virtual-node model alone, that the distributed bookkeeping
behaves like one register of logical qubits: handles keep their tokens, the emitted engine
calls address the positions holding those tokens.  `Props/C15.lean` proves that the
stabilizer engine follows the register contract (sizes, limits, slot order), `C13`/`C14`
that its states are stabilizer states on which gates and measurements act correctly.  Here
the two are composed: the calls a step EMITS are PERFORMED on the engine model
(`VNetEng.applyEOp`: one `StabEngine` per (node, register number), registers in flight
between `get_register_del` and `absorb_parts`), and

* `engine_ops_succeed`     under `WF s` and the coupling invariant `Agree s e`, no call emitted
                           by ANY step (all op kinds, all seven merge placements, refused
                           steps) is refused by the engine — positions in range, control ≠
                           target, `absorb` / `absorb_parts` within the limit just raised,
                           `remove` of an existing slot, `add_fresh_qubit` within the limit,
                           `StabilizerState(R)` accepts every exported matrix, every deleted
                           register exists — and the coupling invariant holds afterwards;
* `engine_run_succeeds`    hence along every program from the initial network;
* `slots_are_tokens`, `engines_are_registers`   the engine-level ghost slot labels (which evolve
                           by the C15 contract `Engine.Reg.step`) ARE the L2 ghost tokens, the
                           sizes and limits agree, and there is no other engine;
* `engine_gate1_lands`, `engine_gate2_lands`, `engine_measure_lands`   so the C01 landing theorems
                           transfer: the engine method is called on the slots labelled with the
                           tokens the handles denote, and it does not raise;
* `registers_valid`        every register state the network ever holds is `Stab.Reachable`, hence
                           `ValidMax` (C14): the C13 / C14 theorems apply to it.

One thing does NOT transfer (`recorded_outcome_counterexample`): the L2 model takes the
measurement outcome as an input of the step; it does not constrain it to an outcome the
engine can return.  `applyEOp` therefore uses the recorded outcome as the coin (for a random
outcome the engine returns its coin — C14 `measure_random_both` — so the recorded outcome IS
the engine's; for a certain outcome the coin is not looked at) and `engOutcome` exposes the
bit the engine returns.
-/
set_option linter.unusedSimpArgs false
namespace SqVerif.C01
open SqVerif.VNet SqVerif.VNetEng

/-! ### (a) no emitted engine call is ever refused -/

/-- T01.4a  for a well-formed L2 state coupled to an engine state, the engine calls emitted by
one step — whatever the operation, whether it succeeds or is refused, in every merge
placement — all succeed on the engines, in the order emitted, and the resulting engine state
is coupled to the resulting L2 state -/
theorem engine_ops_succeed (rc : Bool) {s : Net} {e : EngSt} (hwf : WF s) (hA : Agree s e) (op : Op) :
    ∃ e', runOps rc e (step s op).2.2 = some e' ∧ Agree (step s op).1 e' := by
  obtain ⟨L', h1, a1⟩ := lab_step hwf op e.labs hA.lab
  obtain ⟨e', h2, hl, hi⟩ := engs_sim rc _ e hA.inv L' h1
  exact ⟨e', h2, ⟨hl ▸ a1, hi⟩⟩

/-- … at the level of the register contract alone (C15's `Reg.step` lifted to the network):
the labels and limits move exactly as the L2 ghost fields `toks` / `max` -/
theorem contract_ops_succeed {s : Net} {L : LabSt} (hwf : WF s) (hL : LabAgree s L) (op : Op) :
    ∃ L', labOps L (step s op).2.2 = some L' ∧ LabAgree (step s op).1 L' :=
  lab_step hwf op L hL

/-- the engines simulate the contract: whenever the contract accepts an emitted call, the
engine method does not raise and its labels are the contract's (C15 `stab_refines_spec`,
read from the contract's side) -/
theorem engine_simulates_contract (rc : Bool) (e : EngSt) (hI : EngInv e) (op : EOp) (L' : LabSt)
    (h : labOp e.labs op = some L') : ∃ e', applyEOp rc e op = some e' ∧ e'.labs = L' ∧ EngInv e' :=
  eng_sim rc e hI op L' h

/-! ### (b) along every program -/

theorem agree_init (caps : List (Nat × Nat)) : Agree (init caps) EngSt.empty := by
  refine ⟨⟨?_, List.nodup_nil, rfl, rfl⟩, ⟨fun k en h => (by cases h), fun k f h => (by cases h)⟩⟩
  intro k
  obtain ⟨n, r⟩ := k
  show (none : Option LReg) = _
  rw [regMap_mk]
  simp only [init, List.getElem?_map]
  cases caps[n]? with
  | none => rfl
  | some c => rfl

theorem engine_run_from (rc : Bool) (ops : List Op) : ∀ {s : Net} {e : EngSt}, WF s → Agree s e →
    ∃ e', runProg rc s e ops = some ((run s ops).1, e') ∧ Agree (run s ops).1 e' := by
  induction ops with
  | nil => intro s e _ hA; exact ⟨e, rfl, hA⟩
  | cons op ops ih =>
    intro s e hwf hA
    obtain ⟨e1, h1, a1⟩ := engine_ops_succeed rc hwf hA op
    obtain ⟨e2, h2, a2⟩ := ih (C02.wf_step s op hwf) a1
    refine ⟨e2, ?_, a2⟩
    simp only [runProg, h1]
    exact h2

/-- T01.4b  every program, started in the initial network with no engine, runs through on the
engines: no engine call of any of its steps is refused, and the final engine state is coupled
to the final L2 state -/
theorem engine_run_succeeds (rc : Bool) (caps : List (Nat × Nat)) (ops : List Op) :
    ∃ e', runProg rc (init caps) EngSt.empty ops = some ((run (init caps) ops).1, e') ∧
      Agree (run (init caps) ops).1 e' :=
  engine_run_from rc ops (C02.wf_init caps) (agree_init caps)

/-! ### (c) the engine's slot labels are the L2 tokens -/

/-- what `Agree` says about one register: its engine exists, has the same size and limit, its
slot labels are the ghost tokens, and its state is reachable -/
theorem agree_reg {s : Net} {e : EngSt} (hA : Agree s e) {n r : Nat} {nd : Node} {rg : VNet.Reg}
    (hn : s.nodes[n]? = some nd) (hr : nd.reg? r = some rg) :
    ∃ en, aget e.regs (n, r) = some en ∧ en.lab.slots = rg.toks ∧ en.lab.max = rg.max ∧
      en.eng.active = rg.toks.length ∧ en.eng.max = rg.max ∧ Stab.Reachable en.eng.st := by
  have h := hA.lab.regs (n, r)
  rw [labs_regs_get, regMap_of hn hr] at h
  cases hk : aget e.regs (n, r) with
  | none => rw [hk] at h; cases h
  | some en =>
    rw [hk] at h
    simp only [Option.map_some, Option.some.injEq] at h
    have ok := hA.inv.regs _ _ hk
    refine ⟨en, rfl, by rw [h]; rfl, by rw [h]; rfl, ?_, ?_, ok.reach⟩
    · show en.eng.st.n = _
      rw [ok.size, h]; rfl
    · rw [ok.max, h]; rfl

/-- … and there is no other engine: every engine belongs to a register of the L2 state -/
theorem agree_engine {s : Net} {e : EngSt} (hA : Agree s e) {k : Key} {en : LEng} (hk : aget e.regs k = some en) :
    ∃ nd rg, s.nodes[k.1]? = some nd ∧ nd.reg? k.2 = some rg ∧ en.lab.slots = rg.toks ∧ en.lab.max = rg.max := by
  have h := hA.lab.regs k
  rw [labs_regs_get, hk] at h
  obtain ⟨n, r⟩ := k
  rw [regMap_mk] at h
  cases hn : s.nodes[n]? with
  | none => rw [hn] at h; cases h
  | some nd =>
    rw [hn] at h
    simp only [Option.bind_some] at h
    cases hr : nd.reg? r with
    | none => rw [hr] at h; cases h
    | some rg =>
      rw [hr] at h
      simp only [Option.map_some, Option.some.injEq] at h
      exact ⟨nd, rg, rfl, hr, by rw [h]; rfl, by rw [h]; rfl⟩

theorem agree_keys {s : Net} {e : EngSt} (hA : Agree s e) : (e.regs.map (·.1)).Nodup := by
  have := hA.lab.keys
  simpa [EngSt.labs, List.map_map, Function.comp_def] using this

/-- T01.4c  after any program, for every node and every register the L2 state holds there, the
engine stored under the same (node, number) has `activeQubits = toks.length`, `maxQubits = max`
and slot labels — kept by the C15 contract: appended by `add_fresh_qubit` / `absorb` /
`absorb_parts`, deleted and shifted down by `remove_qubit` — equal to the ghost tokens: the
engine-level "which logical qubit sits at which position" is the L2 labelling -/
theorem slots_are_tokens (rc : Bool) (caps : List (Nat × Nat)) (ops : List Op) :
    ∃ e', runProg rc (init caps) EngSt.empty ops = some ((run (init caps) ops).1, e') ∧
      ∀ n nd rg, (run (init caps) ops).1.nodes[n]? = some nd → rg ∈ nd.regs →
        ∃ en, aget e'.regs (n, rg.num) = some en ∧ en.lab.slots = rg.toks ∧
          en.eng.active = rg.toks.length ∧ en.eng.max = rg.max := by
  obtain ⟨e', h1, hA⟩ := engine_run_succeeds rc caps ops
  refine ⟨e', h1, ?_⟩
  intro n nd rg hn hm
  have hwf := C02.wf_run caps ops
  have hr : nd.reg? rg.num = some rg := by
    have hnd := (hwf.nodes _ _ hn).regNumsNodup
    unfold Node.reg?
    cases hf : nd.regs.find? (fun r => r.num == rg.num) with
    | none =>
      have := List.find?_eq_none.1 hf rg hm
      simp at this
    | some rg' =>
      have h1 : rg' ∈ nd.regs := List.mem_of_find?_eq_some hf
      have h2 : rg'.num = rg.num := by simpa using List.find?_some hf
      obtain ⟨i, hi⟩ := List.mem_iff_getElem?.1 h1
      obtain ⟨j, hj⟩ := List.mem_iff_getElem?.1 hm
      have hi' : (nd.regs.map (·.num))[i]? = some rg.num := by rw [List.getElem?_map, hi, ← h2]; rfl
      have hj' : (nd.regs.map (·.num))[j]? = some rg.num := by rw [List.getElem?_map, hj]; rfl
      have hil : i < (nd.regs.map (·.num)).length := (List.getElem?_eq_some_iff.1 hi').1
      have : i = j := (List.getElem?_inj hil hnd).1 (hi'.trans hj'.symm)
      subst this
      rw [hi] at hj; exact hj
  obtain ⟨en, h2, h3, _, h5, h6, _⟩ := agree_reg hA hn hr
  exact ⟨en, h2, h3, h5, h6⟩

/-- … and conversely every engine of the final engine state (as a list entry: no duplicates,
nothing left in flight) is the engine of a register of the final L2 state -/
theorem engines_are_registers (rc : Bool) (caps : List (Nat × Nat)) (ops : List Op) :
    ∃ e', runProg rc (init caps) EngSt.empty ops = some ((run (init caps) ops).1, e') ∧
      (e'.regs.map (·.1)).Nodup ∧ e'.flight = [] ∧ e'.next = (run (init caps) ops).1.nextTok ∧
      ∀ p, p ∈ e'.regs → ∃ nd rg, (run (init caps) ops).1.nodes[p.1.1]? = some nd ∧ nd.reg? p.1.2 = some rg ∧
        p.2.lab.slots = rg.toks ∧ p.2.lab.max = rg.max := by
  obtain ⟨e', h1, hA⟩ := engine_run_succeeds rc caps ops
  have hfl : e'.flight = [] := by
    have := hA.lab.flight
    simpa [EngSt.labs] using this
  refine ⟨e', h1, agree_keys hA, hfl, hA.lab.next, ?_⟩
  intro p hp
  exact agree_engine hA (aget_of_mem _ (agree_keys hA) p hp)

/-! ### the landing theorems, on the engines -/

/-- T01.1b on the engines: the engine's one-qubit gate method is called, without raising, on
the slot whose label is the token the handle denotes -/
theorem engine_gate1_lands (rc : Bool) {s s' : Net} {e : EngSt} (hwf : WF s) (hA : Agree s e) {h : Nat} {g : G1}
    {n r p : Nat} (hstep : step s (.gate1 h g) = (s', .unit, [.gate1 g n r p])) :
    ∃ en en' e', aget e.regs (n, r) = some en ∧ en.lab.slots[p]? = tokOf s h ∧ (tokOf s h).isSome = true ∧
      en.call (g1Call g p) [] = some en' ∧ en'.lab.slots = en.lab.slots ∧
      applyEOp rc e (.gate1 g n r p) = some e' ∧ Agree s' e' := by
  obtain ⟨e', h1, a1⟩ := engine_ops_succeed rc hwf hA (.gate1 h g)
  rw [hstep] at h1 a1
  obtain ⟨_, nd, rg, hn, hr, htok, hsome⟩ := gate1_lands hwf hstep
  obtain ⟨en0, hk0, hs0, _⟩ := agree_reg hA hn hr
  have h1' : applyEOp rc e (.gate1 g n r p) = some e' := by
    simp only [runOps] at h1
    cases hx : applyEOp rc e (.gate1 g n r p) with
    | none => rw [hx] at h1; cases h1
    | some x => rw [hx] at h1; simpa using h1
  obtain ⟨en, en', hk, hc, _, hl⟩ := onReg_get (show e.onReg (n, r) (g1Call g p) [] = some e' from h1')
  rw [hk0] at hk; cases hk
  refine ⟨en0, en', e', hk0, by rw [hs0]; exact htok, hsome, hc, ?_, h1', a1⟩
  rw [hl]
  cases g <;> simp only [g1Call, Engine.Call.toSpec, Engine.Reg.step] <;> split <;> rfl

/-- T01.1c on the engines: in every placement, after the register moves have been performed on
the engines, the engine's two-qubit gate method is called — without raising, control and
target not swapped — on the two different slots whose labels are the tokens the control and
the target handle denoted before the step -/
theorem engine_gate2_lands (rc : Bool) {s : Net} {e : EngSt} (hwf : WF s) (hA : Agree s e) {hc ht : Nat} {g : G2}
    (hres : (step s (.gate2 hc ht g)).2.1 = .unit) :
    ∃ pre n r c t e1 e' en en',
      (step s (.gate2 hc ht g)).2.2 = pre ++ [.gate2 g n r c t] ∧ (∀ x ∈ pre, x.isMove = true) ∧
      runOps rc e pre = some e1 ∧ applyEOp rc e1 (.gate2 g n r c t) = some e' ∧
      Agree (step s (.gate2 hc ht g)).1 e' ∧
      aget e1.regs (n, r) = some en ∧ en.lab.slots[c]? = tokOf s hc ∧ en.lab.slots[t]? = tokOf s ht ∧
      (tokOf s hc).isSome = true ∧ (tokOf s ht).isSome = true ∧ c ≠ t ∧
      en.call (.gate2 (g2Gate g) c t) [] = some en' ∧ en'.lab.slots = en.lab.slots := by
  obtain ⟨e', h1, a1⟩ := engine_ops_succeed rc hwf hA (.gate2 hc ht g)
  obtain ⟨pre, n, r, c, t, nd, rg, hops, hpre, hn, hr, htc, htt, hsc, hst, hct⟩ := gate2_lands hwf hres
  rw [hops, runOps_append] at h1
  cases he1 : runOps rc e pre with
  | none => rw [he1] at h1; cases h1
  | some e1 =>
    rw [he1] at h1
    simp only [Option.bind_some, runOps] at h1
    cases hx : applyEOp rc e1 (.gate2 g n r c t) with
    | none => rw [hx] at h1; cases h1
    | some x =>
      rw [hx] at h1
      simp only [Option.bind_some, Option.some.injEq] at h1
      subst h1
      obtain ⟨en, en', hk, hcall, hk', hl⟩ :=
        onReg_get (show e1.onReg (n, r) (.gate2 (g2Gate g) c t) [] = some x from hx)
      obtain ⟨en'', hk'', hs'', _⟩ := agree_reg a1 hn hr
      rw [hk'] at hk''; cases hk''
      have hlab : en'.lab.slots = en.lab.slots := by
        rw [hl]
        simp only [Engine.Call.toSpec, Engine.Reg.step]
        split <;> rfl
      refine ⟨pre, n, r, c, t, e1, x, en, en', hops, hpre, he1, hx, a1, hk, ?_, ?_, hsc, hst, hct, hcall, hlab⟩
      · rw [← hlab, hs'']; exact htc
      · rw [← hlab, hs'']; exact htt

/-- T01.1d on the engines: `measure_qubit_inplace` is called, without raising, on the slot
labelled with the token the handle denotes -/
theorem engine_measure_lands (rc : Bool) {s : Net} {e : EngSt} (hwf : WF s) (hA : Agree s e) {h : Nat}
    {ip oc x : Bool} (hres : (step s (.measure h ip oc)).2.1 = .outcome x) :
    ∃ n r p tail en e1, (step s (.measure h ip oc)).2.2 = .measInplace n r p oc :: tail ∧
      aget e.regs (n, r) = some en ∧ en.lab.slots[p]? = tokOf s h ∧ (tokOf s h).isSome = true ∧
      applyEOp rc e (.measInplace n r p oc) = some e1 ∧
      (ip = false → ∃ tail', tail = .remove n r p :: tail' ∧ ∃ e2, applyEOp rc e1 (.remove n r p) = some e2) := by
  obtain ⟨e', h1, _⟩ := engine_ops_succeed rc hwf hA (.measure h ip oc)
  obtain ⟨n, r, p, nd, rg, t, htok, hn, hr, hp, _, hip, hdes⟩ := measure_lands hwf hres
  obtain ⟨en, hk, hs, _⟩ := agree_reg hA hn hr
  have hops : ∃ tail, (step s (.measure h ip oc)).2.2 = .measInplace n r p oc :: tail ∧
      (ip = false → ∃ tail', tail = .remove n r p :: tail') := by
    cases ip with
    | true => exact ⟨[], by rw [hip rfl], fun h => by cases h⟩
    | false =>
      obtain ⟨tl, h2, _⟩ := hdes rfl
      exact ⟨.remove n r p :: tl, by rw [h2]; rfl, fun _ => ⟨tl, rfl⟩⟩
  obtain ⟨tail, hops, htail⟩ := hops
  rw [hops] at h1
  simp only [runOps] at h1
  cases hx : applyEOp rc e (.measInplace n r p oc) with
  | none => rw [hx] at h1; cases h1
  | some e1 =>
    rw [hx] at h1
    simp only [Option.bind_some] at h1
    refine ⟨n, r, p, tail, en, e1, hops, hk, by rw [hs, hp, htok], by rw [htok]; rfl, hx, ?_⟩
    intro hf
    obtain ⟨tail', ht'⟩ := htail hf
    refine ⟨tail', ht', ?_⟩
    rw [ht'] at h1
    simp only [runOps] at h1
    cases hy : applyEOp rc e1 (.remove n r p) with
    | none => rw [hy] at h1; cases h1
    | some e2 => exact ⟨e2, rfl⟩

/-! ### (d) every register the network ever holds is a stabilizer state -/

/-- T01.4d  after any program the stabilizer state of every engine is `Stab.Reachable` (built
from |0> qubits by tensor products — `absorb`, and `absorb_parts` of an exported matrix, which
is the same rows —, gates and measurements), hence a maximal independent commuting generator
list (`ValidMax`, C14 T14.7): the hypotheses of the C13 gate theorems and the C14 measurement
theorems hold for every register the network ever holds -/
theorem registers_valid (rc : Bool) (caps : List (Nat × Nat)) (ops : List Op) :
    ∃ e', runProg rc (init caps) EngSt.empty ops = some ((run (init caps) ops).1, e') ∧
      ∀ p, p ∈ e'.regs → Stab.Reachable p.2.eng.st ∧ Stab.ValidMax p.2.eng.st.n p.2.eng.st.rows ∧
        p.2.eng.st.rows.length = p.2.eng.st.n := by
  obtain ⟨e', h1, hA⟩ := engine_run_succeeds rc caps ops
  refine ⟨e', h1, ?_⟩
  intro p hp
  have hr := (hA.inv.regs _ _ (aget_of_mem _ (agree_keys hA) p hp)).reach
  have hv := C14.reachable_validMax _ hr
  exact ⟨hr, hv, hv.count⟩

/-- the same for a state coupled to a well-formed L2 state, one step on -/
theorem registers_valid_step (rc : Bool) {s : Net} {e : EngSt} (hwf : WF s) (hA : Agree s e) (op : Op) :
    ∃ e', runOps rc e (step s op).2.2 = some e' ∧
      ∀ k en, aget e'.regs k = some en → Stab.ValidMax en.eng.st.n en.eng.st.rows := by
  obtain ⟨e', h1, a1⟩ := engine_ops_succeed rc hwf hA op
  exact ⟨e', h1, fun k en hk => C14.reachable_validMax _ (a1.inv.regs k en hk).reach⟩

/-! ### what does not transfer: the recorded outcome -/

def oneQ : Net := (run (init [(2, 2)]) [.new 0]).1
def oneQEng : Option EngSt := (runProg false (init [(2, 2)]) EngSt.empty [.new 0]).map (·.2)

/-- the L2 model takes the outcome of a measurement as an INPUT of the step: on a fresh |0>
qubit it accepts the record "outcome 1", which the engine cannot return whatever its coin.
(In an execution of the real code the recorded outcome is the engine's return value; the
theorems above hold for every record, in particular for those.) -/
theorem recorded_outcome_counterexample :
    (step oneQ (.measure 0 true true)).2 = (.outcome true, [.measInplace 0 0 0 true]) ∧
    oneQEng.bind (fun e => engOutcome e (.measInplace 0 0 0 true)) = some false ∧
    oneQEng.bind (fun e => engOutcome e (.measInplace 0 0 0 false)) = some false := by
  decide

/-! ### (e) non-vacuity -/

/-- node 0 creates tokens 0, 1, puts token 0 into |+> and entangles them (Bell pair in one
register at node 0); node 1 creates token 2; token 1 goes to node 1, tokens 0 and 2 to node 2;
node 2 applies CNOT on its two qubits — both simulated remotely, at two different nodes, a
third party (node 1) holding a qubit of one of the merged registers: GHZ state on tokens
0, 1, 2 in ONE engine at node 2 -/
def ghzOps : List Op :=
  [.new 0, .new 0, .gate1 0 .H, .gate2 0 1 .CNOT, .new 1, .send 1 1, .send 0 2, .send 2 2, .gate2 4 5 .CNOT]

/-- the engine calls of the last step: new register at node 2, two export / delete / absorb_parts
pulls, then the CNOT on slots 0 and 2 -/
example :
    (step (run (init [(3, 5), (3, 5), (3, 5)]) ghzOps.dropLast).1 (.gate2 4 5 .CNOT)).2 =
      (.unit, [.newReg 2 0, .exportDel 0 0, .delReg 0 0, .absorbParts 2 0 0 0,
               .exportDel 1 0, .delReg 1 0, .absorbParts 2 0 1 0, .gate2 .CNOT 2 0 0 2]) := by
  decide

/-- the whole program on the engines: one engine is left, under (node 2, register 0), limit
10 + 2 + 1, slot labels = tokens [0, 1, 2], generators XXX, ZZI, ZIZ (GHZ) -/
example :
    (runProg false (init [(3, 5), (3, 5), (3, 5)]) EngSt.empty ghzOps).map (·.2) =
      some { regs := [((2, 0),
                { eng := { max := 13,
                           st := { n := 3,
                                   rows := [⟨[(true, false), (true, false), (true, false)], false⟩,
                                            ⟨[(false, true), (false, true), (false, false)], false⟩,
                                            ⟨[(false, true), (false, false), (false, true)], false⟩] } },
                  lab := { max := 13, slots := [0, 1, 2] } })],
             flight := [], next := 3 } := by
  decide

/-- the L2 side of the same run: register `[0, 1, 2]` with limit 13 at node 2, nothing else -/
example :
    (run (init [(3, 5), (3, 5), (3, 5)]) ghzOps).1.nodes.map (·.regs) =
      [[], [], [{ num := 0, max := 13, toks := [0, 1, 2] }]] := by
  decide

/-- the third party (node 1, handle 3, token 1) measures destructively with recorded outcome
1; node 2 then measures token 0 in place: the engine returns 1 whatever the coin (GHZ), the
remaining register has slots [0, 2] -/
example :
    let r := runProg false (init [(3, 5), (3, 5), (3, 5)]) EngSt.empty (ghzOps ++ [.measure 3 false true])
    r.map (fun p => p.2.regs.map (fun q => (q.1, q.2.lab.slots))) = some [((2, 0), [0, 2])] ∧
    (r.bind fun p => engOutcome p.2 (.measInplace 2 0 0 false)) = some true ∧
    (r.bind fun p => engOutcome p.2 (.measInplace 2 0 0 true)) = some true := by
  decide

/-- two local merges: each raises the absorbing register's limit by exactly the absorbed size
(10 + 2), the absorbed slots are appended in order -/
example :
    ((runProg false (init [(4, 5)]) EngSt.empty [.new 0, .new 0, .new 0, .gate2 0 1 .CPHASE, .gate2 2 0 .CNOT]).map
      (fun p => p.2.regs.map (fun q => (q.1, q.2.eng.max, q.2.eng.active, q.2.lab.slots)))) =
      some [((0, 2), 12, 3, [2, 0, 1])] := by
  decide

/-- the hypotheses of `engine_ops_succeed` are satisfiable in a non-trivial state -/
example : ∃ e, WF exState ∧ Agree exState e := by
  obtain ⟨e, _, hA⟩ := engine_run_succeeds false [(3, 5), (3, 5), (3, 5)] exOps
  exact ⟨e, C02.wf_run _ _, hA⟩

end SqVerif.C01

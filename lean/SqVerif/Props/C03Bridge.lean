import SqVerif.Props.C03Skel
import SqVerif.SkelTwoPLTrans
import SqVerif.SkelTwoPLPaths
import SqVerif.SkelPathsB
/-!
# C03 — the bridge: operations whose skeletons pass the monitors ARE serializable

`Props/C03Skel.lean` has two separate sets of theorems: the generic two-phase-locking theorem
(`twoPL_serializable` …) and the `decide`d obligations on the regenerated skeletons (`ops_well_formed`).
This file connects them.

A *run* of an operation (`OpRun`) is: a skeleton, one of its paths (an event trace), a role assignment `ρ`
resolving the roles to concrete locks / resources, and an arbitrary family of local effects.  It is translated
(`SkelTwoPLTrans.transOp`) into a `TwoPL` transaction.  Then

1. `path_twoPhase`   `twoPhase s = true` ⟹ every translated path is two-phase *modulo aborted attempts*: it never
                     acquires after a release that follows an effect.  (Exactly what the monitor checks: a release
                     made before the operation had any effect — lock, find the simulator pointer stale, unlock,
                     retry — does not count.)
2. `path_guarded`, `guarded_schedule_legal`
                     `guarded… s = true` ⟹ in every translated path every effect on a resource of node `n` occurs
                     while the transaction itself holds `lock n`; hence ANY lock-exclusive interleaving is `Legal`:
                     the "`eff` needs the guard" part of `Legal` is derived, only exclusivity of the lock objects is
                     assumed.
3. `skeleton_schedules_serializable`
                     any finite family of runs whose skeletons pass the monitors, any role assignments, any
                     paths, ANY lock-exclusive interleaving `s`: the schedule `committed s` (= `s` without the
                     aborted lock attempts; all effect steps kept, in order) satisfies all premises of
                     `twoPL_serializable`, so sorting it by lock point gives the final state of `s`, keeps every
                     operation's own order, and is serial.
4. `wellformed_ops_serializable`
                     (3) for runs of the 24 operation kinds of `wellFormedOps` on the skeletons regenerated from
                     virtual.py; the monitor premises are discharged by `decide` (`ops_bridge_premises`).
5. `NotCovered`      what the claim does NOT cover, as named definitions with the corresponding negative facts.
6. non-vacuity: three concrete `_single_gate` runs (two on the same simulator node, one elsewhere), each with an
   aborted retry, truly interleaved; every premise checked by `decide` / the executable checkers.

## Hypotheses that remain environmental (explicit, named)

* `LockExcl tbl s`       exclusivity of the lock objects: a lock is granted only when free, released only by its
                         holder.  This is Twisted's `DeferredLock`, not SimulaQron code.
* `OpRun.Env.path`       the trace is a path of the skeleton (the skeleton over-approximates the method: C04's tie).
* `OpRun.Env.alias`      `ρ` agrees with the aliases the code validated on the path (`curr_sim_node ==
                         self.simNode` evaluated to true on this run, so both name one node).
* `OpRun.Env.asg`        `ρ` is meaningful: the resources of node `n` are guarded by `lock n`; `ALL` ⊇ `SELF`,
                         `SIM c`, `SIM t`; node locks and qubit locks are different objects.
* `OpRun.Env.localEff`   each effect reads and writes only its footprint (quantified over ALL such effects).
* `IsInterleaving`       every operation's steps appear in the schedule in program order (per-connection FIFO /
                         sequential execution of one inlineCallbacks generator).
* `AllLock`              (only for the conclusion "serial") every committed operation takes some lock; an
                         operation that takes none has only empty-footprint effects, which are the identity
                         (`TwoPL.eff_identity_of_empty_fp`), so its position is immaterial.
-/
namespace SqVerif.C03
open SqVerif.Skel SqVerif.Gen SqVerif.TwoPL SqVerif.SkelTwoPL

variable {V : Type}

/-! ### runs of operations -/

/-- one run of one operation -/
structure OpRun (V : Type) where
  /-- the lock/effect skeleton of the method -/
  skel : Stmt
  /-- node locks its caller holds for it by contract (`[]` for an operation that takes its own locks) -/
  pre : List Role
  /-- role assignment -/
  ρ : Asg
  /-- the effect of the `i`-th event on footprint `fp` -/
  F : Nat → List Res → St V → St V
  /-- the path taken -/
  tr : List Ev
  exit : Exit

/-- the `TwoPL` transaction of the run -/
def OpRun.txn (o : OpRun V) : Txn V := transOp o.ρ (checked needs exempt) o.F o.pre o.tr

/-- the monitor premises (decidable on the skeleton) -/
structure OpRun.Checked (o : OpRun V) : Prop where
  twoPhase : twoPhase o.skel = true
  guarded : guardedFrom needs exempt o.pre o.skel = true
  discipline : lockDiscipline o.pre o.skel = true

/-- the environmental premises -/
structure OpRun.Env (guard : Res → Lock) (o : OpRun V) : Prop where
  path : paths o.skel o.tr o.exit
  asg : o.ρ.WF guard
  alias : AliasOK o.ρ o.tr
  preDisj : PreDisjoint o.ρ o.pre
  localEff : ∀ i fp, LocalEff fp (o.F i fp)

/-! ### (1) two-phase -/

/-- **(1)** a skeleton that passes the two-phase monitor: every path, under every role assignment, every choice
    of effects and every contract bracket, translates into a transaction that is two-phase modulo aborted
    attempts — positionally: an effect, later a release, later an acquire does not occur. -/
theorem path_twoPhase (s : Stmt) (h : twoPhase s = true) (tr : List Ev) (e : Exit) (hp : paths s tr e)
    (ρ : Asg) (ck : String → Bool → Bool) (F : Nat → List Res → St V → St V) (pre : List Role) :
    WeakTP (transOp ρ ck F pre tr) ∧
    ∀ (p : Txn V) (ef : Act V) (m : Txn V) (r : Act V) (n : Txn V),
      transOp ρ ck F pre tr = p ++ ef :: m ++ r :: n → isEffA ef = true → isRelA r = true →
      ∀ x, x ∈ n → isAcqA x = false := by
  have hw := path_twoPhase_core s h tr e hp ρ ck F pre
  exact ⟨hw, fun p ef m r n hs => WeakTP_spec _ hw p ef m r n hs⟩

/-- in a schedule, after the aborted attempts are dropped, such transactions are two-phase in the strict sense of
    `TwoPL.TwoPhase` (no acquire after a release) -/
theorem committed_twoPhase (s : Sched V) (h : ∀ t, WeakTP (acts t s)) : AllTwoPhase (dropAb [] s) :=
  dropAb_allTwoPhase s h

/-! ### (2) guards -/

/-- **(2)** a skeleton that passes the guard monitor and the lock-discipline monitor: in every translated path
    every effect on a resource of node `n` occurs while the transaction holds `lock n` (acquired earlier in the
    same transaction and not released since) — given that the transaction never re-acquires a lock it holds,
    which holds in every lock-exclusive schedule (`noReacq_of_lockExcl`). -/
theorem path_guarded (guard : Res → Lock) (ρ : Asg) (hρ : ρ.WF guard)
    (F : Nat → List Res → St V → St V) (pre : List Role) (s : Stmt)
    (hg : guardedFrom needs exempt pre s = true) (hd : lockDiscipline pre s = true)
    (tr : List Ev) (e : Exit) (hp : paths s tr e) (hal : AliasOK ρ tr) (hpre : PreDisjoint ρ pre)
    (hnr : noReacq (transOp ρ (checked needs exempt) F pre tr)) :
    selfGuarded guard (transOp ρ (checked needs exempt) F pre tr) ∧
    ∀ (p : Txn V) (fp : List Res) (f : St V → St V) (q : Txn V),
      transOp ρ (checked needs exempt) F pre tr = p ++ Act.eff fp f :: q →
      ∀ x, x ∈ fp → guard x ∈ holds [] p := by
  have hsg := path_guarded_core guard ρ hρ needs exempt F pre s hg hd tr e hp hal hpre hnr
  exact ⟨hsg, fun p fp f q hs => selfGuardedFrom_spec guard [] _ hsg p fp f q hs⟩

theorem getD_map_txn (ops : List (OpRun V)) (t : Tid) :
    (ops.map OpRun.txn).getD t [] = [] ∨ ∃ o, o ∈ ops ∧ (ops.map OpRun.txn).getD t [] = o.txn := by
  rw [List.getD_eq_getElem?_getD, List.getElem?_map]
  cases h : ops[t]? with
  | none => left; rfl
  | some o => right; exact ⟨o, List.mem_of_getElem? h, rfl⟩

/-- **(2), schedule level**: any lock-exclusive interleaving of runs that pass the monitors is `Legal`: the
    "`eff` needs the guard" half of `Legal` follows from the guard analysis. -/
theorem guarded_schedule_legal (guard : Res → Lock) (ops : List (OpRun V))
    (hck : ∀ o, o ∈ ops → o.Checked) (henv : ∀ o, o ∈ ops → o.Env guard)
    (s : Sched V) (tbl : Tbl) (hint : IsInterleaving (ops.map OpRun.txn) s) (hle : LockExcl tbl s) :
    Legal guard tbl s := by
  apply legal_of_lockExcl guard s tbl hle
  intro t
  have hnr := noReacq_of_lockExcl s tbl hle t
  rw [hint t] at hnr ⊢
  rcases getD_map_txn ops t with h | ⟨o, ho, h⟩
  · rw [h]; trivial
  · rw [h] at hnr ⊢
    have c := hck o ho
    have v := henv o ho
    exact (path_guarded guard o.ρ v.asg o.F o.pre o.skel c.guarded c.discipline o.tr o.exit v.path v.alias
      v.preDisj hnr).1

/-! ### (3) the bridge theorem -/

/-- the schedule without the aborted lock attempts -/
def committed (s : Sched V) : Sched V := dropAb [] s

/-- the serial schedule: `committed s` stably sorted by lock point -/
def serialOf (s : Sched V) : Sched V := sortR (rankOf (committed s)) (committed s)

/-- what "serializable" means here -/
structure Serializable (guard : Res → Lock) (tbl : Tbl) (s : Sched V) : Prop where
  /-- the schedule itself is legal (effects only under their guards) -/
  legal : Legal guard tbl s
  /-- the committed schedule meets every premise of `twoPL_serializable` -/
  premises : AllWF (committed s) ∧ AllTwoPhase (committed s) ∧ Legal guard (pruneTbl [] s tbl) (committed s)
  /-- same final state — hence the same value of every resource, in particular of every result resource -/
  sameState : ∀ st, exec (serialOf s) st = exec s st
  /-- the serial schedule consists of the committed steps … -/
  sameSteps : (serialOf s).Perm (committed s)
  /-- … in each operation's own order … -/
  ownOrder : ∀ t, proj t (serialOf s) = proj t (committed s)
  /-- … which are the operation's steps in the original order minus aborted lock attempts … -/
  committedSub : ∀ t, (proj t (committed s)).Sublist (proj t s)
  /-- … with every effect step kept -/
  effectsKept : (committed s).filter (fun x => isEffA x.act) = s.filter (fun x => isEffA x.act)
  /-- and it is serial: each operation's steps are contiguous -/
  serial : AllLock (committed s) → Serial (serialOf s)

/-- **(3)** for any finite family of runs whose skeletons pass `twoPhase`, `guarded` and the lock discipline,
    any role assignments, any choice of one path each, and ANY lock-exclusive interleaving `s` of the translated
    transactions: `exec (sortR (rankOf s') s') st = exec s st` for `s' = committed s`, the sorted schedule is
    serial and respects each operation's own order.  Obtained by instantiating `TwoPL.twoPL_serializable`
    (inside `weak2pl_serializable`) and the `sortR_*` lemmas. -/
theorem skeleton_schedules_serializable (guard : Res → Lock) (ops : List (OpRun V))
    (hck : ∀ o, o ∈ ops → o.Checked) (henv : ∀ o, o ∈ ops → o.Env guard)
    (s : Sched V) (tbl : Tbl) (hint : IsInterleaving (ops.map OpRun.txn) s) (hle : LockExcl tbl s) :
    Serializable guard tbl s := by
  have hleg := guarded_schedule_legal guard ops hck henv s tbl hint hle
  have hwf : AllWF s := by
    intro x hx
    have hm := mem_acts s x hx
    rw [hint x.tid] at hm
    rcases getD_map_txn ops x.tid with h | ⟨o, ho, h⟩
    · rw [h] at hm; cases hm
    · rw [h] at hm
      exact transOp_wf o.ρ _ o.F (henv o ho).localEff o.pre o.tr _ hm
  have h2p : ∀ t, WeakTP (acts t s) := by
    intro t
    rw [hint t]
    rcases getD_map_txn ops t with h | ⟨o, ho, h⟩
    · rw [h]; rfl
    · rw [h]
      exact (path_twoPhase o.skel (hck o ho).twoPhase o.tr o.exit (henv o ho).path o.ρ _ o.F o.pre).1
  have hg : ∀ t, selfGuarded guard (acts t s) := by
    intro t
    have hnr := noReacq_of_lockExcl s tbl hle t
    rw [hint t] at hnr ⊢
    rcases getD_map_txn ops t with h | ⟨o, ho, h⟩
    · rw [h]; trivial
    · rw [h] at hnr ⊢
      have c := hck o ho
      have v := henv o ho
      exact (path_guarded guard o.ρ v.asg o.F o.pre o.skel c.guarded c.discipline o.tr o.exit v.path v.alias
        v.preDisj hnr).1
  obtain ⟨h1, h2, h3, h4⟩ := weak2pl_serializable guard s tbl hwf h2p hg hle
  exact {
    legal := hleg
    premises := ⟨h1, h2, h3⟩
    sameState := h4
    sameSteps := sortR_perm _ _
    ownOrder := fun t => sortR_filter_tid _ t _
    committedSub := fun t => (dropAb_sublist s []).filter _
    effectsKept := dropAb_effs s []
    serial := fun hlock =>
      sortR_serial _ _ (fun x y hx _ h => rankOf_inj_of_acq _ x.tid y.tid (hlock x hx) h) }

/-- per-operation results: a result is a resource, so it has the same value after the serial schedule -/
theorem skeleton_schedules_results (guard : Res → Lock) (ops : List (OpRun V))
    (hck : ∀ o, o ∈ ops → o.Checked) (henv : ∀ o, o ∈ ops → o.Env guard)
    (s : Sched V) (tbl : Tbl) (hint : IsInterleaving (ops.map OpRun.txn) s) (hle : LockExcl tbl s)
    (st : St V) (res : Tid → Res) (t : Tid) :
    exec (serialOf s) st (res t) = exec s st (res t) := by
  rw [(skeleton_schedules_serializable guard ops hck henv s tbl hint hle).sameState st]

/-! ### (4) the regenerated skeletons -/

/-- the callee halves run under their node's lock, held by the caller (`assert self._lock.locked`) -/
def calleeHalves : List String :=
  ["_remove_sim_qubit", "remote_remove_sim_qubit_num", "remote_get_register_del", "local_merge_regs",
   "remote_merge_regs"]

/-- the contract of an operation kind: which locks its caller holds for it -/
def preOf (name : String) : List Role := if name ∈ calleeHalves then [.SELF] else []

/-- the callee halves are exactly the well-formed operations whose skeleton contains `requires SELF` -/
theorem calleeHalves_spec :
    ∀ m ∈ allMethods, m.1 ∈ wellFormedOps → (m.2.requiresSelf = true ↔ m.1 ∈ calleeHalves) := by decide +kernel

/-- T03.2′: every operation kind of `wellFormedOps`, with the time-out branches pruned, passes the three monitors
    the bridge needs (under its contract `preOf`) -/
theorem ops_bridge_premises :
    ∀ m ∈ allMethods, m.1 ∈ wellFormedOps →
      twoPhase (noTimeout m.2) = true ∧ guardedFrom needs exempt (preOf m.1) (noTimeout m.2) = true ∧
      lockDiscipline (preOf m.1) (noTimeout m.2) = true := by decide +kernel

theorem preDisjoint_preOf (ρ : Asg) (name : String) : PreDisjoint ρ (preOf name) := by
  intro r1 h1 r2 h2 hne
  unfold preOf at h1 h2
  by_cases hn : name ∈ calleeHalves
  · rw [if_pos hn] at h1 h2
    simp only [List.mem_singleton] at h1 h2
    exact absurd (h1.trans h2.symm) hne
  · rw [if_neg hn] at h1
    cases h1

theorem mem_of_find (tbl : Table) (name : String) (body : Stmt) (h : tbl.find name = some body) :
    (name, body) ∈ tbl := by
  unfold Table.find at h
  cases hf : tbl.find? (fun p => p.1 == name) with
  | none => rw [hf] at h; cases h
  | some p =>
    rw [hf] at h
    simp only [Option.some.injEq] at h
    have hm := List.mem_of_find?_eq_some hf
    have hp := List.find?_some hf
    simp only [beq_iff_eq] at hp
    cases p with
    | mk a b =>
      simp only at h hp
      subst h; subst hp
      exact hm

/-- the run executes one of the operation kinds of `wellFormedOps` on the regenerated skeleton, along a path on
    which no lock timer fires (`noTimeout`; these are genuine paths of the method: `noTimeout_paths`) -/
def OpRun.OfKind (o : OpRun V) (name : String) : Prop :=
  name ∈ wellFormedOps ∧ ∃ body, allMethods.find name = some body ∧ o.skel = noTimeout body ∧ o.pre = preOf name

theorem OpRun.OfKind.checked {o : OpRun V} {name : String} (h : o.OfKind name) : o.Checked := by
  obtain ⟨hwf, body, hfind, hskel, hpre⟩ := h
  have := ops_bridge_premises (name, body) (mem_of_find _ _ _ hfind) hwf
  simp only at this
  rw [← hskel, ← hpre] at this
  exact ⟨this.1, this.2.1, this.2.2⟩

/-- the path of such a run is a genuine path of the regenerated method skeleton -/
theorem OpRun.OfKind.genuine {o : OpRun V} {name : String} (h : o.OfKind name) (hp : paths o.skel o.tr o.exit) :
    ∃ body, allMethods.find name = some body ∧ paths body o.tr o.exit := by
  obtain ⟨_, body, hfind, hskel, _⟩ := h
  rw [hskel] at hp
  exact ⟨body, hfind, noTimeout_paths body _ _ hp⟩

/-- **(4)** every finite family of runs of operation kinds drawn from `wellFormedOps` — on the skeletons
    regenerated from `virtual.py`, any role assignments, any paths without lock time-out, any local effects —
    under ANY lock-exclusive interleaving is serializable.  The monitor premises are discharged by the `decide`d
    facts; what remains are the environmental hypotheses listed in the header. -/
theorem wellformed_ops_serializable (guard : Res → Lock) (ops : List (OpRun V))
    (hkind : ∀ o, o ∈ ops → ∃ name, o.OfKind name) (henv : ∀ o, o ∈ ops → o.Env guard)
    (s : Sched V) (tbl : Tbl) (hint : IsInterleaving (ops.map OpRun.txn) s) (hle : LockExcl tbl s) :
    Serializable guard tbl s :=
  skeleton_schedules_serializable guard ops
    (fun o ho => by obtain ⟨name, hk⟩ := hkind o ho; exact hk.checked) henv s tbl hint hle

/-! ### (5) what the theorem does NOT cover

The claim above is about runs of the 24 kinds in `wellFormedOps`, along paths without lock time-out, with a
*static* role assignment.  Outside it:

* **operations outside the list** (`uncoveredMethods`).  Lock primitives and register helpers are parts of the
  listed operations, not operations.  Genuinely excluded, with the reason proved:
  - `remote_update_virtual_merge` at third nodes re-points handles without any lock
    (`NotCovered.thirdNodeMerge`);  `remote_merge_from`, which triggers it, is guarded only given the old
    simulator's lock (`NotCovered.mergeFromNeedsOld`);
  - `remote_measure` removes the handle from its node's `virtQubits` holding only the simulator's lock
    (`NotCovered.measureListMutation`).
  (`remote_apply_S`, added to the source later, is in the list: `apply_S_covered`.)
* **the time-out path of `_lock_nodes`**: with `cancel` + release of every requested node the two-qubit gate is
  not two-phase (`NotCovered.lockTimeout`); the theorem speaks about `noTimeout` paths only.
* **the unlocked `active` pre-tests**: every handle operation reads `active` before holding any lock
  (`NotCovered.activePretests`).  In the translation a `check` produces no step: the test is not part of the
  transaction, so a stale `active` read (TOCTOU with a concurrent send / measure) is outside the claim.
* **state-dependent guards**: a handle's simulator pointer is guarded by the lock of the node it *currently*
  names.  Here `ρ` is fixed for the whole run (`NotCovered.StaticAssignment`): the theorem covers runs in which
  `SIM c` / `SIM t` / `CUR` name the same node throughout (in particular every retry of
  `_lock_simulating_node` locks the same node), and `TwoPL.Legal` takes a static `guard`.  T03.1′ (guards that
  move with the state) is not proved.
* **unchecked calls**: a call that the guard analysis does not check (an exempt getter of immutable identifiers;
  a node method that takes its own lock, e.g. `add_qubit` called by `send_qubit`) is translated to an effect
  with EMPTY footprint: its effect belongs to the callee's own transaction.  Atomicity of the composite
  (send = remove here + add there) is not claimed.
* **callee halves** (`calleeHalves`) are covered as transactions bracketed by their caller's acquire/release of
  the required lock (`transOp` with `pre = [SELF]`), i.e. as if called by a minimal caller; inside a listed
  caller they are already accounted for by the caller's checked `call` effect.
* **lock-free operations** (`remote_transfer_qubit`, early returns): covered for the final state; for "serial"
  the hypothesis `AllLock` excludes them (their effects have empty footprint, hence are the identity).
* **exclusivity, FIFO, locality of effects, path ⊆ skeleton** are hypotheses (header), not consequences.
-/

namespace NotCovered

/-- the translated methods that are not in `wellFormedOps` -/
def uncoveredMethods : List String :=
  ["_get_global_lock", "remote_get_global_lock", "_release_global_lock", "remote_release_global_lock",
   "_lock_reg_qubits", "remote_lock_reg_qubits", "_unlock_reg_qubits", "remote_unlock_reg_qubits",
   "remote_add_register", "remote_new_register", "remote_delete_register", "remote_merge_from",
   "remote_update_virtual_merge", "remote_measure", "_lock_nodes", "_lock_inreg",
   "_unlock_inreg", "_lock_simulating_node", "sq_lock", "sq_remote_lock", "sq_unlock", "sq_remote_unlock"]

/-- `remote_update_virtual_merge` at a third node is not guarded -/
def thirdNodeMerge : Prop := guarded needs exempt Gen.remote_update_virtual_merge = false

/-- `remote_merge_from` is guarded only under the additional contract that the OLD simulator is locked -/
def mergeFromNeedsOld : Prop :=
  guardedFrom needs exempt [.OLD] Gen.remote_merge_from = true ∧ guarded needs exempt Gen.remote_merge_from = false

/-- `remote_measure` mutates its node's `virtQubits` list without that node's lock -/
def measureListMutation : Prop := guarded needs exempt Gen.remote_measure = false

/-- the time-out path of `_lock_nodes` breaks two-phase -/
def lockTimeout : Prop := twoPhase Gen._lock_nodes = false ∧ twoPhase Gen._two_qubit_gate = false

/-- the `active` pre-tests are read without a lock -/
def activePretests : Prop :=
  ∀ m ∈ allMethods, m.1 ∈ ["_single_gate", "remote_measure", "_two_qubit_gate", "remote_send_qubit"] →
    activeTestLocked m.2 = false

/-- the assignment of a run does not depend on the state or on the position in the path: every event of the
    path that names role `r` is translated with the same lock set `o.ρ.node r` -/
def StaticAssignment (o : OpRun V) : Prop :=
  ∀ (i j : Nat) (r : Role) (b : Bool),
    transEv o.ρ (checked needs exempt) o.F i (Ev.acq r b) = transEv o.ρ (checked needs exempt) o.F j (Ev.acq r b)

end NotCovered

theorem uncoveredMethods_spec :
    (allMethods.map (fun m => m.1)).filter (fun n => !decide (n ∈ wellFormedOps)) = NotCovered.uncoveredMethods := by
  decide +kernel

theorem notCovered_thirdNodeMerge : NotCovered.thirdNodeMerge := update_virtual_merge_unguarded
theorem notCovered_mergeFromNeedsOld : NotCovered.mergeFromNeedsOld := merge_from_guarded_given_old
theorem notCovered_measureListMutation : NotCovered.measureListMutation := measure_virtlist_unguarded
theorem notCovered_lockTimeout : NotCovered.lockTimeout := lock_timeout_breaks_two_phase
theorem notCovered_activePretests : NotCovered.activePretests := active_pretests_unlocked
theorem notCovered_staticAssignment (o : OpRun V) : NotCovered.StaticAssignment o := fun _ _ _ _ => rfl

/-- `remote_apply_S` (same shape as `remote_apply_K`) is in the list and passes the same monitors -/
theorem apply_S_covered :
    "remote_apply_S" ∈ wellFormedOps ∧ wellFormedOps.length = 24 ∧ twoPhase (noTimeout Gen.remote_apply_S) = true ∧
    guarded needs exempt (noTimeout Gen.remote_apply_S) = true ∧
    lockDiscipline [] (noTimeout Gen.remote_apply_S) = true := by decide +kernel

/-- the two-qubit gate WITH its time-out path does not satisfy the premise of (3) -/
theorem two_qubit_gate_with_timeout_not_checked (o : OpRun V) (h : o.skel = Gen._two_qubit_gate) : ¬ o.Checked := by
  intro hc
  have := hc.twoPhase
  rw [h, lock_timeout_breaks_two_phase.2] at this
  cases this

/-! ### (6) non-vacuity: a concrete instance satisfying every premise -/

theorem acts_nil_of_absent {V : Type} (s : Sched V) (t : Tid) (h : ∀ x, x ∈ s → x.tid ≠ t) : acts t s = [] := by
  unfold acts proj
  rw [List.filter_eq_nil_iff.2]
  · rfl
  · intro x hx
    simpa using h x hx

/-- checking `IsInterleaving` on an instance: all tids are below `ops.length`, and below it the projections agree -/
theorem isInterleaving_of_bounded {V : Type} (ops : List (Txn V)) (s : Sched V)
    (hb : s.all (fun x => decide (x.tid < ops.length)) = true)
    (hp : ∀ t, t < ops.length → acts t s = ops.getD t []) : IsInterleaving ops s := by
  intro t
  by_cases ht : t < ops.length
  · exact hp t ht
  · rw [acts_nil_of_absent s t]
    · rw [List.getD_eq_getElem?_getD, List.getElem?_eq_none (Nat.le_of_not_lt ht)]; rfl
    · intro x hx he
      have := (List.all_eq_true.1 hb) x hx
      simp only [decide_eq_true_eq] at this
      rw [he] at this
      exact ht this

theorem two_mul_half (n : Nat) (h : n % 2 = 0) : 2 * (n / 2) = n := by omega
theorem even_ne_odd (a b : Nat) : 2 * a ≠ 2 * b + 1 := by omega

def exGuardN : Res → Lock := fun x => 2 * x

/-- handle at node `virt`, simulated at node `sim` (node `n` has lock `2n` and state resource `n`), its simulated
    qubit has lock `2q+1` -/
def exAsg (virt sim q : Nat) : Asg where
  node := fun r => match r with
    | .SELF => [2 * virt]
    | .SIM _ => [2 * sim]
    | .CUR => [2 * sim]
    | .ALL => [2 * virt, 2 * sim]
    | _ => []
  qub := fun _ => [2 * q + 1]
  res := fun n _ => if n % 2 = 0 then [n / 2] else []

theorem exAsg_wf (virt sim q : Nat) : (exAsg virt sim q).WF exGuardN where
  resGuard := by
    intro n field x hx
    simp only [exAsg] at hx
    split at hx
    · rename_i hn
      simp only [List.mem_singleton] at hx
      subst hx
      exact two_mul_half n hn
    · cases hx
  allCovers := by
    intro r hr l hl
    rcases hr with rfl | rfl | rfl <;> simp_all [exAsg]
  sorts := by
    intro r qq l hl hq
    have hq' : l = 2 * q + 1 := by simpa [exAsg] using hq
    have : ∃ k : Nat, l = 2 * k := by
      cases r <;> simp [exAsg] at hl <;>
        first | exact ⟨_, hl⟩ | (rcases hl with hl | hl <;> exact ⟨_, hl⟩)
    obtain ⟨k, hk⟩ := this
    rw [hk] at hq'
    exact even_ne_odd _ _ hq'

/-- `_single_gate`, one aborted attempt (the simulator pointer was found stale: unlock, retry), then the gate -/
def trGateRetry : List Ev :=
  [.chk .active, .acq .CUR false, .rel .CUR, .acq .CUR false, .alias .CUR (.SIM .c), .qacq (.Q .c),
   .call (.SIM .c) "isActive" true, .chk .simActive, .call (.SIM .c) "<gate>" true,
   .qrel (.Q .c), .chk .assert, .alias .CUR (.SIM .c), .rel (.SIM .c)]

/-- the trace is a path of the regenerated skeleton: checked by the verified path checker (`SkelPathsB`), not by a
    derivation that would depend on the shape of the generated term — a behaviour-preserving rewrite of
    `_single_gate` / `_lock_simulating_node` (branches of the re-validation `if` flipped, locals renamed) changes the
    nesting of `Gen._single_gate`, not its paths -/
theorem trGateRetry_path : paths Gen._single_gate trGateRetry .norm := pathsB_sound _ _ _ (by decide +kernel)

/-- the effect of event `i`: add `i + 1` to every resource of the footprint -/
def exF : Nat → List Res → St Nat → St Nat := fun i fp => mkEff 0 fp (fun st r => st r + i + 1)

/-- a one-qubit gate on a handle at node `virt` whose qubit (lock `2q+1`) is simulated at node `sim` -/
def gateRun (virt sim q : Nat) : OpRun Nat where
  skel := noTimeout Gen._single_gate
  pre := preOf "_single_gate"
  ρ := exAsg virt sim q
  F := exF
  tr := trGateRetry
  exit := .norm

theorem gateRun_kind (virt sim q : Nat) : (gateRun virt sim q).OfKind "_single_gate" :=
  ⟨by decide, Gen._single_gate, rfl, rfl, rfl⟩

theorem gateRun_env (virt sim q : Nat) : (gateRun virt sim q).Env exGuardN where
  path := trGateRetry_path
  asg := exAsg_wf virt sim q
  alias := by
    intro x y h
    simp only [gateRun, trGateRetry, List.mem_cons, reduceCtorEq, Ev.alias.injEq, false_or, List.not_mem_nil,
      or_false, or_self] at h
    obtain ⟨rfl, rfl⟩ := h
    rfl
  preDisj := preDisjoint_preOf (exAsg virt sim q) "_single_gate"
  localEff := fun i fp => mkEff_local 0 fp (fun st r => st r + i + 1)

/-- two gates on different qubits simulated at node 1 (they conflict on node 1's state) and one at node 2 -/
def exOps : List (OpRun Nat) := [gateRun 0 1 1, gateRun 0 1 3, gateRun 0 2 2]

/-- interleave: the next step of the named transaction -/
def weave {V : Type} : List Tid → (Tid → Txn V) → Sched V
  | [], _ => []
  | t :: ts, rem =>
    match rem t with
    | [] => weave ts rem
    | a :: r => ⟨t, a⟩ :: weave ts (fun t' => if t' = t then r else rem t')

/-- 0 locks node 1, 2 locks node 2, 0 aborts, 1 locks node 1, 2 aborts, 1 aborts, 0 and 2 lock again and run
    interleaved, 1 gets node 1 after 0 released it -/
def exOrder : List Tid := [0, 2, 0, 1, 2, 1, 0, 2, 0, 2, 0, 2, 0, 0, 0, 1, 2, 1, 1, 2, 1, 1, 2, 1]

def exSchedule : Sched Nat := weave exOrder (fun t => (exOps.map OpRun.txn).getD t [])

theorem exSchedule_interleaving : IsInterleaving (exOps.map OpRun.txn) exSchedule := by
  apply isInterleaving_of_bounded
  · decide
  · intro t ht
    match t, ht with
    | 0, _ => rfl
    | 1, _ => rfl
    | 2, _ => rfl
    | n+3, h => exact absurd h (by simp [exOps])

theorem exSchedule_lockExcl : LockExcl (fun _ => none) exSchedule := lockExclB_sound _ _ (by decide)

/-- all premises of (4) hold for the instance -/
theorem exSchedule_serializable : Serializable exGuardN (fun _ => none) exSchedule :=
  wellformed_ops_serializable exGuardN exOps
    (fun o ho => by
      simp only [exOps, List.mem_cons, List.not_mem_nil, or_false] at ho
      rcases ho with rfl | rfl | rfl <;> exact ⟨_, gateRun_kind _ _ _⟩)
    (fun o ho => by
      simp only [exOps, List.mem_cons, List.not_mem_nil, or_false] at ho
      rcases ho with rfl | rfl | rfl <;> exact gateRun_env _ _ _)
    exSchedule (fun _ => none) exSchedule_interleaving exSchedule_lockExcl

example : exSchedule.length = 24 ∧ (committed exSchedule).length = 18 := by decide
-- the raw schedule is legal but NOT two-phase in the strict sense (the aborted attempts); the committed one is
example : legalB exGuardN (fun _ => none) exSchedule = true := by decide
example : allTwoPhaseB exSchedule = false := by decide
example : allTwoPhaseB (committed exSchedule) = true := by decide
example : legalB exGuardN (fun _ => none) (committed exSchedule) = true := by decide
example : (serialOf exSchedule).map (fun x => x.tid) = [0,0,0,0,0,0, 2,2,2,2,2,2, 1,1,1,1,1,1] := by decide

def allLockB {V : Type} (s : Sched V) : Bool := s.all (fun x => rankOf s x.tid != 0)

theorem allLockB_sound {V : Type} (s : Sched V) (h : allLockB s = true) : AllLock s := by
  intro x hx
  have := (List.all_eq_true.1 h) x hx
  simpa using this

-- every committed operation locks something, so the sorted schedule is serial
example : Serial (serialOf exSchedule) := exSchedule_serializable.serial (allLockB_sound _ (by decide))
-- the final state, concretely: both gates at node 1 added 7 + 9 to its state, the gate at node 2 to its own
example : exec exSchedule (fun _ => 0) 1 = 32 ∧ exec exSchedule (fun _ => 0) 2 = 16 ∧
    exec (serialOf exSchedule) (fun _ => 0) 1 = 32 := by decide
-- (1) and (2) on the instance: the translated transaction of one run
example : WeakTP (gateRun 0 1 1).txn :=
  (path_twoPhase _ (gateRun_kind 0 1 1).checked.twoPhase _ _ (gateRun_env 0 1 1).path _ _ _ _).1
example : (gateRun 0 1 1).txn.map (fun a => (isAcqA a, isRelA a, a.fp)) =
    [(true, false, []), (false, true, []), (true, false, []), (true, false, []),
     (false, false, [1]), (false, false, [1]), (false, true, []), (false, true, [])] := by decide
example : Legal exGuardN (fun _ => none) exSchedule :=
  guarded_schedule_legal exGuardN exOps
    (fun o ho => by
      simp only [exOps, List.mem_cons, List.not_mem_nil, or_false] at ho
      rcases ho with rfl | rfl | rfl <;> exact (gateRun_kind _ _ _).checked)
    (fun o ho => by
      simp only [exOps, List.mem_cons, List.not_mem_nil, or_false] at ho
      rcases ho with rfl | rfl | rfl <;> exact gateRun_env _ _ _)
    exSchedule (fun _ => none) exSchedule_interleaving exSchedule_lockExcl

end SqVerif.C03

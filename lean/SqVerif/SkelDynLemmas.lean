import SqVerif.SkelDyn
import SqVerif.SkelLemmas
/-!
# Pointer skeletons: soundness of the abstract interpreter, pruning of time-out branches, path acceptance

* `douts_sound`, `dAllOuts_sound`   every path of a `DStmt` ends in an outcome computed by `douts` — with the
                                    monitor state obtained by folding the monitor over the path's trace (same
                                    proof as `Skel.outs_sound`, whose list lemmas are reused).
* `dNoTimeout_paths`                the paths of `dNoTimeout s` are paths of `s`.
* `dRun`, `dAccepts`, `dAccepts_sound`
                                    an executable acceptor: `dAccepts s tr e = true` ⟹ `tr` is the trace of a path of
                                    `s` with exit `e`.  Used for the non-vacuity instances (a concrete run of a
                                    generated method), so that those do not depend on the shape of the generated term.
-/
namespace SqVerif.SkelDyn
open SqVerif.Skel (Handle Exit Cfg Out addNew union thenOn exitsOf contsOf
  mem_union mem_union_nil mem_addNew thenOn_sound)

section Outs
variable {A : Type} [DecidableEq A]

/-- every entry of the explored table records what `f` computes for its head -/
theorem explore_valid (f : Cfg A → Option (List (Out A))) : ∀ (n : Nat) (todo : List (Cfg A))
    (tbl tbl' : List (Cfg A × List (Out A))), (∀ e, e ∈ tbl → f e.1 = some e.2) →
    explore f n todo tbl = some tbl' → ∀ e, e ∈ tbl' → f e.1 = some e.2 := by
  intro n
  induction n with
  | zero =>
    intro todo tbl tbl' hv h
    simp only [explore] at h
    split at h
    · simp only [Option.some.injEq] at h; subst h; exact hv
    · cases h
  | succ n ih =>
    intro todo tbl tbl' hv h
    cases todo with
    | nil => simp only [explore, Option.some.injEq] at h; subst h; exact hv
    | cons r todo =>
      simp only [explore] at h
      split at h
      · exact ih todo tbl tbl' hv h
      · cases hf : f r with
        | none => rw [hf] at h; cases h
        | some O =>
          rw [hf] at h
          simp only at h
          apply ih _ _ tbl' _ h
          intro e he
          rcases List.mem_cons.1 he with rfl | he
          · exact hf
          · exact hv e he

theorem closedTbl_spec (tbl : List (Cfg A × List (Out A))) (h : closedTbl tbl = true)
    (e : Cfg A × List (Out A)) (he : e ∈ tbl) (y : Cfg A) (hy : (Exit.cont, y) ∈ e.2) :
    ∃ e', e' ∈ tbl ∧ e'.1 = y := by
  unfold closedTbl at h
  have h1 := (List.all_eq_true.1 h) e he
  have hy' : y ∈ contsOf e.2 := by
    unfold contsOf
    exact List.mem_filterMap.2 ⟨(Exit.cont, y), hy, by simp⟩
  have h2 := (List.all_eq_true.1 h1) y hy'
  obtain ⟨e', he', heq⟩ := List.any_eq_true.1 h2
  exact ⟨e', he', by simpa using heq⟩

/-- iterating a body whose paths are covered by `f` stays inside a closed table of loop heads -/
theorem dloop_sound (M : A → DEv → A) (f : Cfg A → Option (List (Out A))) (B : DRel) (φ : Skel.Flags)
    (hB : ∀ tr e, B tr e → ∀ a O, f (a, φ) = some O → (e, (tr.foldl M a, φ)) ∈ O)
    (tbl : List (Cfg A × List (Out A))) (hval : ∀ e, e ∈ tbl → f e.1 = some e.2) (hcl : closedTbl tbl = true) :
    ∀ tr e, DIter B tr e → ∀ a, (∃ ent, ent ∈ tbl ∧ ent.1 = (a, φ)) →
      (e.unloop, (tr.foldl M a, φ)) ∈ tbl.flatMap (fun ent => exitsOf ent.2) := by
  intro tr e hit
  induction hit with
  | @done tr e hb hne =>
    intro a ha
    obtain ⟨ent, hent, hk⟩ := ha
    have hO := hval ent hent
    rw [hk] at hO
    have hmem := hB _ _ hb a ent.2 hO
    refine List.mem_flatMap.2 ⟨ent, hent, ?_⟩
    unfold exitsOf
    refine List.mem_map.2 ⟨(e, (tr.foldl M a, φ)), ?_, rfl⟩
    exact List.mem_filter.2 ⟨hmem, by simpa using hne⟩
  | @again tr1 tr2 e hb _ ih =>
    intro a ha
    obtain ⟨ent, hent, hk⟩ := ha
    have hO := hval ent hent
    rw [hk] at hO
    have hmem := hB _ _ hb a ent.2 hO
    have := ih (tr1.foldl M a) (closedTbl_spec tbl hcl ent hent _ hmem)
    rw [List.foldl_append]
    exact this

/-- **soundness of the abstract interpreter**: every path ends in a computed outcome -/
theorem douts_sound (M : A → DEv → A) : ∀ (s : DStmt) (tr : List DEv) (e : Exit),
    DSem s tr e → ∀ (a : A) (φ : Skel.Flags) (O : List (Out A)), douts M s (a, φ) = some O →
      (e, (tr.foldl M a, φ)) ∈ O := by
  intro s
  induction s with
  | skip =>
    intro tr e h a φ O hO
    obtain ⟨rfl, rfl⟩ := h
    simp only [douts, Option.some.injEq] at hO; subst hO; simp
  | ev x =>
    intro tr e h a φ O hO
    obtain ⟨rfl, rfl⟩ := h
    simp only [douts, Option.some.injEq] at hO; subst hO; simp
  | raise =>
    intro tr e h a φ O hO
    obtain ⟨rfl, rfl⟩ := h
    simp only [douts, Option.some.injEq] at hO; subst hO; simp
  | ret =>
    intro tr e h a φ O hO
    obtain ⟨rfl, rfl⟩ := h
    simp only [douts, Option.some.injEq] at hO; subst hO; simp
  | brk =>
    intro tr e h a φ O hO
    obtain ⟨rfl, rfl⟩ := h
    simp only [douts, Option.some.injEq] at hO; subst hO; simp
  | cont =>
    intro tr e h a φ O hO
    obtain ⟨rfl, rfl⟩ := h
    simp only [douts, Option.some.injEq] at hO; subst hO; simp
  | seq s1 s2 ih1 ih2 =>
    intro tr e h a φ O hO
    simp only [douts] at hO
    cases h1 : douts M s1 (a, φ) with
    | none => rw [h1] at hO; cases hO
    | some O1 =>
      rw [h1] at hO
      simp only at hO
      rcases h with ⟨hs, hne⟩ | ⟨tr1, tr2, hs1, hs2, rfl⟩
      · have hm := ih1 _ _ hs a φ O1 h1
        have := (thenOn_sound _ _ O1 O hO _ hm).1
        apply this
        cases e <;> simp at hne ⊢
      · have hm := ih1 _ _ hs1 a φ O1 h1
        obtain ⟨K, hK, hsub⟩ := (thenOn_sound _ _ O1 O hO _ hm).2 (by simp)
        have := ih2 _ _ hs2 (tr1.foldl M a) φ K hK
        rw [List.foldl_append]
        exact hsub _ this
  | ite c s1 s2 ih1 ih2 =>
    intro tr e h a φ O hO
    simp only [douts] at hO
    cases h1 : douts M s1 (a, φ) with
    | none => rw [h1] at hO; cases hO
    | some O1 =>
      cases h2 : douts M s2 (a, φ) with
      | none => rw [h1, h2] at hO; cases hO
      | some O2 =>
        rw [h1, h2] at hO
        simp only [Option.some.injEq] at hO
        subst hO
        rcases h with hs | hs
        · exact (mem_union _ _ _).2 (Or.inl (ih1 _ _ hs a φ O1 h1))
        · exact (mem_union _ _ _).2 (Or.inr (ih2 _ _ hs a φ O2 h2))
  | loop b ih =>
    intro tr e h a φ O hO
    obtain ⟨e0, hit, rfl⟩ := h
    simp only [douts, dloopOuts] at hO
    cases hex : explore (douts M b) exploreFuel [(a, φ)] [] with
    | none => rw [hex] at hO; cases hO
    | some tbl =>
      rw [hex] at hO
      simp only at hO
      split at hO
      · rename_i hcond
        simp only [Option.some.injEq] at hO
        subst hO
        simp only [Bool.and_eq_true] at hcond
        rw [mem_union_nil]
        have hval := explore_valid (douts M b) exploreFuel [(a, φ)] [] tbl (fun e he => by cases he) hex
        obtain ⟨ent, hent, heq⟩ := List.any_eq_true.1 hcond.1
        exact dloop_sound M (douts M b) (DSem b) φ (fun tr e hs a O hO => ih tr e hs a φ O hO) tbl hval hcond.2
          _ _ hit a ⟨ent, hent, by simpa using heq⟩
      · cases hO
  | scope b ih =>
    intro tr e h a φ O hO
    obtain ⟨e0, hs, rfl⟩ := h
    simp only [douts] at hO
    cases h1 : douts M b (a, φ) with
    | none => rw [h1] at hO; cases hO
    | some O1 =>
      rw [h1] at hO
      simp only [Option.some.injEq] at hO
      subst hO
      rw [mem_union_nil]
      exact List.mem_map.2 ⟨_, ih _ _ hs a φ O1 h1, rfl⟩
  | tryFinally b f ihb ihf =>
    intro tr e h a φ O hO
    obtain ⟨tr1, e1, tr2, e2, hb, hf, rfl, rfl⟩ := h
    simp only [douts] at hO
    cases h1 : douts M b (a, φ) with
    | none => rw [h1] at hO; cases hO
    | some O1 =>
      rw [h1] at hO
      simp only at hO
      have hm := ihb _ _ hb a φ O1 h1
      obtain ⟨K, hK, hsub⟩ := (thenOn_sound _ _ O1 O hO _ hm).2 rfl
      simp only at hK
      cases h2 : douts M f (tr1.foldl M a, φ) with
      | none => rw [h2] at hK; cases hK
      | some K2 =>
        rw [h2] at hK
        simp only [Option.some.injEq] at hK
        subst hK
        have := ihf _ _ hf (tr1.foldl M a) φ K2 h2
        rw [List.foldl_append]
        apply hsub
        exact List.mem_map.2 ⟨_, this, rfl⟩
  | tryExcept b hd ihb ihh =>
    intro tr e h a φ O hO
    simp only [douts] at hO
    cases h1 : douts M b (a, φ) with
    | none => rw [h1] at hO; cases hO
    | some O1 =>
      rw [h1] at hO
      simp only at hO
      rcases h with hs | ⟨tr1, tr2, hs1, hs2, rfl⟩
      · have hm := ihb _ _ hs a φ O1 h1
        by_cases hexc : e = Exit.exc
        · subst hexc
          obtain ⟨K, hK, hsub⟩ := (thenOn_sound _ _ O1 O hO _ hm).2 (by simp)
          simp only at hK
          cases h2 : douts M hd (tr.foldl M a, φ) with
          | none => rw [h2] at hK; cases hK
          | some K2 =>
            rw [h2] at hK
            simp only [Option.some.injEq] at hK
            subst hK
            exact hsub _ (by simp)
        · apply (thenOn_sound _ _ O1 O hO _ hm).1
          cases e <;> simp at hexc ⊢
      · have hm := ihb _ _ hs1 a φ O1 h1
        obtain ⟨K, hK, hsub⟩ := (thenOn_sound _ _ O1 O hO _ hm).2 (by simp)
        simp only at hK
        cases h2 : douts M hd (tr1.foldl M a, φ) with
        | none => rw [h2] at hK; cases hK
        | some K2 =>
          rw [h2] at hK
          simp only [Option.some.injEq] at hK
          subst hK
          have := ihh _ _ hs2 (tr1.foldl M a) φ K2 h2
          rw [List.foldl_append]
          exact hsub _ (List.mem_cons_of_mem _ this)
  | tryCatch b hd ihb ihh =>
    intro tr e h a φ O hO
    simp only [douts] at hO
    cases h1 : douts M b (a, φ) with
    | none => rw [h1] at hO; cases hO
    | some O1 =>
      rw [h1] at hO
      simp only at hO
      rcases h with ⟨hs, hne⟩ | ⟨tr1, tr2, hs1, hs2, rfl⟩
      · have hm := ihb _ _ hs a φ O1 h1
        apply (thenOn_sound _ _ O1 O hO _ hm).1
        cases e <;> simp at hne ⊢
      · have hm := ihb _ _ hs1 a φ O1 h1
        obtain ⟨K, hK, hsub⟩ := (thenOn_sound _ _ O1 O hO _ hm).2 (by simp)
        have := ihh _ _ hs2 (tr1.foldl M a) φ K hK
        rw [List.foldl_append]
        exact hsub _ this
  | unknown w =>
    intro tr e _ a φ O hO
    simp only [douts] at hO
    cases hO

theorem dAllOuts_sound (M : A → DEv → A) (a0 : A) (p : A → Bool) (s : DStmt) (h : dAllOuts M a0 p s = true)
    (tr : List DEv) (e : Exit) (hp : dpaths s tr e) : p (tr.foldl M a0) = true := by
  unfold dAllOuts at h
  cases hO : douts M s (a0, []) with
  | none => rw [hO] at h; cases h
  | some O =>
    rw [hO] at h
    exact (List.all_eq_true.1 h) _ (douts_sound M s _ _ hp a0 [] O hO)

/-- an inlined helper (`scope`) reaches the same monitor states as its body -/
theorem dAllOuts_scope (M : A → DEv → A) (a0 : A) (p : A → Bool) (b : DStmt) :
    dAllOuts M a0 p (.scope b) = dAllOuts M a0 p b := by
  unfold dAllOuts
  simp only [douts]
  cases douts M b (a0, []) with
  | none => rfl
  | some O =>
    simp only
    rw [Bool.eq_iff_iff, List.all_eq_true, List.all_eq_true]
    constructor
    · intro h o ho
      exact h (o.1.unscope, o.2) ((mem_union_nil _ _).2 (List.mem_map.2 ⟨o, ho, rfl⟩))
    · intro h o ho
      obtain ⟨o', ho', rfl⟩ := List.mem_map.1 ((mem_union_nil _ _).1 ho)
      exact h o' ho'

end Outs

/-! ### pruning the time-out branches -/

theorem diter_mono {B B' : DRel} (h : ∀ tr e, B tr e → B' tr e) {tr : List DEv} {e : Exit}
    (hit : DIter B tr e) : DIter B' tr e := by
  induction hit with
  | done hb hne => exact DIter.done (h _ _ hb) hne
  | again hb _ ih => exact DIter.again (h _ _ hb) ih

theorem dNoTimeout_sem : ∀ (s : DStmt) (tr : List DEv) (e : Exit), DSem (dNoTimeout s) tr e → DSem s tr e := by
  intro s
  induction s with
  | skip => intro tr e h; exact h
  | ev x => intro tr e h; exact h
  | raise => intro tr e h; exact h
  | ret => intro tr e h; exact h
  | brk => intro tr e h; exact h
  | cont => intro tr e h; exact h
  | unknown w => intro tr e h; exact h
  | seq a b iha ihb =>
    intro tr e h
    simp only [dNoTimeout, DSem] at h ⊢
    rcases h with ⟨hs, hne⟩ | ⟨tr1, tr2, h1, h2, rfl⟩
    · exact Or.inl ⟨iha _ _ hs, hne⟩
    · exact Or.inr ⟨tr1, tr2, iha _ _ h1, ihb _ _ h2, rfl⟩
  | ite c a b iha ihb =>
    intro tr e h
    cases c with
    | timeout =>
      simp only [dNoTimeout] at h
      exact Or.inr (ihb _ _ h)
    | any =>
      simp only [dNoTimeout, DSem] at h ⊢
      rcases h with h | h
      · exact Or.inl (iha _ _ h)
      · exact Or.inr (ihb _ _ h)
  | loop b ih =>
    intro tr e h
    simp only [dNoTimeout, DSem] at h ⊢
    obtain ⟨e0, hit, rfl⟩ := h
    exact ⟨e0, diter_mono (fun tr e h => ih tr e h) hit, rfl⟩
  | scope b ih =>
    intro tr e h
    simp only [dNoTimeout, DSem] at h ⊢
    obtain ⟨e0, hs, rfl⟩ := h
    exact ⟨e0, ih _ _ hs, rfl⟩
  | tryFinally a b iha ihb =>
    intro tr e h
    simp only [dNoTimeout, DSem] at h ⊢
    obtain ⟨tr1, e1, tr2, e2, h1, h2, rfl, rfl⟩ := h
    exact ⟨tr1, e1, tr2, e2, iha _ _ h1, ihb _ _ h2, rfl, rfl⟩
  | tryExcept a b iha ihb =>
    intro tr e h
    simp only [dNoTimeout, DSem] at h ⊢
    rcases h with h | ⟨tr1, tr2, h1, h2, rfl⟩
    · exact Or.inl (iha _ _ h)
    · exact Or.inr ⟨tr1, tr2, iha _ _ h1, ihb _ _ h2, rfl⟩
  | tryCatch a b iha ihb =>
    intro tr e h
    simp only [dNoTimeout, DSem] at h ⊢
    rcases h with ⟨h, hne⟩ | ⟨tr1, tr2, h1, h2, rfl⟩
    · exact Or.inl ⟨iha _ _ h, hne⟩
    · exact Or.inr ⟨tr1, tr2, iha _ _ h1, ihb _ _ h2, rfl⟩

/-- the paths of the pruned skeleton are genuine paths of the method skeleton -/
theorem dNoTimeout_paths (s : DStmt) (tr : List DEv) (e : Exit) (h : dpaths (dNoTimeout s) tr e) : dpaths s tr e :=
  dNoTimeout_sem s tr e h

/-! ### an executable acceptor -/

abbrev Res1 := Exit × List DEv

/-- iterate `f` while it ends with `cont`, at most `n` times -/
def loopRun (f : List DEv → List Res1) : Nat → List DEv → List Res1
  | 0, _ => []
  | n+1, tr =>
    let O := f tr
    (O.filter (fun o => o.1 != .cont)).map (fun o => (o.1.unloop, o.2)) ++
    -- an iteration that consumes no event is not repeated (it could be repeated for ever)
    (O.filter (fun o => o.1 == .cont && decide (o.2.length < tr.length))).flatMap (fun o => loopRun f n o.2)

/-- all `(exit, rest)` such that `s` has a path whose trace is a prefix of `tr` with `rest` left over
    (loops: at most `|tr| + 1` iterations) -/
def dRun : DStmt → List DEv → List Res1
  | .skip, tr => [(.norm, tr)]
  | .ev x, tr =>
    match tr with
    | y :: rest => if x = y then [(.norm, rest)] else []
    | [] => []
  | .raise, tr => [(.exc, tr)]
  | .ret, tr => [(.ret, tr)]
  | .brk, tr => [(.brk, tr)]
  | .cont, tr => [(.cont, tr)]
  | .seq a b, tr => (dRun a tr).flatMap (fun o => if o.1 = .norm then dRun b o.2 else [o])
  | .ite _ a b, tr => dRun a tr ++ dRun b tr
  | .loop b, tr => loopRun (dRun b) (tr.length + 1) tr
  | .scope b, tr => (dRun b tr).map (fun o => (o.1.unscope, o.2))
  | .tryFinally b f, tr =>
    (dRun b tr).flatMap (fun o => (dRun f o.2).map (fun o2 => ((if o2.1 = .norm then o.1 else o2.1), o2.2)))
  | .tryExcept b h, tr =>
    dRun b tr ++ ((dRun b tr).filter (fun o => o.1 == .exc)).flatMap (fun o => dRun h o.2)
  | .tryCatch b h, tr =>
    (dRun b tr).filter (fun o => o.1 != .exc) ++ ((dRun b tr).filter (fun o => o.1 == .exc)).flatMap (fun o => dRun h o.2)
  | .unknown _, _ => []

def dAccepts (s : DStmt) (tr : List DEv) (e : Exit) : Bool := (dRun s tr).any (fun o => o.1 == e && o.2.isEmpty)

theorem loopRun_sound (f : List DEv → List Res1) (B : DRel)
    (hf : ∀ tr o, o ∈ f tr → ∃ tr1, tr = tr1 ++ o.2 ∧ B tr1 o.1) :
    ∀ n tr o, o ∈ loopRun f n tr → ∃ tr1 e0, tr = tr1 ++ o.2 ∧ DIter B tr1 e0 ∧ o.1 = e0.unloop := by
  intro n
  induction n with
  | zero => intro tr o h; cases h
  | succ n ih =>
    intro tr o h
    simp only [loopRun, List.mem_append, List.mem_map, List.mem_filter, List.mem_flatMap] at h
    rcases h with ⟨o', ⟨ho', hne⟩, rfl⟩ | ⟨o', ⟨ho', hc⟩, hrest⟩
    · obtain ⟨tr1, htr, hb⟩ := hf tr o' ho'
      exact ⟨tr1, o'.1, htr, DIter.done hb (by simpa using hne), rfl⟩
    · obtain ⟨tr1, htr, hb⟩ := hf tr o' ho'
      obtain ⟨tr2, e0, htr2, hit, he⟩ := ih o'.2 o hrest
      have hc' : o'.1 = .cont := by
        simp only [Bool.and_eq_true, beq_iff_eq] at hc
        exact hc.1
      rw [hc'] at hb
      exact ⟨tr1 ++ tr2, e0, by rw [htr, htr2]; simp, DIter.again hb hit, he⟩

theorem dRun_sound : ∀ (s : DStmt) (tr : List DEv) (o : Res1), o ∈ dRun s tr →
    ∃ tr1, tr = tr1 ++ o.2 ∧ DSem s tr1 o.1 := by
  intro s
  induction s with
  | skip => intro tr o h; simp only [dRun, List.mem_singleton] at h; subst h; exact ⟨[], rfl, rfl, rfl⟩
  | ev x =>
    intro tr o h
    cases tr with
    | nil => simp [dRun] at h
    | cons y rest =>
      simp only [dRun] at h
      split at h
      · rename_i hxy
        simp only [List.mem_singleton] at h
        subst h; subst hxy
        exact ⟨[x], rfl, rfl, rfl⟩
      · cases h
  | raise => intro tr o h; simp only [dRun, List.mem_singleton] at h; subst h; exact ⟨[], rfl, rfl, rfl⟩
  | ret => intro tr o h; simp only [dRun, List.mem_singleton] at h; subst h; exact ⟨[], rfl, rfl, rfl⟩
  | brk => intro tr o h; simp only [dRun, List.mem_singleton] at h; subst h; exact ⟨[], rfl, rfl, rfl⟩
  | cont => intro tr o h; simp only [dRun, List.mem_singleton] at h; subst h; exact ⟨[], rfl, rfl, rfl⟩
  | unknown w => intro tr o h; simp [dRun] at h
  | seq a b iha ihb =>
    intro tr o h
    simp only [dRun, List.mem_flatMap] at h
    obtain ⟨o1, h1, h2⟩ := h
    obtain ⟨tr1, htr1, hs1⟩ := iha tr o1 h1
    by_cases hn : o1.1 = .norm
    · rw [if_pos hn] at h2
      obtain ⟨tr2, htr2, hs2⟩ := ihb o1.2 o h2
      rw [hn] at hs1
      exact ⟨tr1 ++ tr2, by rw [htr1, htr2]; simp, Or.inr ⟨tr1, tr2, hs1, hs2, rfl⟩⟩
    · rw [if_neg hn] at h2
      simp only [List.mem_singleton] at h2
      subst h2
      exact ⟨tr1, htr1, Or.inl ⟨hs1, hn⟩⟩
  | ite c a b iha ihb =>
    intro tr o h
    simp only [dRun, List.mem_append] at h
    rcases h with h | h
    · obtain ⟨tr1, htr, hs⟩ := iha tr o h; exact ⟨tr1, htr, Or.inl hs⟩
    · obtain ⟨tr1, htr, hs⟩ := ihb tr o h; exact ⟨tr1, htr, Or.inr hs⟩
  | loop b ih =>
    intro tr o h
    simp only [dRun] at h
    obtain ⟨tr1, e0, htr, hit, he⟩ := loopRun_sound (dRun b) (DSem b) (fun tr o ho => ih tr o ho) _ tr o h
    exact ⟨tr1, htr, e0, hit, he⟩
  | scope b ih =>
    intro tr o h
    simp only [dRun, List.mem_map] at h
    obtain ⟨o1, h1, rfl⟩ := h
    obtain ⟨tr1, htr, hs⟩ := ih tr o1 h1
    exact ⟨tr1, htr, o1.1, hs, rfl⟩
  | tryFinally b f ihb ihf =>
    intro tr o h
    simp only [dRun, List.mem_flatMap, List.mem_map] at h
    obtain ⟨o1, h1, o2, h2, rfl⟩ := h
    obtain ⟨tr1, htr1, hs1⟩ := ihb tr o1 h1
    obtain ⟨tr2, htr2, hs2⟩ := ihf o1.2 o2 h2
    exact ⟨tr1 ++ tr2, by rw [htr1, htr2]; simp, tr1, o1.1, tr2, o2.1, hs1, hs2, rfl, rfl⟩
  | tryExcept b hd ihb ihh =>
    intro tr o h
    simp only [dRun, List.mem_append, List.mem_flatMap, List.mem_filter] at h
    rcases h with h | ⟨o1, ⟨h1, hexc⟩, h2⟩
    · obtain ⟨tr1, htr, hs⟩ := ihb tr o h; exact ⟨tr1, htr, Or.inl hs⟩
    · obtain ⟨tr1, htr1, hs1⟩ := ihb tr o1 h1
      obtain ⟨tr2, htr2, hs2⟩ := ihh o1.2 o h2
      have : o1.1 = .exc := by simpa using hexc
      rw [this] at hs1
      exact ⟨tr1 ++ tr2, by rw [htr1, htr2]; simp, Or.inr ⟨tr1, tr2, hs1, hs2, rfl⟩⟩
  | tryCatch b hd ihb ihh =>
    intro tr o h
    simp only [dRun, List.mem_append, List.mem_flatMap, List.mem_filter] at h
    rcases h with ⟨h, hne⟩ | ⟨o1, ⟨h1, hexc⟩, h2⟩
    · obtain ⟨tr1, htr, hs⟩ := ihb tr o h
      exact ⟨tr1, htr, Or.inl ⟨hs, by simpa using hne⟩⟩
    · obtain ⟨tr1, htr1, hs1⟩ := ihb tr o1 h1
      obtain ⟨tr2, htr2, hs2⟩ := ihh o1.2 o h2
      have : o1.1 = .exc := by simpa using hexc
      rw [this] at hs1
      exact ⟨tr1 ++ tr2, by rw [htr1, htr2]; simp, Or.inr ⟨tr1, tr2, hs1, hs2, rfl⟩⟩

/-- **the acceptor is sound**: an accepted trace is the trace of a path -/
theorem dAccepts_sound (s : DStmt) (tr : List DEv) (e : Exit) (h : dAccepts s tr e = true) : dpaths s tr e := by
  unfold dAccepts at h
  obtain ⟨o, ho, hc⟩ := List.any_eq_true.1 h
  simp only [Bool.and_eq_true, beq_iff_eq, List.isEmpty_iff] at hc
  obtain ⟨tr1, htr, hs⟩ := dRun_sound s tr o ho
  rw [hc.2] at htr
  simp only [List.append_nil] at htr
  rw [htr, ← hc.1]
  exact hs

end SqVerif.SkelDyn

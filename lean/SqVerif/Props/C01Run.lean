import SqVerif.Props.C01
import SqVerif.Props.C02

/-!
# C01 (closing step): `run_refines` without the `wf_step` hypothesis

`SqVerif.C01.run_refines` (Props/C01.lean) takes preservation of `WF` by `step` as a
hypothesis, because the refinement development (VNetInert / VNetRefine*) and the
well-formedness development (VNetWF*, helper namespace `SqVerif.VNet.WFP`) were written
independently.  Here the hypothesis is discharged with `SqVerif.C02.wf_step`, and the
statement is given for every state reachable from `init caps`
(`SqVerif.C02.wf_reachable`).
-/

namespace SqVerif.C01
open SqVerif.VNet

/-- T01.2 `run_refines`, closed: along any program started in a well-formed state the views
of the distributed system are those of the ideal register (`run_refines` with its
`wf_step` hypothesis instantiated by C02). -/
theorem run_refines_reachable {s : Net} (hwf : WF s) (ops : List Op) :
    viewAt (run s ops).1 = idealRun s (viewAt s) ops :=
  run_refines SqVerif.C02.wf_step hwf ops

/-- the same for every state reachable from `init caps`: no hypothesis on the state is left
but reachability. -/
theorem run_refines_of_reach (caps : List (Nat × Nat)) {s : Net} (hr : Reach caps s) (ops : List Op) :
    viewAt (run s ops).1 = idealRun s (viewAt s) ops :=
  run_refines_reachable (SqVerif.C02.wf_reachable caps s hr) ops

/-- in particular for whole programs run from the initial state -/
theorem run_refines_init (caps : List (Nat × Nat)) (ops : List Op) :
    viewAt (run (init caps) ops).1 = idealRun (init caps) (viewAt (init caps)) ops :=
  run_refines_of_reach caps Reach.init ops

/-- the hypotheses are satisfiable on a non-trivial instance: `exState` (three nodes, seven
operations, see Props/C01.lean) is reachable, and the theorem applies to the program
consisting of the two-qubit gate that merges two remote registers followed by a measurement -/
example : Reach [(3, 5), (3, 5), (3, 5)] exState := SqVerif.C02.run_reachable _ exOps

example : viewAt (run exState [.gate2 4 5 .CNOT, .measure 3 false true]).1
    = idealRun exState (viewAt exState) [.gate2 4 5 .CNOT, .measure 3 false true] :=
  run_refines_of_reach _ (SqVerif.C02.run_reachable _ exOps) _

end SqVerif.C01

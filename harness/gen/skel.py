"""AST translator for C03/C04 (and the structural parts of C05/C06):
simulaqron/virtual_node/virtual.py + quantum.py  ->  lean/SqVerif/Gen/Skeleton.lean

For every method of `virtualNode`, `virtualQubit`, `simulatedQubit` that takes part in locking (directly, or
through a call of another method of its own class) and for the lock-free methods in EXTRA, a term of the
statement language `SqVerif.Skel.Stmt` is printed: lock operations on ROLES, calls, mutations, guards,
raises and the control structure around them.  Helper methods are inlined (`scope`), a self-recursive retry
becomes `loop … cont` -- provided the self-call is in tail position and passes every parameter through unchanged
(`exclude=exclude`); otherwise it is `opaque`.  `try … except <SomeError>` is `tryExcept` (an exception of the body
may pass uncaught), `try … except Exception` / a bare `except` is `tryCatch` (none does); a bare `raise` in a
handler re-raises (`raise .remote`).  Whatever the translator does not understand becomes `opaque "<why>"`, on
which every analysis of Skel.lean fails.  The translation is validated dynamically by harness/skeltrace.py (trace
acceptance against the real code).

Pure stdlib.  `generate(repo_root)` rewrites the Lean file only if its content changed."""
import ast
import os

SRC_VIRTUAL = "simulaqron/virtual_node/virtual.py"
SRC_QUANTUM = "simulaqron/virtual_node/quantum.py"
OUT = "SqVerif/Gen/Skeleton.lean"
CLASSES = (("virtualNode", SRC_VIRTUAL), ("virtualQubit", SRC_VIRTUAL), ("simulatedQubit", SRC_QUANTUM))
MAX_INLINE_DEPTH = 4

# lock-free methods that are translated as well (anchors of C03/C05)
EXTRA = {
    "virtualNode": ["remote_update_virtual_merge", "remote_transfer_qubit", "remote_get_register_del",
                    "remote_delete_register", "remote_new_register", "remote_add_register",
                    "local_merge_regs", "remote_merge_regs", "remote_merge_from", "_remove_sim_qubit",
                    "remote_remove_sim_qubit_num"],
    "virtualQubit": [],
    "simulatedQubit": [],
}
# Lean names of the methods of simulatedQubit (they would clash with nothing, but `lock` says little)
LEAN_PREFIX = {"virtualNode": "", "virtualQubit": "", "simulatedQubit": "sq_"}

# ---------------------------------------------------------------------------------------------------------
# expression -> role table (printed into the generated file)
# ---------------------------------------------------------------------------------------------------------
# node roles, by class, by expression text with a trailing `.root` removed
NODE_ROLES = {
    "virtualNode": {"self": "SELF", "self.myID": "SELF", "remoteNode": "RECV", "simNode": "OLD", "nb": "PEER",
                    "locked_node": "CUR", "oldSimNode": "OLD"},
    "virtualQubit": {"self.virtNode": "SELF", "local_node": "SELF", "curr_sim_node": "CUR",
                     "locked_node": "CUR", "node": "ALL"},
    "simulatedQubit": {},
}
# a local assigned from `self.get_connection(<name>)` is the node that name refers to
CONNECTION_ARG_ROLES = {"targetName": "RECV", "simNodeName": "OLD", "oldSimNodeName": "OLD"}
# names that denote qubit handles (virtualQubit objects); a parameter bound to a handle at an inlined call
# takes the caller's handle instead
HANDLES = {
    "virtualNode": {"qubit": "c", "q": "q"},
    "virtualQubit": {"self": "c", "target": "t", "qubit": "c"},
    "simulatedQubit": {},
}
# `<handle>.simNode` -> SIM h ; `<handle>.virtNode` -> SELF ; `<handle>.simQubit` -> the qubit object Q h at SIM h
# simulated-qubit objects, by class, by expression text
QREFS = {
    "virtualNode": {"newQubit": "NEW", "simQubit": "ARG", "delQubit": "ARG", "qubit": "ARG"},
    "virtualQubit": {},
    "simulatedQubit": {"self": "THIS"},
}
# `for q in self.simQubits: if q.register == <E>: q.lock()` : the register filter names the set
REG_FILTER = {"qubit.register": "REGARG", "delRegister": "REGDEL"}

# roles that are local variables (a captured node, the simulator of a loop variable): an equality test against
# a fixed role validates an alias
VAR_ROLES = {"CUR", "(SIM q)"}

LOGGER_ATTRS = {"_logger"}
PURE_FUNCS = {
    "len", "range", "set", "list", "dict", "str", "int", "float", "bool", "tuple", "enumerate", "reversed", "sorted",
    "isinstance", "getattr", "hasattr", "print", "min", "max", "sum", "any", "all", "repr", "type", "eval", "deque",
    "deferLater", "DeferredList", "simulatedQubit", "virtualQubit", "QubitNetQASM",
    "qutipEngine", "projectQEngine", "stabilizerEngine",
}
PURE_METHODS = {"keys", "values", "items", "get", "split", "decode", "encode", "join", "format", "copy", "count",
                "index", "isLocked", "startswith", "endswith"}
PURE_QUALIFIED = {"random.uniform", "random.random", "time.time"}
MUT_METHODS = {"append", "remove", "pop", "popleft", "appendleft", "clear", "extend", "insert", "sort", "reverse",
               "update", "add", "discard"}
ENGINE_METHODS = {"absorb", "absorb_parts", "remove_qubit", "make_fresh", "add_fresh_qubit", "get_register_RI",
                  "get_qubits_RI", "measure_qubit", "measure_qubit_inplace", "replace_qubit"}
REG_LOCK = {"lock_reg_qubits": "qlock", "_lock_reg_qubits": "qlock", "remote_lock_reg_qubits": "qlock",
            "unlock_reg_qubits": "qunlock", "_unlock_reg_qubits": "qunlock", "remote_unlock_reg_qubits": "qunlock"}
ERROR_KIND = {"noQubitError": "capacity", "virtNetError": "unknownNode", "quantumError": "other",
              "SimUnsupportedError": "other", "ValueError": "other"}
LOCK_CALL_NAMES = {"acquire", "release", "lock", "unlock", "get_global_lock", "release_global_lock",
                   "lock_reg_qubits", "unlock_reg_qubits"}

# ---------------------------------------------------------------------------------------------------------
# statement terms (python side): tuples
# ---------------------------------------------------------------------------------------------------------
EVENT_TAGS = {"acquire", "release", "qlock", "qunlock", "cancel", "alias", "requires", "call", "mut", "check",
              "raise", "opaque"}


def seq(items, note=None):
    out = []
    for it in items:
        if it is None or it[0] == "skip":
            continue
        if it[0] == "seq" and it[2] is None:
            out.extend(it[1])
        else:
            out.append(it)
    for i, it in enumerate(out):
        if it[0] in ("ret", "brk", "cont", "raise"):
            out = out[: i + 1]                  # the rest is unreachable
            break
    if not out:
        return ("skip",)
    if len(out) == 1 and note is None:
        return out[0]
    return ("seq", out, note)


def has_tag(s, tags):
    """does the term contain a node with one of the tags"""
    t = s[0]
    if t in tags:
        return True
    if t == "seq":
        return any(has_tag(x, tags) for x in s[1])
    if t == "ite":
        return has_tag(s[2], tags) or has_tag(s[3], tags)
    if t in ("loop", "scope"):
        return has_tag(s[1], tags)
    if t in ("tryFinally", "tryExcept", "tryCatch"):
        return has_tag(s[1], tags) or has_tag(s[2], tags)
    return False


def eventless(s):
    return not has_tag(s, EVENT_TAGS)


def can_raise(s):
    return has_tag(s, {"call", "raise", "opaque"})


def ite(cond, a, b):
    if a[0] == "skip" and b[0] == "skip":
        return ("skip",)
    return ("ite", cond, a, b)


def loop(body):
    if eventless(body) and not has_tag(body, {"ret", "setFlag"}):
        return ("skip",)
    return ("loop", body)


def scope(body, note):
    if eventless(body) and not has_tag(body, {"setFlag"}):
        return ("skip",)
    return ("scope", body, note)


def try_finally(body, fin):
    if fin[0] == "skip":
        return body
    if body[0] == "skip":
        return fin
    return ("tryFinally", body, fin)


def try_except(body, handler, catch_all=False):
    """`catch_all`: one of the handlers is `except Exception` / `except BaseException` / a bare `except`, so no
    exception of the body passes uncaught (`tryCatch`); otherwise it may (`tryExcept`)"""
    if not can_raise(body):
        return body
    return ("tryCatch" if catch_all else "tryExcept", body, handler)


CATCH_ALL_TYPES = {"Exception", "BaseException"}


def is_catch_all(handler):
    t = handler.type
    if t is None:
        return True
    if isinstance(t, ast.Name):
        return t.id in CATCH_ALL_TYPES
    if isinstance(t, ast.Tuple):
        return any(isinstance(e, ast.Name) and e.id in CATCH_ALL_TYPES for e in t.elts)
    return False


# ---------------------------------------------------------------------------------------------------------
# translator
# ---------------------------------------------------------------------------------------------------------
class Frame:
    def __init__(self, cls, fn, handles, ret_flag):
        self.cls, self.fn = cls, fn
        self.handles = dict(handles)      # name -> handle letter
        self.kinds = {}                   # local name -> ('reqs', role) | ('all', role, reqs) | ('timer',) | ('each', reqs)
        self.qsets = {}                   # loop variable -> qubit-set role (REGARG, …)
        self.cancelled = set()            # request tables cancelled on the current branch
        self.ret_flag = ret_flag          # flag id recording "the value returned is not None"
        self.recursive = False
        self.loop_depth = 0
        self.none_tested = set()
        self.local_role_src = {}
        self.local_roles = {}             # local name -> node role, bound by what the name was assigned from
        self.active_vars = set()          # locals holding the answer of `isActive` on a simulated qubit
        self.local_qrefs = {}             # local name -> (QRef, node role): `x = <handle>.simQubit` read under the lock
        self.consts = {}                  # local name -> 'None' | 'empty'  (known constant value)
        self.dyn_depth = 0                # > 0 inside a branch that is not taken for sure


class Translator:
    def __init__(self, classes):
        self.classes = classes            # class name -> {method name -> FunctionDef}
        self.role_uses = set()            # (class, expression text, role) actually used
        self.flag_names = {}
        self.frames = []
        self.notes = {}

    # ---- small helpers ------------------------------------------------------------------------------
    @property
    def fr(self):
        return self.frames[-1]

    def note(self, msg):
        self.notes.setdefault(msg, set()).add(self.top_name)

    def opaque(self, why):
        why = " ".join(str(why).split())[:70].replace('"', "'").replace("\\", "/")
        return ("opaque", why)

    @staticmethod
    def text(node):
        return ast.unparse(node)

    def strip_root(self, node):
        if isinstance(node, ast.Attribute) and node.attr == "root":
            return node.value, True
        return node, False

    def handle_of(self, node):
        if isinstance(node, ast.Name) and node.id in self.fr.handles:
            return self.fr.handles[node.id]
        return None

    def node_role(self, node):
        """role of an expression denoting a node (host object or its `.root`), or None"""
        node, _ = self.strip_root(node)
        txt = self.text(node)
        if isinstance(node, ast.Attribute) and node.attr in ("simNode", "virtNode"):
            h = self.handle_of(node.value)
            if h is not None:
                role = "SELF" if node.attr == "virtNode" else "(SIM %s)" % h
                self.role_uses.add((self.fr.cls, "<handle %s>.%s" % (h, node.attr), role))
                return role
        if isinstance(node, ast.Name) and node.id in self.fr.local_roles:
            role = self.fr.local_roles[node.id]
            self.role_uses.add((self.fr.cls, "%s (assigned from %s)" % (node.id, self.fr.local_role_src[node.id]), role))
            return role
        role = NODE_ROLES[self.fr.cls].get(txt)
        if role is not None:
            self.role_uses.add((self.fr.cls, txt, role))
        return role

    def qref(self, node):
        """(QRef, role of the node where the object lives) of an expression denoting a simulated qubit"""
        if isinstance(node, ast.Attribute) and node.attr == "simQubit":
            h = self.handle_of(node.value)
            if h is not None:
                self.role_uses.add((self.fr.cls, "<handle %s>.simQubit" % h, "(Q %s) at (SIM %s)" % (h, h)))
                return "(Q %s)" % h, "(SIM %s)" % h
        if isinstance(node, ast.Name) and node.id in self.fr.qsets:
            return self.fr.qsets[node.id], "SELF"
        if isinstance(node, ast.Name) and node.id in self.fr.local_qrefs:
            q, role = self.fr.local_qrefs[node.id]
            self.role_uses.add((self.fr.cls, "%s (assigned from <handle>.simQubit under the simulating node's lock)"
                                % node.id, "%s at %s" % (q, role)))
            return q, role
        txt = self.text(node)
        if self.handle_of(node) is None or self.fr.cls == "simulatedQubit":
            q = QREFS[self.fr.cls].get(txt)
            if q is not None:
                self.role_uses.add((self.fr.cls, txt, q))
                return q, "SELF"
        return None, None

    def flag(self, var):
        key = (self.top_name, var)
        if key not in self.flag_names:
            self.flag_names[key] = len([k for k in self.flag_names if k[0] == self.top_name])
        return self.flag_names[key]

    # ---- expressions --------------------------------------------------------------------------------
    def ev_expr(self, node, awaited=False):
        """events of evaluating an expression, in evaluation order -> list of terms"""
        if node is None:
            return []
        if isinstance(node, ast.Yield):
            return self.ev_expr(node.value, awaited=True)
        if isinstance(node, (ast.Lambda, ast.Constant, ast.Name)):
            return []
        if isinstance(node, (ast.YieldFrom, ast.Await, ast.NamedExpr, ast.GeneratorExp, ast.ListComp, ast.SetComp,
                             ast.DictComp)):
            inner = [n for n in ast.walk(node) if isinstance(n, ast.Call)]
            return [self.opaque("expression %s" % type(node).__name__)] if inner else []
        if isinstance(node, ast.Call):
            return self.ev_call(node, awaited)
        out = []
        for child in ast.iter_child_nodes(node):
            if isinstance(child, ast.expr):
                out += self.ev_expr(child)
            elif isinstance(child, (ast.keyword,)):
                out += self.ev_expr(child.value)
            elif isinstance(child, ast.FormattedValue):
                out += self.ev_expr(child.value)
        return out

    def ev_args(self, call, skip=0):
        out = []
        for a in call.args[skip:]:
            out += self.ev_expr(a.value if isinstance(a, ast.Starred) else a)
        for k in call.keywords:
            out += self.ev_expr(k.value)
        return out

    def ev_call_method(self, call, awaited):
        """call_method(obj, "name", *args)"""
        if len(call.args) < 2:
            return [self.opaque("call_method with < 2 arguments")]
        obj, mname = call.args[0], call.args[1]
        pre = self.ev_expr(obj) + self.ev_args(call, skip=2)
        if not awaited:
            return pre + [self.opaque("call_method(%s, …) is not awaited" % self.text(obj))]
        if not (isinstance(mname, ast.Constant) and isinstance(mname.value, str)):
            # the method name is computed: gates through `_single_gate(name)` / `_two_qubit_gate(name)`
            q, role = self.qref(obj)
            if q is not None:
                return pre + [("call", role, "<gate>", True)]
            return pre + [self.opaque("call_method(%s, <computed name>)" % self.text(obj))]
        m = mname.value
        q, qrole = self.qref(obj)
        role = self.node_role(obj) if q is None else None
        if q is not None:
            if m == "lock":
                return pre + [("qlock", q)]
            if m == "unlock":
                return pre + [("qunlock", q)]
            return pre + [("call", qrole, m, True)]
        if role is not None:
            if m == "get_global_lock":
                return pre + [("acquire", role, False)]
            if m == "release_global_lock":
                return pre + [("release", role)]
            if m in REG_LOCK:
                h = role[5] if role.startswith("(SIM ") else None
                if h is None:
                    return pre + [self.opaque("%s on %s: no handle" % (m, role))]
                return pre + [(REG_LOCK[m], "(REG %s)" % h)]
            return pre + [("call", role, m, False)]
        return pre + [self.opaque("call_method on %s: no role" % self.text(obj))]

    def ev_call(self, call, awaited):
        f = call.func
        # getattr(<qubit object>, name)(args): a gate on a locally simulated qubit
        if isinstance(f, ast.Call) and isinstance(f.func, ast.Name) and f.func.id == "getattr" and f.args:
            q, role = self.qref(f.args[0])
            pre = self.ev_args(call)
            if q is not None:
                return pre + [("call", role, "<gate>", True)]
            return pre + [self.opaque("getattr(%s, …)(…)" % self.text(f.args[0]))]
        if isinstance(f, ast.Name):
            if f.id == "call_method":
                return self.ev_call_method(call, awaited)
            if f.id == "reraise_remote_error":
                return self.ev_args(call) + [("raise", "remote")]
            if f.id in PURE_FUNCS or f.id.endswith("Error") or f.id.endswith("Exception"):
                return self.ev_args(call)
            return self.ev_args(call) + [self.opaque("call of %s" % f.id)]
        if not isinstance(f, ast.Attribute):
            return [self.opaque("call of %s" % self.text(f))]
        recv, name = f.value, f.attr
        rtxt = self.text(recv)
        pre = self.ev_expr(recv) + self.ev_args(call)
        # logging
        if isinstance(recv, ast.Attribute) and recv.attr in LOGGER_ATTRS:
            return self.ev_args(call)
        if name == "reraise_remote_error":
            return pre + [("raise", "remote")]
        # the DeferredLock itself
        if isinstance(recv, ast.Attribute) and recv.attr == "_lock" and name in ("acquire", "release"):
            owner = recv.value
            if self.fr.cls == "simulatedQubit" and self.text(owner) == "self":
                return pre + [("qlock" if name == "acquire" else "qunlock", "THIS")]
            if self.fr.cls == "virtualNode" and self.text(owner) == "self":
                if name == "acquire" and not awaited:
                    return pre + [self.opaque("self._lock.acquire() is not awaited")]
                return pre + [("acquire", "SELF", False) if name == "acquire" else ("release", "SELF")]
            return pre + [self.opaque("%s.%s()" % (rtxt, name))]
        # cancelling a lock race
        if name == "cancel" and isinstance(recv, ast.Name) and self.fr.kinds.get(recv.id, ("",))[0] == "all":
            _, role, reqs = self.fr.kinds[recv.id]
            self.fr.cancelled.add(reqs)
            return pre + [("cancel", role)]
        # lock / unlock of a simulated qubit object
        if name in ("lock", "unlock", "remote_lock", "remote_unlock"):
            if self.fr.cls == "simulatedQubit" and rtxt == "self":
                return pre + self.inline(self.fr.cls, name, call, awaited, None)
            q, _ = self.qref(recv)
            if q is not None:
                if name.endswith("unlock"):
                    return pre + [("qunlock", q)]
                if not awaited:
                    return pre + [self.opaque("%s.lock() is not awaited" % rtxt)]
                return pre + [("qlock", q)]
            return pre + [self.opaque("%s.%s(): no qubit role" % (rtxt, name))]
        # register-wide qubit locks on a node object
        if name in REG_LOCK and not (rtxt == "self" and name in self.classes.get(self.fr.cls, {})):
            role = self.node_role(recv)
            h = None
            if role and role.startswith("(SIM "):
                h = role[5]
            elif call.args:
                q, _ = self.qref(call.args[0])
                if q and q.startswith("(Q "):
                    h = q[3]
            if h is not None:
                return pre + [(REG_LOCK[name], "(REG %s)" % h)]
            return pre + [self.opaque("%s.%s(): no handle" % (rtxt, name))]
        # methods of the own class: inline
        if rtxt == "self" and name in self.classes.get(self.fr.cls, {}):
            return pre + self.inline(self.fr.cls, name, call, awaited, None)
        # methods of a handle (virtualQubit) called from the node
        h = self.handle_of(recv)
        if h is not None and name in self.classes.get("virtualQubit", {}) and self.fr.cls != "virtualQubit":
            return pre + self.inline("virtualQubit", name, call, awaited, h)
        if rtxt == "self" and name not in self.classes.get(self.fr.cls, {}) and not name.startswith("__") \
                and self.fr.cls in ("virtualNode", "virtualQubit"):
            # no such method on this class (pb.Root / pb.Referenceable define none of these names):
            # AttributeError at run time
            return pre + [("raise", "other", "AttributeError: %s has no method %s" % (self.fr.cls, name))]
        # a method of another node object, called directly (the object is local)
        base, is_root = self.strip_root(recv)
        if is_root:
            role = self.node_role(recv)
            if role is not None:
                if name in REG_LOCK:
                    return pre + [self.opaque("%s on %s" % (name, role))]
                short = name[len("remote_"):] if name.startswith("remote_") else name
                if short == "get_global_lock":
                    return pre + [("acquire", role, False)] if awaited else pre + [self.opaque("lock not awaited")]
                if short == "release_global_lock":
                    return pre + [("release", role)]
                return pre + [("call", role, short, False)]
            return pre + [self.opaque("call on %s: no role" % rtxt)]
        # engine calls on a local register object
        if name in ENGINE_METHODS:
            role = "SELF"
            if self.fr.cls == "virtualQubit":
                q, qrole = self.qref(recv.value if isinstance(recv, ast.Attribute) and recv.attr == "register" else recv)
                role = qrole or "SELF"
            return pre + [("call", role, name, True)]
        if name in MUT_METHODS:
            if isinstance(recv, ast.Name):
                return pre                          # a local container
            return pre + [("mut", "SELF", rtxt)]
        if name in PURE_METHODS or "%s.%s" % (rtxt, name) in PURE_QUALIFIED:
            return pre
        # remote_* getters of a local simulated qubit object
        q, qrole = self.qref(recv)
        if q is not None:
            short = name[len("remote_"):] if name.startswith("remote_") else name
            return pre + [("call", qrole, short, True)]
        return pre + [self.opaque("call of %s.%s" % (rtxt, name))]

    # ---- inlining ------------------------------------------------------------------------------------
    def is_generator(self, fn):
        return any(isinstance(n, (ast.Yield, ast.YieldFrom)) for n in ast.walk(fn))

    def inline(self, cls, name, call, awaited, recv_handle, ret_flag=None):
        fn = self.classes[cls][name]
        for fr in self.frames:
            if fr.cls == cls and fr.fn.name == name:
                # a self-recursive retry: the enclosing translation of `name` is a loop
                if fr is not self.frames[-1] and any(f2.loop_depth for f2 in self.frames[self.frames.index(fr):]):
                    return [self.opaque("recursive call of %s inside a loop" % name)]
                if self.fr.loop_depth:
                    return [self.opaque("recursive call of %s inside a loop" % name)]
                if fr is not self.frames[-1]:
                    return [self.opaque("mutual recursion through %s" % name)]
                changed = self.changed_params(fn, call)
                if changed:
                    # the retry runs with other arguments than this activation: it is not an iteration of the
                    # same loop (e.g. `exclude` dropped: the `in exclude` test is dead in the retry)
                    return [self.opaque("retry of %s does not pass %s through" % (name, ", ".join(changed)))]
                fr.recursive = True
                return [("cont",)]
        if len(self.frames) > MAX_INLINE_DEPTH:
            return [self.opaque("inline depth exceeded at %s" % name)]
        if self.is_generator(fn) and not awaited:
            return [self.opaque("%s() is not awaited" % name)]
        # parameter binding: a parameter that receives a handle names that handle
        handles = dict(HANDLES[cls])
        if cls == "virtualQubit":
            handles["self"] = recv_handle if recv_handle is not None else self.fr.handles.get("self", "c")
            if self.fr.cls == "virtualQubit" and recv_handle is None:
                handles["self"] = self.fr.handles.get("self", "c")
        params = [a.arg for a in fn.args.args][1:]
        for i, a in enumerate(call.args):
            if i < len(params):
                h = self.handle_of(a)
                if h is not None:
                    handles[params[i]] = h
                elif params[i] in handles and not isinstance(a, ast.Name):
                    handles.pop(params[i])
        for k in call.keywords:
            h = self.handle_of(k.value)
            if k.arg in params and h is not None:
                handles[k.arg] = h
        # parameters left at a default of None are known constants
        consts = {}
        defaults = fn.args.defaults
        allp = [a.arg for a in fn.args.args]
        given = set(params[: len(call.args)]) | {k.arg for k in call.keywords}
        for pname, d in zip(allp[len(allp) - len(defaults):], defaults):
            if pname not in given and isinstance(d, ast.Constant) and d.value is None:
                consts[pname] = "None"
        body = self.method_body(cls, fn, handles, ret_flag, consts)
        return [scope(body, "inlined %s.%s" % (cls, name))]

    @staticmethod
    def changed_params(fn, call):
        """parameters of `fn` (other than self) that a recursive call does not pass through unchanged
        (`p` positionally in its place or `p=p`); `*args` / `**kwargs` count as changed"""
        params = [a.arg for a in fn.args.args][1:] + [a.arg for a in fn.args.kwonlyargs]
        got = {}
        for i, a in enumerate(call.args):
            if isinstance(a, ast.Starred) or i >= len(fn.args.args) - 1:
                return ["*args"]
            got[fn.args.args[i + 1].arg] = a
        for k in call.keywords:
            if k.arg is None:
                return ["**kwargs"]
            got[k.arg] = k.value
        out = [p for p in params if not (isinstance(got.get(p), ast.Name) and got[p].id == p)]
        if fn.args.vararg or fn.args.kwarg:
            out.append("*args/**kwargs")
        return out

    def is_self_call(self, value):
        """`yield self.<the function being translated>(…)`"""
        v = value.value if isinstance(value, ast.Yield) else value
        return (isinstance(v, ast.Call) and isinstance(v.func, ast.Attribute) and self.text(v.func.value) == "self"
                and v.func.attr == self.fr.fn.name)

    def retry_not_tail(self, st, nxt):
        """a self-recursive retry becomes `cont`, which is right only when its result is what the caller returns:
        `x = yield self.f(…)` must be followed by `return x`, `yield self.f(…)` by `return` / the end"""
        if isinstance(st, ast.Assign) and self.is_self_call(st.value):
            ok = (len(st.targets) == 1 and isinstance(st.targets[0], ast.Name) and isinstance(nxt, ast.Return)
                  and isinstance(nxt.value, ast.Name) and nxt.value.id == st.targets[0].id)
            return not ok
        if isinstance(st, ast.Expr) and self.is_self_call(st.value):
            ok = nxt is None or (isinstance(nxt, ast.Return) and nxt.value is None)
            return not ok
        return False

    def method_body(self, cls, fn, handles, ret_flag, consts=None):
        fr = Frame(cls, fn, handles, ret_flag)
        fr.consts = dict(consts or {})
        # variables tested against None anywhere in this function
        for n in ast.walk(fn):
            if isinstance(n, ast.Compare) and isinstance(n.left, ast.Name) and len(n.ops) == 1 \
                    and isinstance(n.ops[0], (ast.Is, ast.IsNot)) and isinstance(n.comparators[0], ast.Constant) \
                    and n.comparators[0].value is None:
                fr.none_tested.add(n.left.id)
        self.frames.append(fr)
        try:
            body = self.block(fn.body)
            if ret_flag is not None:
                body = seq([body, ("setFlag", ret_flag, False)])
            if fr.recursive:
                body = ("loop", body)
        finally:
            self.frames.pop()
        return body

    # ---- statements ---------------------------------------------------------------------------------
    def block(self, stmts):
        out = []
        i = 0
        while i < len(stmts):
            st = stmts[i]
            race = self.race_of(st)
            if race is not None:
                nxt = stmts[i + 1] if i + 1 < len(stmts) else None
                out.append(self.tr_race(race, nxt))
                i += 2
                continue
            if self.retry_not_tail(st, stmts[i + 1] if i + 1 < len(stmts) else None):
                out.append(self.opaque("retry of %s is not in tail position" % self.fr.fn.name))
                i += 1
                continue
            out.append(self.tr_stmt(st))
            i += 1
        return seq(out)

    def branch(self, stmts, sure=False):
        """a branch body; `sure`: it is taken on every path (the test was decided statically)"""
        saved = set(self.fr.cancelled)
        if not sure:
            self.fr.dyn_depth += 1
        try:
            return self.block(stmts)
        finally:
            if not sure:
                self.fr.dyn_depth -= 1
                self.fr.cancelled = saved

    def static_test(self, test):
        """True / False when the test is decided by known constants, else None"""
        if isinstance(test, ast.Compare) and len(test.ops) == 1:
            op, l, r = test.ops[0], test.left, test.comparators[0]
            if isinstance(op, (ast.Is, ast.IsNot)) and isinstance(l, ast.Name) and isinstance(r, ast.Constant) \
                    and r.value is None and l.id in self.fr.consts:
                isnone = self.fr.consts[l.id] == "None"
                return isnone if isinstance(op, ast.Is) else not isnone
            if isinstance(op, (ast.In, ast.NotIn)) and isinstance(r, ast.Name) and self.fr.consts.get(r.id) == "empty":
                return isinstance(op, ast.NotIn)
        return None

    def race_of(self, st):
        """`yield DeferredList([<all requests>, <timer>], fireOnOneCallback=True, …)` -> (role, timer name)"""
        if not (isinstance(st, ast.Expr) and isinstance(st.value, ast.Yield) and isinstance(st.value.value, ast.Call)):
            return None
        c = st.value.value
        if not (isinstance(c.func, ast.Name) and c.func.id == "DeferredList" and c.args
                and isinstance(c.args[0], ast.List)):
            return None
        names = [e.id for e in c.args[0].elts if isinstance(e, ast.Name)]
        if len(names) != len(c.args[0].elts):
            return None
        alls = [n for n in names if self.fr.kinds.get(n, ("",))[0] == "all"]
        timers = [n for n in names if self.fr.kinds.get(n, ("",))[0] == "timer"]
        if len(alls) == 1 and len(timers) == 1 and len(names) == 2:
            first = any(k.arg == "fireOnOneCallback" and isinstance(k.value, ast.Constant) and k.value.value is True
                        for k in c.keywords)
            if first:
                return (self.fr.kinds[alls[0]][1], timers[0])
        return None

    def tr_race(self, race, nxt):
        role, timer = race
        ok = (isinstance(nxt, ast.If) and isinstance(nxt.test, ast.Attribute) and nxt.test.attr == "called"
              and isinstance(nxt.test.value, ast.Name) and nxt.test.value.id == timer)
        if not ok:
            return self.opaque("lock race not followed by `if %s.called`" % timer)
        part = "PART" if role == "ALL" else role
        then = seq([("acquire", part, True), self.branch(nxt.body)])
        els = seq([("acquire", role, True), self.branch(nxt.orelse)])
        return ("ite", ".timeout", then, els)

    def classify_test(self, test):
        """-> check kind of a guard test, or None"""
        txt = self.text(test)
        names = {n.id for n in ast.walk(test) if isinstance(n, ast.Name)}
        attrs = {n.attr for n in ast.walk(test) if isinstance(n, ast.Attribute)}
        if "active" in attrs and "simQubit" not in attrs:
            return "active"
        if names == {"active"} or (len(names) == 1 and names <= self.fr.active_vars and not attrs):
            return "simActive"
        if "maxQubits" in attrs and "virtQubits" in attrs:
            return "capacity"
        if "maxRegs" in attrs:
            return "regLimit"
        if "hostDict" in attrs:
            return "unknownNode"
        if "simQubits" in attrs and any(isinstance(n, ast.NotIn) for n in ast.walk(test)):
            return "notSimulated"
        if txt.replace(" ", "") in ("reg.simNode!=self.myID",):
            return "notLocal"
        if names & {"fNode", "tNode"}:
            return "inconsistent"
        if "sim_backend" in attrs:
            return "config"
        return None

    def tr_if(self, st):
        test = st.test
        pre = self.ev_expr(test)
        known = self.static_test(test)
        if known is not None:
            return seq(pre + [self.branch(st.body if known else st.orelse, sure=True)])
        # `x is None` / `x is not None` on a variable whose None-ness is tracked
        if isinstance(test, ast.Compare) and len(test.ops) == 1 and isinstance(test.left, ast.Name) \
                and isinstance(test.comparators[0], ast.Constant) and test.comparators[0].value is None \
                and isinstance(test.ops[0], (ast.Is, ast.IsNot)) and (self.top_name, test.left.id) in self.flag_names:
            i = self.flag_names[(self.top_name, test.left.id)]
            cond = ".isSet %d" % i if isinstance(test.ops[0], ast.IsNot) else ".notSet %d" % i
            return seq(pre + [ite(cond, self.branch(st.body), self.branch(st.orelse))])
        # `d.called` for each request of a cancelled race: true for a cancelled Deferred
        if isinstance(test, ast.Attribute) and test.attr == "called" and isinstance(test.value, ast.Name):
            k = self.fr.kinds.get(test.value.id)
            if k and k[0] == "each":
                if k[1] in self.fr.cancelled:
                    self.note("`%s.called` after `cancel()` is always true (a cancelled Deferred counts as "
                              "called): only the then-branch is kept" % test.value.id)
                    return seq(pre + [self.branch(st.body)])
                return seq(pre + [ite(".any", self.branch(st.body), self.branch(st.orelse))])
        # `if self._lock.locked: self._lock.release()`: "release if locked" — it is locked whenever the caller holds it
        if self.text(test) == "self._lock.locked" and not st.orelse:
            self.note("`if self._lock.locked:` guarding a release is kept as an unconditional release "
                      "(DeferredLock has no owner: it frees the lock whoever holds it)")
            return seq(pre + [self.branch(st.body)])
        # filter on the loop variable of a collapsed `for q in self.simQubits`
        if self.fr.qsets:
            names = {n.id for n in ast.walk(test) if isinstance(n, ast.Name)}
            if names & set(self.fr.qsets):
                return seq(pre + [self.branch(st.body), self.branch(st.orelse)])
        kind = self.classify_test(test)
        chk = [("check", kind)] if kind else []
        self.kind_stack.append(kind)
        try:
            then = self.branch(st.body)
            els = self.branch(st.orelse)
        finally:
            self.kind_stack.pop()
        # an equality test between the captured node CUR and another node role validates the alias
        if isinstance(test, ast.Compare) and len(test.ops) == 1 and isinstance(test.ops[0], (ast.Eq, ast.NotEq)):
            a, b = self.node_role(test.left), self.node_role(test.comparators[0])
            if a and b and (a in VAR_ROLES) != (b in VAR_ROLES):
                var, other = (a, b) if a in VAR_ROLES else (b, a)
                al = ("alias", var, other)
                if isinstance(test.ops[0], ast.Eq):
                    then = seq([al, then])
                else:
                    els = seq([al, els])
        return seq(pre + chk + [ite(".any", then, els)])

    def tr_for(self, st):
        it = st.iter
        pre = self.ev_expr(it)
        tnames = [n.id for n in ast.walk(st.target) if isinstance(n, ast.Name)]
        # for node, d in ds.items()
        if isinstance(it, ast.Call) and isinstance(it.func, ast.Attribute) and it.func.attr == "items" \
                and isinstance(it.func.value, ast.Name) and self.fr.kinds.get(it.func.value.id, ("",))[0] == "reqs" \
                and len(tnames) == 2:
            self.fr.kinds[tnames[1]] = ("each", it.func.value.id)
            return seq(pre + [self.block(st.body)], note="for each %s of %s" % (tnames[0], self.text(it)))
        # for node in <set of nodes>: the loop variable is a set role
        if len(tnames) == 1 and NODE_ROLES[self.fr.cls].get(tnames[0]) == "ALL":
            if not st.orelse:
                return seq(pre + [self.block(st.body)], note="for each %s of %s" % (tnames[0], self.text(it)))
        # for q in self.simQubits with lock operations on q
        base = it.args[0] if isinstance(it, ast.Call) and isinstance(it.func, ast.Name) and it.func.id == "reversed" \
            and it.args else it
        if self.fr.cls == "virtualNode" and self.text(base) == "self.simQubits" and len(tnames) == 1 \
                and self.loop_locks(st, tnames[0]):
            role = None
            for n in ast.walk(st):
                if isinstance(n, ast.Compare) and len(n.ops) == 1 and isinstance(n.ops[0], ast.Eq) \
                        and self.text(n.left) == "%s.register" % tnames[0]:
                    role = REG_FILTER.get(self.text(n.comparators[0]))
            if role is None:
                return self.opaque("lock loop over simQubits without a known register filter")
            self.role_uses.add(("virtualNode", "%s in self.simQubits if %s.register == …" % (tnames[0], tnames[0]), role))
            self.fr.qsets[tnames[0]] = role
            try:
                return seq(pre + [self.block(st.body)], note="for each %s of %s" % (tnames[0], role))
            finally:
                self.fr.qsets.pop(tnames[0])
        if st.orelse:
            return self.opaque("for … else")
        self.fr.loop_depth += 1
        try:
            body = self.branch(st.body)
        finally:
            self.fr.loop_depth -= 1
        return seq(pre + [loop(ite(".any", seq([body, ("cont",)]), ("skip",)))])

    def loop_locks(self, st, var):
        for n in ast.walk(st):
            if isinstance(n, ast.Call) and isinstance(n.func, ast.Attribute) and n.func.attr in ("lock", "unlock") \
                    and isinstance(n.func.value, ast.Name) and n.func.value.id == var:
                return True
        return False

    def tr_targets(self, targets):
        out = []
        for t in targets:
            if isinstance(t, (ast.Tuple, ast.List)):
                out += self.tr_targets(t.elts)
            elif isinstance(t, ast.Attribute):
                out.append(("mut", "SELF", self.text(t)))
            elif isinstance(t, ast.Subscript):
                if isinstance(t.value, ast.Name):
                    continue                      # a local container
                out.append(("mut", "SELF", self.text(t.value) + "[…]"))
            elif isinstance(t, ast.Starred):
                out += self.tr_targets([t.value])
        return out

    def tr_assign(self, st):
        targets = st.targets if isinstance(st, ast.Assign) else [st.target]
        value = st.value
        if value is None:
            return ("skip",)
        # pending lock requests: ds[node] = call_method(node.root, "get_global_lock")   (not awaited)
        if isinstance(value, ast.Call) and isinstance(value.func, ast.Name) and value.func.id == "call_method" \
                and len(value.args) == 2 and isinstance(value.args[1], ast.Constant) \
                and value.args[1].value == "get_global_lock" and len(targets) == 1 \
                and isinstance(targets[0], ast.Subscript) and isinstance(targets[0].value, ast.Name):
            role = self.node_role(value.args[0])
            if role is None:
                return self.opaque("lock request on %s: no role" % self.text(value.args[0]))
            self.fr.kinds[targets[0].value.id] = ("reqs", role)
            return ("skip",)
        if isinstance(value, ast.Call) and isinstance(value.func, ast.Name) and len(targets) == 1 \
                and isinstance(targets[0], ast.Name):
            if value.func.id == "DeferredList" and value.args:
                for n in ast.walk(value.args[0]):
                    if isinstance(n, ast.Call) and isinstance(n.func, ast.Attribute) and n.func.attr == "values" \
                            and isinstance(n.func.value, ast.Name) \
                            and self.fr.kinds.get(n.func.value.id, ("",))[0] == "reqs":
                        reqs = n.func.value.id
                        self.fr.kinds[targets[0].id] = ("all", self.fr.kinds[reqs][1], reqs)
                        return ("skip",)
            if value.func.id == "deferLater":
                self.fr.kinds[targets[0].id] = ("timer",)
                return seq(self.ev_args(value))
        # a local bound to a node by what it is assigned from (more robust than its name)
        if len(targets) == 1 and isinstance(targets[0], ast.Name):
            self.fr.local_roles.pop(targets[0].id, None)
            self.fr.local_qrefs.pop(targets[0].id, None)
            self.fr.active_vars.discard(targets[0].id)
            _c = value.value if isinstance(value, ast.Yield) else value
            if isinstance(_c, ast.Call) and isinstance(_c.func, ast.Name) and _c.func.id == "call_method" \
                    and len(_c.args) >= 2 and isinstance(_c.args[1], ast.Constant) and _c.args[1].value == "isActive":
                self.fr.active_vars.add(targets[0].id)
            inner = value.value if isinstance(value, ast.Yield) else value
            if isinstance(inner, ast.Call) and isinstance(inner.func, ast.Attribute):
                fname = inner.func.attr
                if fname == "get_connection" and self.text(inner.func.value) == "self" and len(inner.args) == 1 \
                        and isinstance(inner.args[0], ast.Name) and inner.args[0].id in CONNECTION_ARG_ROLES:
                    self.fr.local_roles[targets[0].id] = CONNECTION_ARG_ROLES[inner.args[0].id]
                    self.fr.local_role_src[targets[0].id] = "get_connection(%s)" % inner.args[0].id
                elif fname == "_lock_simulating_node":
                    self.fr.local_roles[targets[0].id] = "CUR"
                    self.fr.local_role_src[targets[0].id] = "_lock_simulating_node(…)"
            elif isinstance(inner, ast.Attribute) and inner.attr == "simQubit" and not isinstance(value, ast.Yield) \
                    and self.handle_of(inner.value) is not None \
                    and "_lock_simulating_node(…)" in self.fr.local_role_src.values():
                # `x = <handle>.simQubit` AFTER the simulating node was locked and re-validated in this method: the
                # local names the object the pointer names now.  (Read BEFORE the lock it stays unclassified: the
                # pointer may be re-pointed while waiting, and the obligation then fails, as it must.)
                h = self.handle_of(inner.value)
                self.fr.local_qrefs[targets[0].id] = ("(Q %s)" % h, "(SIM %s)" % h)
            elif isinstance(inner, ast.Attribute) and inner.attr == "simNode" and isinstance(inner.value, ast.Name) \
                    and inner.value.id in HANDLES.get(self.fr.cls, {}) and not isinstance(value, ast.Yield):
                # `x = <handle>.simNode`: the node the pointer names NOW, captured in a local (whatever it is called)
                self.fr.local_roles[targets[0].id] = "CUR"
                self.fr.local_role_src[targets[0].id] = "%s.simNode" % inner.value.id
        # x = yield self.helper(...): track whether the helper returned a value, if the caller tests it
        ev = None
        if isinstance(value, ast.Yield) and isinstance(value.value, ast.Call) and len(targets) == 1 \
                and isinstance(targets[0], ast.Name) and targets[0].id in self.fr.none_tested:
            c = value.value
            if isinstance(c.func, ast.Attribute):
                recv, name = c.func.value, c.func.attr
                cls, h = None, None
                if self.text(recv) == "self" and name in self.classes.get(self.fr.cls, {}):
                    cls = self.fr.cls
                elif self.handle_of(recv) is not None and name in self.classes.get("virtualQubit", {}):
                    cls, h = "virtualQubit", self.handle_of(recv)
                if cls is not None and self.mixed_returns(self.classes[cls][name]):
                    fl = self.flag(targets[0].id)
                    ev = self.ev_args(c) + self.inline(cls, name, c, True, h, ret_flag=fl)
        if ev is None:
            ev = self.ev_expr(value)
        for t in targets:
            for n in ast.walk(t):
                if isinstance(n, ast.Name):
                    self.fr.consts.pop(n.id, None)
                    if t is n and isinstance(st, ast.Assign) and not self.fr.dyn_depth and not self.fr.loop_depth:
                        if isinstance(value, ast.List) and not value.elts:
                            self.fr.consts[n.id] = "empty"
                        elif isinstance(value, ast.Constant) and value.value is None:
                            self.fr.consts[n.id] = "None"
        return seq(ev + self.tr_targets(targets))

    def mixed_returns(self, fn):
        rets = [n for n in ast.walk(fn) if isinstance(n, ast.Return)]
        none = [r for r in rets if r.value is None or (isinstance(r.value, ast.Constant) and r.value.value is None)]
        return bool(none) and len(none) < len(rets)

    def tr_assert(self, st):
        pre = self.ev_expr(st.test)
        t = st.test
        if self.fr.cls == "virtualNode" and self.text(t) == "self._lock.locked":
            return seq(pre + [("requires", "SELF")])
        out = pre + [("check", "assert")]
        if isinstance(t, ast.Compare) and len(t.ops) == 1 and isinstance(t.ops[0], ast.Eq):
            a, b = self.node_role(t.left), self.node_role(t.comparators[0])
            if a and b and (a in VAR_ROLES) != (b in VAR_ROLES):
                out.append(("alias", a, b) if a in VAR_ROLES else ("alias", b, a))
        return seq(out)

    def tr_stmt(self, st):
        if isinstance(st, ast.Expr):
            if isinstance(st.value, ast.Constant):
                return ("skip",)
            return seq(self.ev_expr(st.value))
        if isinstance(st, (ast.Assign, ast.AugAssign, ast.AnnAssign)):
            return self.tr_assign(st)
        if isinstance(st, ast.If):
            return self.tr_if(st)
        if isinstance(st, ast.For):
            return self.tr_for(st)
        if isinstance(st, ast.While):
            if st.orelse:
                return self.opaque("while … else")
            pre = self.ev_expr(st.test)
            self.fr.loop_depth += 1
            try:
                body = self.branch(st.body)
            finally:
                self.fr.loop_depth -= 1
            return loop(seq(pre + [ite(".any", seq([body, ("cont",)]), ("skip",))]))
        if isinstance(st, ast.Try):
            if st.orelse:
                return self.opaque("try … else")
            body = self.branch(st.body)
            if st.handlers:
                hs = ("skip",)
                for h in reversed(st.handlers):
                    hb = self.branch(h.body)
                    hs = hb if hs[0] == "skip" and h is st.handlers[-1] else ("ite", ".any", hb, hs)
                body = try_except(body, hs, any(is_catch_all(h) for h in st.handlers))
            if st.finalbody:
                body = try_finally(body, self.branch(st.finalbody))
            return body
        if isinstance(st, ast.Return):
            ev = self.ev_expr(st.value)
            fl = []
            if self.fr.ret_flag is not None:
                is_none = st.value is None or (isinstance(st.value, ast.Constant) and st.value.value is None)
                fl = [("setFlag", self.fr.ret_flag, not is_none)]
            return seq(ev + fl + [("ret",)])
        if isinstance(st, ast.Raise):
            ev = self.ev_expr(st.exc)
            kind = next((k for k in reversed(self.kind_stack) if k), None)
            cls = None
            if isinstance(st.exc, ast.Call) and isinstance(st.exc.func, ast.Name):
                cls = st.exc.func.id
            if st.exc is None:
                # bare `raise` in a handler: the caught exception goes on (not a refusal of this method's own)
                return ("raise", "remote", "re-raise of the caught exception")
            if kind is None:
                kind = ERROR_KIND.get(cls, "remote" if isinstance(st.exc, ast.Name) else "other")
            return seq(ev + [("raise", kind, cls)])
        if isinstance(st, ast.Assert):
            return self.tr_assert(st)
        if isinstance(st, ast.Pass):
            return ("skip",)
        if isinstance(st, ast.Break):
            return ("brk",)
        if isinstance(st, ast.Continue):
            return ("cont",)
        return self.opaque("statement %s" % type(st).__name__)

    # ---- a whole method -----------------------------------------------------------------------------
    def method(self, cls, name):
        fn = self.classes[cls][name]
        self.top_name = "%s.%s" % (cls, name)
        self.kind_stack = []
        handles = dict(HANDLES[cls])
        self.frames = []
        return self.method_body(cls, fn, handles, None)


# ---------------------------------------------------------------------------------------------------------
# which methods
# ---------------------------------------------------------------------------------------------------------
def _direct_lock_use(fn):
    for n in ast.walk(fn):
        if isinstance(n, ast.Call):
            f = n.func
            if isinstance(f, ast.Attribute) and f.attr in LOCK_CALL_NAMES | {"_lock_reg_qubits", "_unlock_reg_qubits"}:
                return True
            if isinstance(f, ast.Name) and f.id == "call_method" and len(n.args) >= 2 \
                    and isinstance(n.args[1], ast.Constant) and n.args[1].value in LOCK_CALL_NAMES:
                return True
    return False


def _self_calls(fn):
    out = set()
    for n in ast.walk(fn):
        if isinstance(n, ast.Call) and isinstance(n.func, ast.Attribute) and isinstance(n.func.value, ast.Name):
            out.add(n.func.attr)
    return out


def tracked_methods(classes):
    """lock-relevant methods (directly or through methods of the same class / of handles) + EXTRA"""
    rel = {c: {m for m, fn in ms.items() if _direct_lock_use(fn)} for c, ms in classes.items()}
    changed = True
    while changed:
        changed = False
        for c, ms in classes.items():
            for m, fn in ms.items():
                if m in rel[c]:
                    continue
                callees = _self_calls(fn)
                if callees & rel[c] or (c == "virtualNode" and callees & rel.get("virtualQubit", set())
                                        & {"_lock_simulating_node"}):
                    rel[c].add(m)
                    changed = True
    out = []
    for c, _src in CLASSES:
        ms = classes.get(c, {})
        names = [m for m in ms if m in rel[c] or m in EXTRA.get(c, [])]
        out += [(c, m) for m in names]          # source order
    return out


def parse_classes(repo_root):
    classes, lines = {}, {}
    for cname, src in CLASSES:
        path = os.path.join(repo_root, src)
        with open(path, encoding="utf-8") as f:
            tree = ast.parse(f.read())
        for node in tree.body:
            if isinstance(node, ast.ClassDef) and node.name == cname:
                classes[cname] = {f.name: f for f in node.body if isinstance(f, (ast.FunctionDef, ast.AsyncFunctionDef))}
    for cname, _ in CLASSES:
        classes.setdefault(cname, {})
    return classes


# ---------------------------------------------------------------------------------------------------------
# printing
# ---------------------------------------------------------------------------------------------------------
def lean_str(s):
    return '"' + s.replace("\\", "\\\\").replace('"', '\\"') + '"'


def lean_bool(b):
    return "true" if b else "false"


def render_term(s, ind):
    """-> list of lines; a note is a `--` comment line of its own in front of the term"""
    P = "  " * ind
    t = s[0]
    if t == "skip":
        return [P + "skip"]
    if t == "acquire":
        return [P + "acquire %s %s" % (s[1], lean_bool(s[2]))]
    if t in ("release", "qlock", "qunlock", "cancel", "requires"):
        return [P + "%s %s" % (t, s[1])]
    if t == "alias":
        return [P + "alias %s %s" % (s[1], s[2])]
    if t == "call":
        return [P + "call %s %s %s" % (s[1], lean_str(s[2]), lean_bool(s[3]))]
    if t == "mut":
        return [P + "mutate %s %s" % (s[1], lean_str(s[2]))]
    if t == "check":
        return [P + "check .%s" % s[1]]
    if t == "raise":
        note = [P + "-- %s" % s[2]] if len(s) > 2 and s[2] else []
        return note + [P + "raise .%s" % s[1]]
    if t in ("ret", "brk", "cont"):
        return [P + t]
    if t == "setFlag":
        return [P + "setFlag %d %s" % (s[1], lean_bool(s[2]))]
    if t == "opaque":
        return [P + "Stmt.opaque %s" % lean_str(s[1])]
    if t == "seq":
        out = [P + "-- " + s[2]] if s[2] else []
        out.append(P + "block [")
        for i, x in enumerate(s[1]):
            sub = render_term(x, ind + 1)
            if i + 1 < len(s[1]):
                sub = add_comma(sub)
            out += sub
        out.append(P + "]")
        return out
    if t == "ite":
        return [P + "Stmt.ite %s" % (s[1] if " " not in s[1] else "(%s)" % s[1])] + paren(render_term(s[2], ind + 1)) + paren(render_term(s[3], ind + 1))
    if t == "loop":
        return [P + "loop"] + paren(render_term(s[1], ind + 1))
    if t == "scope":
        return [P + "-- " + s[2], P + "scope"] + paren(render_term(s[1], ind + 1))
    if t in ("tryFinally", "tryExcept", "tryCatch"):
        return [P + t] + paren(render_term(s[1], ind + 1)) + paren(render_term(s[2], ind + 1))
    raise ValueError(t)


def _is_comment(line):
    return line.lstrip().startswith("--")


def add_comma(lines):
    lines = list(lines)
    last = max(i for i, l in enumerate(lines) if not _is_comment(l))
    lines[last] += ","
    return lines


def paren(lines):
    lines = list(lines)
    code = [i for i, l in enumerate(lines) if not _is_comment(l)]
    first, last = code[0], code[-1]
    stripped = lines[first].lstrip()
    lines[first] = lines[first][: len(lines[first]) - len(stripped)] + "(" + stripped
    lines[last] += ")"
    return lines


def render(tab):
    L = []
    w = L.append
    w("/- GENERATED on every run by harness/gen/skel.py from %s and %s — do not edit." % (SRC_VIRTUAL, SRC_QUANTUM))
    w("   Lock/effect skeletons of the methods that take part in locking; the obligations over them are in")
    w("   Props/C04Skel.lean and Props/C03Skel.lean.")
    w("")
    w("   expression -> role table used (class: expression => role):")
    for cls, txt, role in sorted(tab["roles"]):
        w("     %s: %s => %s" % (cls, txt, role))
    if tab["flags"]:
        w("   flags (method: local variable whose None-ness is tracked => flag number):")
        for (m, v), i in sorted(tab["flags"].items()):
            w("     %s: %s => %d" % (m, v, i))
    if tab["notes"]:
        w("   notes:")
        for n in tab["notes"]:
            w("     " + n)
    w("-/")
    w("import SqVerif.Skel")
    w("namespace SqVerif.Gen")
    w("open SqVerif.Skel SqVerif.Skel.Role SqVerif.Skel.Handle SqVerif.Skel.QRef")
    w("open SqVerif.Skel.Stmt hiding ite")
    w("")
    for m in tab["methods"]:
        w("/-- `%s.%s` -/" % (m["cls"], m["name"]))
        w("def %s : Stmt :=" % m["lean"])
        L.extend(render_term(m["term"], 1))
        w("")
    w("/-- every translated method, by Lean name -/")
    w("def allMethods : Table := [")
    w(",\n".join('  (%s, %s)' % (lean_str(m["lean"]), m["lean"]) for m in tab["methods"]))
    w("]")
    w("")
    w("/-- methods of `virtualQubit` (they run on a handle) -/")
    w("def handleMethods : List String := [%s]" % ", ".join(lean_str(m["lean"]) for m in tab["methods"]
                                                             if m["cls"] == "virtualQubit"))
    w("")
    w("end SqVerif.Gen")
    return "\n".join(L) + "\n"


# ---------------------------------------------------------------------------------------------------------
# entry points
# ---------------------------------------------------------------------------------------------------------
def extract(repo_root):
    classes = parse_classes(repo_root)
    tr = Translator(classes)
    methods = []
    for cls, name in tracked_methods(classes):
        term = tr.method(cls, name)
        methods.append({"cls": cls, "name": name, "lean": LEAN_PREFIX[cls] + name, "term": term,
                        "line": classes[cls][name].lineno})
    return {"methods": methods, "roles": tr.role_uses, "flags": tr.flag_names,
            "notes": ["%s   [in: %s]" % (msg, ", ".join(sorted(ms))) for msg, ms in sorted(tr.notes.items())]}


def opaque_list(tab):
    out = []

    def walk(s, acc):
        if s[0] == "opaque":
            acc.append(s[1])
        elif s[0] == "seq":
            for x in s[1]:
                walk(x, acc)
        elif s[0] == "ite":
            walk(s[2], acc), walk(s[3], acc)
        elif s[0] in ("loop", "scope"):
            walk(s[1], acc)
        elif s[0] in ("tryFinally", "tryExcept", "tryCatch"):
            walk(s[1], acc), walk(s[2], acc)

    for m in tab["methods"]:
        acc = []
        walk(m["term"], acc)
        for why in acc:
            out.append("%s: %s" % (m["lean"], why))
    return out


def generate(repo_root=None, lean_dir=None):
    repo_root = repo_root or os.environ.get("VERIF_REPO", "/repo")
    lean_dir = lean_dir or os.path.join(os.path.dirname(os.path.dirname(os.path.dirname(os.path.abspath(__file__)))),
                                        "lean")
    tab = extract(repo_root)
    text = render(tab)
    path = os.path.join(lean_dir, OUT)
    old = None
    if os.path.exists(path):
        with open(path, encoding="utf-8") as f:
            old = f.read()
    if old != text:
        os.makedirs(os.path.dirname(path), exist_ok=True)
        tmp = path + ".tmp"
        with open(tmp, "w", encoding="utf-8") as f:
            f.write(text)
        os.replace(tmp, path)
    names = [m["lean"] for m in tab["methods"]]
    return {"obligations": obligations(lean_dir), "methods": names, "opaque": opaque_list(tab),
            "file": OUT, "changed": old != text}


PROPS_FILES = ("SqVerif/Props/C04Skel.lean", "SqVerif/Props/C03Skel.lean")


def obligations(lean_dir):
    """number of `decide`d theorems in Props/C04Skel.lean + Props/C03Skel.lean that mention the generated file"""
    import re
    n = 0
    for rel in PROPS_FILES:
        path = os.path.join(lean_dir, rel)
        if not os.path.exists(path):
            continue
        with open(path, encoding="utf-8") as f:
            text = f.read()
        for blk in re.split(r"(?m)^(?=theorem |example |def |/--|/-!|end )", text):
            if blk.startswith("theorem ") and "decide" in blk and re.search(r"\bGen\.|allMethods|\bneeds\b", blk):
                n += 1
    return n


if __name__ == "__main__":
    import json
    import sys
    root = sys.argv[1] if len(sys.argv) > 1 else None
    info = generate(root)
    print(json.dumps(info, indent=1))

"""C10 — framing of byte streams and reply routing.

Three real receivers are run in-process and tied to the Lean model `Framing`
(driver `framing`):

* server : the real `NetQASMProtocol` / `NetQASMFactory` / `SubroutineHandler`
           (twisted reactor replaced by a MemoryReactorClock before import),
           1-3 simultaneous host connections on `StringTransport`s, host
           messages built with netqasm and fed to `dataReceived` in every
           cutting of short streams and random cuttings/interleavings of longer
           ones; handlers that need a qubit are suspended on a stub virtual
           node and completed by the harness between other connections' reads;
* client : the real `SimulaQronConnection._handle_reply` on an instance built
           without a network, its socket a scripted object releasing the reply
           bytes in adversarial prefixes;
* socket : the real `Socket.send/recv/send_structured/recv_structured` over a
           scripted wire (adversarial prefixes) and over `socket.socketpair()`,
           message sizes 1 B .. 64 KiB, several sends before the first receive.

Oracle (independent of the Lean model): the message list itself — handled once,
in order, as soon as complete, payload intact; exactly the replies of each
message (its returned register, then one Done with its id) on the transport of
the connection it arrived on, in completion order; the sequence of values
returned by recv = the sequence of values sent.

A fourth stream (part `servererr`, model `FramingErr`, driver `framingerr`)
feeds the same real server messages whose handling FAILS — inside the executor
(an instruction raises: answered Error + Done by the executioner), outside it
(StopApp of an application that is not open, an unknown signal, a subroutine
that cannot be deserialised: errback `log_error`), synchronously or after the
handler was suspended on the backend — mixed with succeeding messages on 1-3
connections, and connections whose stream turns into bytes that are not a
message (unknown type byte, truncated structure, header length too small / too
large / too short for the payload).  Oracle: every complete message, failing
or not, is handled once and gets exactly its replies ([returned registers],
Error iff its handling raised, one Done with its id) on its own connection, in
completion order; the node is not stopped by a failing message; the
well-formed traffic of the other connections is unaffected by a connection
that fails.  What happens to the bytes behind a frame that is not a message is
compared with the model only (the property gives no guarantee there).

Deferred completion (gen_server_defer_cases, same part / executor / oracle / driver): k >= 2 complete messages in
ONE read, any subset of them failing, each at once or LATER — the type handler of such a message is played by
the harness (it suspends on a Deferred the harness holds and fires, with a result or a failure, after the read
has gone on or returned, in any order relative to the other suspended handlers and the later reads); everything
around it is the real code (handle_netqasm_message, _handle_message, _mark_message_finished, the callbacks
dataReceived attaches, log_error, _return_msg).  Every 2- and 3-message read x every outcome x every firing
order; the same through the real handlers (StopApp of an application holding a qubit, further messages behind it
in the same read, the backend refuses the measurement later).  The completion order is an input of the Lean
driver too (events K<i>/Y<i>), so these cases are tied as well.

A fifth stream (part `sockpoll`, ORACLE ONLY: the `sock` line protocol has no partial arrival) drives the real
`Socket.recv/recv_structured(block=False)` while a message has only partly arrived: every split point (and pairs)
of streams of 1-3 messages, polls before / between / after the parts, random larger streams over a scripted wire
and a real non-blocking socketpair.  Oracle: a poll that finds no complete message raises BlockingIOError, the
messages eventually returned are exactly the messages sent, in order."""
import itertools
import json
import logging
import socket as pysocket
import sys

from .. import core

LEAN_TARGETS = ["SqVerif.Props.C10", "SqVerif.Props.C10Err"]
PROPS_FILE = ["SqVerif/Props/C10.lean", "SqVerif/Props/C10Err.lean"]
DRIVE_TARGETS = ["SqVerif.Drive.Framing", "SqVerif.Drive.FramingErr"]
TRUSTED = [
    "model Framing.lean hand-written from factory.py dataReceived/_parse_message, qnodeos.py _return_msg, "
    "connection.py _handle_reply, socket.py _send_raw/_recv_raw; tied by differential execution (this check)",
    "netqasm 2.3.0 message classes: (de)serialisers executed, ctypes sizes read at run time and handed to the model",
    "twisted MemoryReactorClock/StringTransport stand in for the reactor and TCP transports; a dataReceived call = one read",
    "stub virtual node (new_qubit returns a Deferred the harness fires): stands for a handler suspended on the backend",
    "utf-8 / pickle codecs of the classical socket (payload bytes are compared before decoding and after)",
    "model FramingErr.lean hand-written from factory.py dataReceived/log_error, executioner.py "
    "_handle_command_exception, netqasm QNodeController._handle_message; tied by differential execution (part servererr)",
    "how a handler ends (returns / raises inside the executor / raises outside it) is an input of the framing model: "
    "planned by the generator for judged messages, observed on the real run for frames cut out of garbage",
    "an exception leaving dataReceived = twisted drops that connection (the harness stops feeding it)",
    "deferred completion: the type handler (`_message_handlers[type]`) of a message of kind `scripted` is a generator "
    "of the harness that yields a harness-held Deferred and/or raises; the code from dataReceived down to it and back "
    "(inlineCallbacks wrapper, _handle_message, _mark_message_finished, callbacks/errbacks, log_error) is the real one",
    "sockpoll: PollEnd stands for a TCP socket (BlockingIOError on an empty non-blocking read); cross-checked on a real "
    "non-blocking socketpair; no Lean tie for this part",
]
ASSUMPTIONS = [
    "message ids and lengths fit the u32 header fields; a host message is at most 4 GiB",
    "a read from a socket with unread bytes returns at least one byte (TCP); reads on an empty stream block",
    "both ends of an application socket run the same SimulaQron Socket class",
    "order of completion of suspended handlers is the backend's (C03/C09); C10 only asks where and how often replies go",
    "bytes that are not a host message (bad length field, unknown type, truncated structure) carry no guarantee for "
    "that connection from the first such byte on; messages complete before it, and all other connections, do",
    "messages sent after a STOP signal on the same node are outside the property (the node is shutting down)",
]


class Blocked(Exception):
    """a scripted recv on an empty wire (the real call would block)"""


def hx(b):
    return b.hex() if b else "-"


def digest(b):
    if len(b) <= 48:
        return hx(b)
    a, w = 0, 0
    for i, x in enumerate(b):
        a = (a + x) % 65521
        w = (w + (i + 1) * x) % 65521
    return "#%d:%d:%d" % (len(b), a, w)


def csv(l):
    return ",".join(str(x) for x in l) if l else "-"


def granted(maxsize, avail, choice):
    """what one recv(maxsize) returns (mirrors nothing: it IS the scripted adversary)"""
    c = maxsize if choice is None else min(choice, maxsize)
    return max(1, min(c, avail))


# ----------------------------------------------------------------------------
# environment: real classes, imported once
# ----------------------------------------------------------------------------

class Env:
    def __init__(self):
        core.scratch_repo()
        import twisted.internet
        from twisted.internet.testing import MemoryReactorClock, StringTransport
        self.reactor = MemoryReactorClock()
        sys.modules["twisted.internet.reactor"] = self.reactor
        twisted.internet.reactor = self.reactor
        logging.disable(logging.CRITICAL)
        from twisted.internet.defer import Deferred
        from twisted.python.failure import Failure
        from twisted.python import log as tlog
        tlog.startLoggingWithObserver(lambda ev: None, setStdout=False)   # failures of broken code go to the oracle
        from netqasm.backend import messages as M
        from netqasm.lang.parsing.text import parse_text_subroutine
        from netqasm.lang.encoding import OptionalInt, Register
        from netqasm.lang.parsing import deserialize as deserialize_subroutine
        from netqasm.sdk.shared_memory import SharedMemoryManager
        from simulaqron.netqasm_backend.factory import NetQASMFactory
        from simulaqron.netqasm_backend.qnodeos import SubroutineHandler
        import simulaqron.sdk.connection as conn_mod
        import simulaqron.sdk.socket as sock_mod
        import ctypes
        self.M, self.Deferred, self.StringTransport = M, Deferred, StringTransport
        self.Failure, self.deserialize_subroutine = Failure, deserialize_subroutine
        self.parse_sub, self.SharedMemoryManager = parse_text_subroutine, SharedMemoryManager
        self.NetQASMFactory, self.SubroutineHandler = NetQASMFactory, SubroutineHandler
        self.conn_mod, self.sock_mod, self.Register = conn_mod, sock_mod, Register

        class NoSleep:          # `time.sleep(0.1)` per incomplete read in _handle_reply
            @staticmethod
            def sleep(_):
                pass
        conn_mod.time = NoSleep

        class Quiet:            # factory.log_error writes the failure of a broken handler to stderr
            class stderr:
                @staticmethod
                def write(_):
                    pass
        import simulaqron.netqasm_backend.factory as factory_mod
        factory_mod.sys = Quiet
        self.factory_mod = factory_mod
        # the payload bytes `_parse_message` cut out for the deserialiser (part servererr: frames cut out of garbage)
        self.last_raw = [None]
        real_deser = factory_mod.deserialize_host_msg

        def recording_deser(raw):
            self.last_raw[0] = bytes(raw)
            return real_deser(raw)
        factory_mod.deserialize_host_msg = recording_deser
        # ctypes sizes handed to the model
        self.min_sizes = [len(bytes(M.InitNewAppMessage())), len(bytes(M.OpenEPRSocketMessage())), 1,
                          len(bytes(M.StopAppMessage())), len(bytes(M.SignalMessage()))]
        self.ret_sizes = [len(bytes(M.MsgDoneMessage())), len(bytes(M.ErrorMessage(M.ErrorCode.GENERAL))),
                          len(bytes(M.ReturnRegMessage(Register(), 0))), 1 + M.ReturnArrayMessageHeader.len(),
                          1 + M.ReturnArrayMessageHeader.length.offset, ctypes.sizeof(OptionalInt),
                          M.MsgDoneMessage.msg_id.offset]
        self.hdr = M.MessageHeader.len()

    def frame(self, mid, payload):
        return bytes(self.M.MessageHeader(id=mid, length=self.hdr + len(payload))) + payload

    def sub(self, app, value, qalloc=None):
        txt = "# NETQASM 1.0\n# APPID %d\n" % app
        if qalloc is not None:
            txt += "set Q0 %d\nqalloc Q0\n" % qalloc
        txt += "set R0 %d\nret_reg R0\n" % value
        return bytes(self.M.SubroutineMessage(self.parse_sub(txt)))

    def parse_returns(self, b):
        out = []
        while b:
            try:
                m = self.M.deserialize_return_msg(b)
            except ValueError:
                out.append(("garbage", hx(b)))
                break
            b = b[len(m):]
            if isinstance(m, self.M.MsgDoneMessage):
                out.append(("done", m.msg_id))
            elif isinstance(m, self.M.ReturnRegMessage):
                out.append(("reg", m.value))
            else:
                out.append((type(m).__name__,))
        return out


# ----------------------------------------------------------------------------
# server
# ----------------------------------------------------------------------------

def gen_conn_msgs(env, rng, app, n, allow_async, with_signal=False):
    """n host messages of one application (= one connection): init first, then a mix"""
    M = env.M
    mid = rng.choice([0, 0, 1, 3, rng.randrange(2 ** 32 - n - 2)])
    msgs, nq = [], 0
    for i in range(n):
        r = rng.random()
        ret, is_async = None, False
        if i == 0:
            payload = bytes(M.InitNewAppMessage(app_id=app, max_qubits=5))
        elif i == n - 1 and n > 2 and r < 0.3 and nq == 0:
            payload = bytes(M.SignalMessage()) if with_signal else bytes(M.StopAppMessage(app_id=app))
        elif r < 0.45:
            ret = 1000 * (app + 1) + i
            payload = env.sub(app, ret)
        elif r < 0.6 and allow_async and nq < 5:
            ret, is_async = 1000 * (app + 1) + i, True
            payload = env.sub(app, ret, qalloc=nq)
            nq += 1
        else:
            payload = bytes(M.OpenEPRSocketMessage(app, rng.randrange(8), rng.randrange(3), rng.randrange(8), 100))
        msgs.append({"id": mid, "payload": payload.hex(), "async": is_async, "ret": ret})
        mid += 1
    return msgs


def stream_of(env, msgs):
    return b"".join(env.frame(m["id"], bytes.fromhex(m["payload"])) for m in msgs)


def cut(stream, cuts):
    pts = [0] + sorted(cuts) + [len(stream)]
    return [stream[a:b] for a, b in zip(pts, pts[1:])]


def random_cuts(rng, n):
    style = rng.random()
    if style < 0.15:
        return []
    if style < 0.3:
        return list(range(1, n))                      # one byte per read
    k = rng.randint(1, max(1, min(n - 1, rng.choice([1, 2, 3, 6, 12]))))
    return sorted(rng.sample(range(1, n), k)) if n > 1 else []


def exec_server(env, case):
    """run the events on the real classes; returns (observation dict, oracle complaints)"""
    M = env.M
    conns = case["conns"]
    env.SharedMemoryManager.reset_memories()
    log = []                  # (connection being fed, msg id, bytes(msg))  — every handle_netqasm_message call
    feeding = [None]

    class Host:
        name, ip, port = "Alice", "localhost", 8001

    class QNet:
        hostDict = {"Alice": Host}

    class RecHandler(env.SubroutineHandler):
        def handle_netqasm_message(self, msg_id, msg):
            log.append((feeding[0], msg_id, bytes(msg)))
            return super().handle_netqasm_message(msg_id=msg_id, msg=msg)

    class Root:
        def __init__(self):
            self.waiting = []

        def remote_new_qubit(self):
            d = env.Deferred()
            self.waiting.append(d)
            return d

    class Virt:
        def remote_get_virt_num(self):
            return 0

        def remote_measure(self, inplace=True):
            return 0

    factory = env.NetQASMFactory(Host, "Alice", QNet, RecHandler)
    root = Root()
    factory.set_virtual_node(root)
    protos, transports, failed, delivered = [], [], [], []
    expected = []             # per connection: the replies its transport must hold (oracle)
    started_async = []        # (conn, msg) in order of start
    complaints = []

    def complete_count(c):
        n, off = 0, 0
        for m in conns[c]:
            off += env.hdr + len(m["payload"]) // 2
            if off <= delivered[c]:
                n += 1
        return n

    def complain(kind, detail):
        if not any(k == kind for k, _ in complaints):
            complaints.append((kind, detail))

    def replies(m):
        return ([("reg", m["ret"])] if m["ret"] is not None else []) + [("done", m["id"])]

    for ev in case["events"]:
        if ev[0] == "C":
            p = factory.buildProtocol(None)
            t = env.StringTransport()
            p.makeConnection(t)
            protos.append(p), transports.append(t), failed.append(False), delivered.append(0), expected.append([])
        elif ev[0] == "D":
            c, chunk = ev[1], bytes.fromhex(ev[2])
            if failed[c]:
                continue                       # twisted has dropped the connection
            before = complete_count(c)
            delivered[c] += len(chunk)
            feeding[0] = c
            try:
                protos[c].dataReceived(chunk)
            except Exception as e:             # the deserialiser raised: twisted would drop the connection
                failed[c] = type(e).__name__
            feeding[0] = None
            if not case.get("malformed"):
                for m in conns[c][before:complete_count(c)]:
                    if m["async"]:
                        started_async.append((c, m))
                    else:
                        expected[c].extend(replies(m))
                # promptness + order + intactness: judged after every read
                want = [(m["id"], m["payload"]) for m in conns[c][:complete_count(c)]]
                got = [(i, b.hex()) for (cc, i, b) in log if cc == c]
                if got != want:
                    if [g[0] for g in got] == [w[0] for w in want]:
                        complain("payload", "connection %d: a handled message is not the bytes that were sent" % c)
                    elif len(got) < len(want):
                        complain("handled", "connection %d: %d complete messages arrived, %d handled (ids %s of %s)" % (
                            c, len(want), len(got), [g[0] for g in got], [w[0] for w in want]))
                    else:
                        complain("handled", "connection %d: handled ids %s, complete messages %s" % (
                            c, [g[0] for g in got], [w[0] for w in want]))
        elif ev[0] == "K":
            if root.waiting:
                root.waiting.pop(0).callback(Virt())
            if started_async:
                c, m = started_async.pop(0)
                expected[c].extend(replies(m))
    obs = {"conns": [], "pending": len(started_async) if not case.get("malformed") else None}
    for c in range(len(protos)):
        rets = env.parse_returns(transports[c].value())
        obs["conns"].append({
            "handled": [(i, b.hex()) for (cc, i, b) in log if cc == c],
            "dones": [r[1] for r in rets if r[0] == "done"],
            "rest": len(protos[c].buf or b""),
            "failed": bool(failed[c]),
        })
        if not case.get("malformed") and rets != expected[c]:
            mine = list(expected[c])
            foreign = []
            for r in rets:
                if r in mine:
                    mine.remove(r)
                else:
                    foreign.append(r)
            elsewhere = [r for r in foreign if any(r in expected[o] for o in range(len(protos)) if o != c)]
            if not foreign and not mine:
                complain("order", "connection %d: replies %s, expected order %s" % (c, rets, expected[c]))
            elif elsewhere:
                complain("route", "connection %d holds replies %s; %s answer messages of another connection, "
                                  "its own messages call for %s" % (c, rets, elsewhere, expected[c]))
            else:
                complain("replies", "connection %d holds replies %s, its messages call for %s" % (c, rets, expected[c]))
        if not case.get("malformed") and failed[c]:
            complain("raised", "connection %d: dataReceived raised %s on well-formed input" % (c, failed[c]))
    return obs, complaints


def server_lines(env, case):
    """model query + the implementation's observation in the same canonical form"""
    conns = case["conns"]
    single = len(conns) == 1 and not any(m["async"] for m in conns[0])

    def fmt(obs):
        if single:
            o = obs["conns"][0]
            return " ".join("%d:%s" % (i, hx(bytes.fromhex(p))) for i, p in o["handled"]) + \
                (" | rest=- err=1" if o["failed"] else " | rest=%d err=0" % o["rest"])
        parts = ["c%d h=%s d=%s %s" % (c, csv([i for i, _ in o["handled"]]), csv(o["dones"]),
                                      "rest=- f=1" if o["failed"] else "rest=%d f=0" % o["rest"])
                 for c, o in enumerate(obs["conns"])]
        return " ; ".join(parts + ["pending=%d" % (obs["pending"] or 0)])

    if single:
        line = "srv %s | %s" % (csv(env.min_sizes), " ".join(hx(bytes.fromhex(e[2])) for e in case["events"] if e[0] == "D"))
    else:
        asyncs = [env.frame(m["id"], bytes.fromhex(m["payload"])).hex() for ms in conns for m in ms if m["async"]]
        evs = []
        for e in case["events"]:
            evs.append("C" if e[0] == "C" else "K0" if e[0] == "K" else "D%d:%s" % (e[1], hx(bytes.fromhex(e[2]))))
        line = "net %s | %s | %s" % (csv(env.min_sizes), " ".join(asyncs), " ".join(evs))
    return line, fmt


def interleave(rng, env, conns, chunks_per_conn, late_connect):
    """events: connects, every connection's chunks in order, one K after each async start (somewhere later)"""
    k = len(conns)
    evs = []
    opened = 1 if late_connect else k
    evs += [["C"]] * opened
    queues = [list(ch) for ch in chunks_per_conn]
    delivered = [0] * k
    done_msgs = [0] * k
    owed = 0
    while any(queues) or owed or opened < k:
        moves = [c for c in range(opened) if queues[c]]
        opts = moves + (["K"] if owed else []) + (["C"] if opened < k else [])
        if not moves and not owed:
            pick = "C"
        else:
            pick = rng.choice(opts)
        if pick == "C":
            evs.append(["C"])
            opened += 1
        elif pick == "K":
            evs.append(["K"])
            owed -= 1
        else:
            c = pick
            ch = queues[c].pop(0)
            delivered[c] += len(ch)
            evs.append(["D", c, ch.hex()])
            off, n = 0, 0
            for m in conns[c]:
                off += env.hdr + len(m["payload"]) // 2
                if off <= delivered[c]:
                    n += 1
            for m in conns[c][done_msgs[c]:n]:
                if m["async"]:
                    owed += 1
            done_msgs[c] = n
    return evs


def gen_server_cases(env, ctx):
    rng = ctx.rng
    # (1) exhaustive: every way of cutting a stream of <= 3 messages into <= 3 reads (all single and double cuts)
    for n in (1, 2, 3):
        for rep in range(ctx.scale(1, 3)):
            msgs = gen_conn_msgs(env, rng, 0, n, allow_async=False)
            s = stream_of(env, msgs)
            cutsets = [[]] + [[i] for i in range(1, len(s))]
            pairs = list(itertools.combinations(range(1, len(s)), 2))
            if not ctx.thorough and len(pairs) > 4000:
                pairs = rng.sample(pairs, 4000)
            for cs in cutsets + [list(p) for p in pairs]:
                yield {"part": "server", "class": "exhaustive-%d" % n, "conns": [msgs],
                       "events": [["C"]] + [["D", 0, ch.hex()] for ch in cut(s, cs)]}
    # (2) two and three connections, whole messages and every merge of two messages, no suspension
    for k in (2, 3):
        conns = [gen_conn_msgs(env, rng, a, 2, allow_async=False) for a in range(k)]
        for late in (False, True):
            for merged in (False, True):
                chunks = [[stream_of(env, ms)] if merged else [env.frame(m["id"], bytes.fromhex(m["payload"])) for m in ms]
                          for ms in conns]
                yield {"part": "server", "class": "multi-basic-%d" % k, "conns": conns,
                       "events": interleave(rng, env, conns, chunks, late)}
    # (3) random: longer streams, 1-3 connections, random cuts, interleavings, suspended handlers
    for _ in range(ctx.scale(500, 6000)):
        k = rng.choice([1, 1, 2, 2, 3])
        conns = [gen_conn_msgs(env, rng, a, rng.randint(1, 9), allow_async=True, with_signal=(k == 1)) for a in range(k)]
        chunks = []
        for ms in conns:
            s = stream_of(env, ms)
            chunks.append(cut(s, random_cuts(rng, len(s))))
        yield {"part": "server", "class": "random-%d" % k, "conns": conns,
               "events": interleave(rng, env, conns, chunks, rng.random() < 0.4)}
    # (4) malformed: tie only (what the deserialiser rejects, and that earlier messages were handled)
    M = env.M
    for _ in range(ctx.scale(60, 600)):
        good = gen_conn_msgs(env, rng, 0, rng.randint(1, 3), allow_async=False)
        s = stream_of(env, good)
        kind = rng.randrange(4)
        if kind == 0:      # announced length not larger than the header
            bad = bytes(M.MessageHeader(id=77, length=rng.randrange(0, 9))) + bytes(rng.randrange(256) for _ in range(6))
        elif kind == 1:    # unknown message type
            bad = env.frame(78, bytes([rng.randrange(5, 256)]) + bytes(rng.randrange(256) for _ in range(rng.randrange(12))))
        elif kind == 2:    # struct shorter than its class
            full = bytes(M.OpenEPRSocketMessage(0, 1, 1, 1, 100))
            bad = env.frame(79, full[:rng.randrange(1, len(full))])
        else:              # garbage
            bad = bytes(rng.randrange(256) for _ in range(rng.randrange(1, 30)))
        s2 = s + bad
        yield {"part": "server", "class": "malformed", "malformed": True, "conns": [good],
               "events": [["C"]] + [["D", 0, ch.hex()] for ch in cut(s2, random_cuts(rng, len(s2)))]}


# ----------------------------------------------------------------------------
# client
# ----------------------------------------------------------------------------

class ScriptedSocket:
    """the host's socket to the node: releases `wire` in the prefixes the script dictates"""

    def __init__(self, wire, choices):
        self.wire, self.choices, self.reads = wire, list(choices), 0

    def recv(self, n):
        if not self.wire:
            raise Blocked()
        ch = self.choices.pop(0) if self.choices else None
        j = granted(n, len(self.wire), ch)
        out, self.wire = self.wire[:j], self.wire[j:]
        self.reads += 1
        return out


def gen_return_groups(env, rng, ncalls, max_arr):
    """per call: some returned registers/arrays, then a Done (or, rarely, an Error)"""
    M, Register = env.M, env.Register
    groups, mid = [], rng.choice([0, 5, rng.randrange(2 ** 32 - 40)])
    for _ in range(ncalls):
        items = []
        for _ in range(rng.choice([0, 0, 1, 1, 2, 4])):
            if rng.random() < 0.5:
                items.append(["reg", rng.randrange(16), rng.randrange(-2 ** 31, 2 ** 31)])
            else:
                vals = [rng.choice([rng.randrange(-2 ** 31, 2 ** 31), rng.randrange(4)])
                        for _ in range(rng.choice([0, 1, 2, 7, rng.randint(0, max_arr)]))]
                items.append(["arr", rng.randrange(2 ** 31), vals])
        end = ["err"] if rng.random() < 0.06 else ["done", mid]
        mid += rng.choice([1, 1, 2])
        groups.append(items + [end])
    return groups


def ret_bytes(env, item):
    M = env.M
    if item[0] == "reg":
        reg = env.Register()
        reg.register_index = item[1]
        return bytes(M.ReturnRegMessage(reg, item[2]))
    if item[0] == "arr":
        return bytes(M.ReturnArrayMessage(address=item[1], values=item[2]))
    if item[0] == "done":
        return bytes(M.MsgDoneMessage(msg_id=item[1]))
    return bytes(M.ErrorMessage(M.ErrorCode.GENERAL))


def exec_client(env, case):
    groups = case["groups"]
    wire = b"".join(ret_bytes(env, it) for g in groups for it in g)
    conn = object.__new__(env.conn_mod.SimulaQronConnection)
    conn._socket = ScriptedSocket(wire, case["choices"])
    conn.buf = b""
    conn._waiting_msg_ids = {g[-1][1] for g in groups if g[-1][0] == "done"}
    conn._done_msg_ids = set()
    conn._logger = logging.getLogger("c10")
    updates = []
    conn._update_shared_memory = lambda entry, value: updates.append((entry, value))
    calls, complaints = [], []
    for g in groups + [None] * case.get("extra_calls", 1):
        del updates[:]
        try:
            r = conn._handle_reply()
            outcome = ("ok", r)
        except Blocked:
            outcome = ("blocked",)
        except RuntimeError as e:
            outcome = ("raised",) if "error message from backend" in str(e) else ("crash", type(e).__name__)
        except Exception as e:
            outcome = ("crash", type(e).__name__)
        ups = []
        for entry, value in updates:
            if isinstance(value, list):
                ups.append(["arr", entry.address, value])
            else:
                ups.append(["reg", entry.index, value])
        calls.append((outcome, ups))
        # ---- oracle: this call returns this group's Done id after exactly this group's updates
        if g is not None:
            want_out = ("ok", g[-1][1]) if g[-1][0] == "done" else ("raised",)
            want_ups = [list(it) for it in g[:-1]]
            if outcome != want_out or ups != want_ups:
                if not complaints:
                    complaints.append(("reassembly", "call %d of _handle_reply: %s with updates %s; sent %s then %s" % (
                        len(calls), outcome, ups, want_ups, g[-1])))
        else:
            if outcome != ("blocked",) or ups:
                if not complaints:
                    complaints.append(("extra", "a call with nothing left to read: %s %s" % (outcome, ups)))
        if outcome[0] in ("blocked", "crash"):
            break
    left = len(conn.buf) + len(conn._socket.wire)
    return {"calls": calls, "left": left, "wire": wire}, complaints


def client_lines(env, case, obs):
    n = len(obs["calls"])
    line = "cli %s | - | %s | %s | %d" % (csv(env.ret_sizes), hx(obs["wire"]), csv(case["choices"]), n)
    items = []
    for outcome, ups in obs["calls"]:
        u = ",".join(digest(ret_bytes(env, x)) for x in ups)
        if outcome[0] == "ok":
            items.append("ok id=%d upd=%s" % (outcome[1], u))
        elif outcome[0] in ("raised", "blocked"):
            items.append("%s upd=%s" % (outcome[0], u))
        else:
            items.append("crash:%s" % outcome[1])
    return line, " ; ".join(items) + " | left=%d" % obs["left"]


def gen_client_cases(env, ctx):
    rng = ctx.rng
    # every single and double cut of short reply streams (cut = the socket returns up to there)
    for rep in range(ctx.scale(2, 6)):
        groups = gen_return_groups(env, rng, rng.choice([1, 2, 3]), 3)
        n = sum(len(ret_bytes(env, it)) for g in groups for it in g)
        cutsets = [[]] + [[i] for i in range(1, n)] + [list(p) for p in itertools.combinations(range(1, n), 2)]
        if not ctx.thorough and len(cutsets) > 500:
            cutsets = cutsets[:n] + rng.sample(cutsets[n:], 500 - n)
        for cs in cutsets:
            pts = [0] + cs + [n]
            yield {"part": "client", "class": "exhaustive", "groups": groups,
                   "choices": [b - a for a, b in zip(pts, pts[1:])]}
    for _ in range(ctx.scale(250, 3000)):
        groups = gen_return_groups(env, rng, rng.randint(1, 6), rng.choice([3, 20, 60]))
        n = sum(len(ret_bytes(env, it)) for g in groups for it in g)
        style = rng.random()
        if style < 0.25:
            choices = [1] * n
        elif style < 0.4:
            choices = []
        else:
            choices = [rng.choice([1, 2, 3, 5, 8, 13, 64, 1024, 5000]) for _ in range(rng.randint(1, 40))]
        yield {"part": "client", "class": "random", "groups": groups, "choices": choices}
    # one large array delivered a byte at a time: more than a thousand reads inside one call
    for nvals in ctx.scale([200], [200, 400, 1000]):
        groups = [[["arr", 3, list(range(nvals))], ["done", 9]]]
        yield {"part": "client", "class": "many-reads", "groups": groups, "choices": [1] * (9 + 8 * nvals + 8)}


# ----------------------------------------------------------------------------
# classical socket
# ----------------------------------------------------------------------------

class Wire:
    def __init__(self, choices):
        self.data, self.choices, self.log = b"", list(choices), b""


class ScriptedEnd:
    """one end of an application socket over a scripted wire"""

    def __init__(self, out_wire, in_wire):
        self.out, self.inp = out_wire, in_wire

    def send(self, data):
        self.out.data += data
        self.out.log += data
        return len(data)

    sendall = send

    def setblocking(self, flag):
        pass

    def recv(self, n):
        w = self.inp
        if not w.data:
            raise Blocked()
        ch = w.choices.pop(0) if w.choices else None
        j = granted(n, len(w.data), ch)
        out, w.data = w.data[:j], w.data[j:]
        return out

    def close(self):
        pass


class RealEnd:
    """a real socket whose blocking reads time out instead of hanging the check"""

    def __init__(self, s):
        self.s = s
        s.settimeout(0.25)

    def setblocking(self, flag):
        pass

    def send(self, data):
        return self.s.send(data)

    def sendall(self, data):
        return self.s.sendall(data)

    def recv(self, n):
        try:
            return self.s.recv(n)
        except (pysocket.timeout, BlockingIOError):
            raise Blocked()

    def close(self):
        self.s.close()


def make_socket(env, end, raws):
    S = env.sock_mod.Socket
    s = object.__new__(S)
    s._app_socket = end
    s._recv_buf = b""
    s._logger = logging.getLogger("c10")
    s._node_name, s._remote_node_name = "Alice", "Bob"
    od, osd = S._deserialize_msg, S._deserialize_structured_msg
    s._deserialize_msg = lambda raw_msg: (raws.append(raw_msg), od(raw_msg))[1]
    s._deserialize_structured_msg = lambda raw_msg: (raws.append(raw_msg), osd(raw_msg))[1]
    return s


def msg_value(spec):
    kind, n, fill = spec
    if kind == "str":
        alphabet = {"a": "a", "mix": "aé☃𝄞 z"}[fill]
        return "".join(alphabet[i % len(alphabet)] for i in range(n))
    base = {"k": (n, fill), "data": list(range(n % 97)), "blob": bytes(range(256)) * (n // 256) + bytes(n % 256)}
    return base


def exec_socket(env, case):
    S = env.sock_mod.Socket
    raws = []
    if case["transport"] == "scripted":
        w_ab, w_ba = Wire(case["choices"]), Wire([])
        a_end, b_end = ScriptedEnd(w_ab, w_ba), ScriptedEnd(w_ba, w_ab)
    else:
        sa, sb = pysocket.socketpair()
        for x in (sa, sb):
            x.setsockopt(pysocket.SOL_SOCKET, pysocket.SO_SNDBUF, 1 << 20)
            x.setsockopt(pysocket.SOL_SOCKET, pysocket.SO_RCVBUF, 1 << 20)
        a_end, b_end = RealEnd(sa), RealEnd(sb)
    a, b = make_socket(env, a_end, []), make_socket(env, b_end, raws)
    sent, sent_raw, results, complaints = [], [], [], []
    nrecv = 0
    for op in case["ops"]:
        if op[0] == "S":
            v = msg_value(op[1])
            sent.append(v)
            if op[1][0] == "str":
                sent_raw.append(S._serialize_msg(v))
                a.send(v)
            else:
                sent_raw.append(S._serialize_structured_msg(v))
                a.send_structured(v)
        else:
            structured = nrecv < len(sent) and not isinstance(sent[nrecv], str)
            del raws[:]
            try:
                got = (b.recv_structured if structured else b.recv)(maxsize=op[1])
                res = ("msg", got)
            except Blocked:
                res = ("blocked",)
            except Exception as e:
                res = ("error", type(e).__name__)
            raw = raws[0] if raws else None
            results.append((res[0], raw if raw is not None else b"", res[1] if len(res) > 1 else None))
            # ---- oracle: the i-th receive returns the i-th message sent, or waits if it is not sent yet
            if nrecv < len(sent):
                if res != ("msg", sent[nrecv]) and not complaints:
                    what = "returned %d bytes" % len(raw) if raw is not None else res[0]
                    complaints.append(("stream", "receive %d (maxsize %d) %s; message %d was %d bytes; %d messages sent so far" % (
                        nrecv + 1, op[1], what, nrecv + 1, len(sent_raw[nrecv]), len(sent))))
                nrecv += 1
            else:
                if res != ("blocked",) and not complaints:
                    complaints.append(("phantom", "receive with nothing outstanding returned %s" % (res[0],)))
    a_end.close(), b_end.close()
    return {"results": results, "sent_raw": sent_raw}, complaints


def socket_lines(env, case, obs):
    ops, i = [], 0
    for op in case["ops"]:
        if op[0] == "S":
            ops.append("S" + hx(obs["sent_raw"][i]))
            i += 1
        else:
            ops.append("R%d" % op[1])
    line = "sock %s | %s" % (csv(case.get("choices", [])), " ".join(ops))
    items = []
    for kind, raw, _ in obs["results"]:
        items.append("m" + digest(raw) if kind == "msg" else "blocked" if kind == "blocked" else "error")
    return line, " ".join(items)


def gen_socket_cases(env, ctx):
    rng = ctx.rng
    sizes_small = [1, 2, 3, 5, 17, 100]
    # the two shapes of F7 first, smallest first
    yield {"part": "socket", "class": "two-sends-one-recv", "transport": "scripted", "choices": [],
           "ops": [["S", ["str", 1, "a"]], ["S", ["str", 1, "a"]], ["R", 1024], ["R", 1024]]}
    yield {"part": "socket", "class": "above-maxsize", "transport": "scripted", "choices": [],
           "ops": [["S", ["str", 1500, "a"]], ["R", 1024]]}
    yield {"part": "socket", "class": "split-delivery", "transport": "scripted", "choices": [3, 1, 2],
           "ops": [["S", ["str", 10, "a"]], ["R", 1024]]}

    def rand_ops(max_size, nmsg):
        ops, outstanding = [], 0
        for _ in range(nmsg):
            kind = rng.choice(["str", "str", "obj"])
            n = rng.choice(sizes_small + [rng.randint(1, max_size)])
            ops.append(["S", [kind, n, rng.choice(["a", "mix"]) if kind == "str" else rng.randrange(1000)]])
            outstanding += 1
            while outstanding and rng.random() < 0.45:
                ops.append(["R", rng.choice([1024, 1024, 1, 7, 4096, 100000])])
                outstanding -= 1
        ops += [["R", 1024]] * outstanding
        if rng.random() < 0.3:
            ops.append(["R", 1024])          # one receive too many: must wait, not invent a message
        return ops

    for _ in range(ctx.scale(400, 4000)):
        ops = rand_ops(rng.choice([40, 300, 3000]), rng.randint(1, 6))
        style = rng.random()
        choices = [] if style < 0.2 else [1] * 400 if style < 0.3 else \
            [rng.choice([1, 2, 3, 4, 5, 9, 100, 1024, 70000]) for _ in range(rng.randint(1, 60))]
        yield {"part": "socket", "class": "scripted", "transport": "scripted", "choices": choices, "ops": ops}
    for _ in range(ctx.scale(12, 80)):
        ops = rand_ops(65536, rng.randint(1, 5))
        yield {"part": "socket", "class": "scripted-64k", "transport": "scripted",
               "choices": [rng.choice([1, 1460, 4096, 65536]) for _ in range(rng.randint(0, 30))], "ops": ops}
    for _ in range(ctx.scale(25, 200)):
        ops = rand_ops(rng.choice([100, 2000, 65536]), rng.randint(1, 5))
        yield {"part": "socket", "class": "socketpair", "transport": "real", "ops": ops}


# ----------------------------------------------------------------------------
# classical socket, polled: non-blocking receives while a message has only partly arrived (oracle only: the line
# protocol of the `sock` driver puts whole framed messages on the wire, it has no partial arrival)
# ----------------------------------------------------------------------------

class PollEnd:
    """receiving end over a scripted wire that honours setblocking: a read on an empty wire raises BlockingIOError
    when the socket is non-blocking (as the OS does), `Blocked` when it is blocking (the real call would hang)"""

    def __init__(self):
        self.avail, self.blocking = b"", True

    def arrive(self, data):
        self.avail += data

    def setblocking(self, flag):
        self.blocking = bool(flag)

    def recv(self, n):
        if not self.avail:
            if not self.blocking:
                raise BlockingIOError(11, "Resource temporarily unavailable")
            raise Blocked()
        j = max(1, min(n, len(self.avail)))
        out, self.avail = self.avail[:j], self.avail[j:]
        return out

    def close(self):
        pass


class RealPollEnd:
    """a real socket; non-blocking is the real thing, a blocking read gives up after 0.25 s instead of hanging"""

    def __init__(self, s, peer):
        self.s, self.peer = s, peer

    def arrive(self, data):
        self.peer.sendall(data)

    def setblocking(self, flag):
        self.s.settimeout(0.25 if flag else 0.0)

    def recv(self, n):
        try:
            return self.s.recv(n)
        except BlockingIOError:
            raise
        except pysocket.timeout:
            raise Blocked()

    def close(self):
        self.s.close(), self.peer.close()


def poll_stream(env, specs):
    """what the real Socket puts on the wire for these sends: (stream, end offset of every message, values)"""
    S = env.sock_mod.Socket
    w = Wire([])
    a = make_socket(env, ScriptedEnd(w, Wire([])), [])
    ends, values = [], []
    for spec in specs:
        v = msg_value(spec)
        try:
            (a.send if spec[0] == "str" else a.send_structured)(v)
        except Exception as e:      # the real sender refuses a message the property quantifies over: a verdict
            raise core.ImplementationFailure(
                "sockpoll:send-raises:" + type(e).__name__,
                "Socket.%s of message %r (kind, size, fill) raised %r; nothing of it (or of later messages) reaches "
                "the peer" % ("send" if spec[0] == "str" else "send_structured", spec, e),
                {"stage": "sockpoll", "msgs": [list(x) for x in specs], "failing_message": list(spec)})
        ends.append(len(w.data))
        values.append(v)
    return w.data, ends, values


def exec_sockpoll(env, case):
    stream, ends, values = poll_stream(env, case["msgs"])
    if case["transport"] == "real":
        sa, sb = pysocket.socketpair()
        for x in (sa, sb):
            x.setsockopt(pysocket.SOL_SOCKET, pysocket.SO_SNDBUF, 1 << 20)
            x.setsockopt(pysocket.SOL_SOCKET, pysocket.SO_RCVBUF, 1 << 20)
        end = RealPollEnd(sb, sa)
    else:
        end = PollEnd()
    b = make_socket(env, end, [])
    arrived, nrecv, results, complaints = 0, 0, [], []
    ops = [list(o) for o in case["ops"]]
    # after the scripted part: the rest arrives, every outstanding message is received, one poll more finds nothing
    ops += [["A", len(stream)]] + [["R"]] * len(values) + [["P"]]
    for op in ops:
        if op[0] == "A":
            n = min(op[1], len(stream) - arrived)
            if n > 0:
                end.arrive(stream[arrived:arrived + n])
                arrived += n
            continue
        complete = nrecv < len(values) and ends[nrecv] <= arrived
        if op[0] == "R" and not complete:
            continue                                   # a blocking receive is only issued for a message that is there
        structured = nrecv < len(values) and case["msgs"][nrecv][0] != "str"
        try:
            got = (b.recv_structured if structured else b.recv)(block=(op[0] == "R"), maxsize=case["maxsize"])
            res = ("msg", got)
        except BlockingIOError:
            res = ("nothing-yet",)
        except Blocked:
            res = ("blocked",)
        except Exception as e:
            res = ("error", type(e).__name__)
        results.append(res[0])
        where = "%s %d (maxsize %d, %d of %d stream bytes arrived, message %d ends at byte %s)" % (
            "poll" if op[0] == "P" else "blocking receive", len(results), case["maxsize"], arrived, len(stream),
            nrecv + 1, ends[nrecv] if nrecv < len(ends) else "-")
        if complete:
            if res != ("msg", values[nrecv]):
                if not complaints:
                    complaints.append(("stream", "%s: message %d had arrived completely, got %s" % (
                        where, nrecv + 1, res[0] if res[0] != "msg" else "another value (%d bytes where %d were sent)" % (
                            len(str(res[1])), len(str(values[nrecv]))))))
                break                                  # the stream is mis-framed from here on
            nrecv += 1
        elif res != ("nothing-yet",):
            if not complaints:
                complaints.append(("poll", "%s: no complete message is there, the poll must raise BlockingIOError; it %s" % (
                    where, "returned a message" if res[0] == "msg" else "ended with " + str(res[-1]))))
            break
    end.close()
    return {"results": results, "n": nrecv}, complaints


def gen_sockpoll_cases(env, ctx):
    rng = ctx.rng

    def case(cls, msgs, ops, maxsize=1024, transport="scripted"):
        return {"part": "sockpoll", "class": cls, "transport": transport, "msgs": msgs, "ops": ops, "maxsize": maxsize}

    def polls(style, nmsg):
        return [["P"]] * (nmsg + 1) if style == "drain" else [["P"]] if style == "once" else []
    # (1) every split point of 1-3 short messages, a poll (or: polls until nothing is left) before / between / after
    shapes = [[["str", 1, "a"]], [["str", 5, "mix"]], [["obj", 3, 1]],
              [["str", 2, "a"], ["str", 3, "a"]], [["str", 4, "a"], ["obj", 1, 2]],
              [["str", 1, "a"], ["str", 2, "mix"], ["str", 3, "a"]], [["obj", 2, 5], ["str", 6, "a"], ["obj", 0, 0]]]
    for msgs in shapes:
        n = len(poll_stream(env, msgs)[0])
        cutsets = [[i] for i in range(1, n)] + [list(p) for p in itertools.combinations(range(1, n), 2)]
        if len(cutsets) > ctx.scale(160, 100000):
            cutsets = cutsets[:n - 1] + rng.sample(cutsets[n - 1:], ctx.scale(160, 100000) - (n - 1))
        for cs in cutsets:
            pts = [0] + cs
            for style in ("once", "drain"):
                for first in ((True, False) if len(cs) == 1 else (rng.random() < 0.5,)):
                    ops = polls("once", 0) if first else []
                    for a, b in zip(pts, pts[1:]):
                        ops = ops + [["A", b - a]] + polls(style, len(msgs))
                    yield case("split-%d" % len(msgs), msgs, ops, maxsize=rng.choice([1024, 1024, 1, 3]))
    # (2) random: 1-4 messages up to 64 KiB, random arrivals, polls and blocking receives mixed
    for i in range(ctx.scale(300, 3000)):
        msgs = []
        for _ in range(rng.randint(1, 4)):
            kind = rng.choice(["str", "str", "obj"])
            size = rng.choice([1, 2, 7, 100, rng.randint(1, 3000), rng.randint(1, 3000)] + ([65536] if i % 40 == 0 else []))
            msgs.append([kind, size, rng.choice(["a", "mix"]) if kind == "str" else rng.randrange(1000)])
        n = len(poll_stream(env, msgs)[0])
        ops, left = [], n
        while left > 0 and len(ops) < 40:
            r = rng.random()
            if r < 0.45:
                k = min(left, rng.choice([1, 2, 3, 4, 5, 9, 100, 1460, rng.randint(1, n)]))
                ops.append(["A", k])
                left -= k
            elif r < 0.85:
                ops.append(["P"])
            else:
                ops.append(["R"])
        real = i % 6 == 0
        yield case("random-real" if real else "random", msgs, ops, maxsize=rng.choice([1024, 1024, 1, 7, 4096, 100000]),
                   transport="real" if real else "scripted")


# ----------------------------------------------------------------------------
# server, messages whose handling fails / bytes that are not a message
# ----------------------------------------------------------------------------

def sub_text(env, app, lines):
    txt = "# NETQASM 1.0\n# APPID %d\n%s" % (app, "".join(ln + "\n" for ln in lines))
    return bytes(env.M.SubroutineMessage(env.parse_sub(txt)))


def emsg(mid, payload, kind, end="ok", regs=(), regs2=(), is_async=False, barrier=False):
    """one planned host message.  `end`: how its handler ends (ok | caught = an instruction raises, the executioner
    answers | escapes = the exception leaves handle_netqasm_message); `regs`: registers it returns before the point
    where it suspends/fails, `regs2`: after a suspension; `barrier`: needs the earlier handlers of its connection finished"""
    return {"id": mid, "payload": payload.hex(), "kind": kind, "end": end, "regs": list(regs), "regs2": list(regs2),
            "async": is_async, "barrier": barrier}


def failing_payload(env, rng, app, kind):
    """a complete, well-framed message whose handling fails synchronously: (payload, end, regs)"""
    M = env.M
    if kind == "sub-instr":         # an instruction raises (no such qubit): the executioner answers Error, then Done
        v, lines, regs = rng.randrange(1, 2 ** 20), [], []
        if rng.random() < 0.5:
            regs, lines = [v], ["set R0 %d" % v, "ret_reg R0"]
        lines += ["set Q0 4", rng.choice(["h Q0", "x Q0", "qfree Q0"]), "set R1 7", "ret_reg R1"]
        return sub_text(env, app, lines), "caught", regs
    if kind == "sub-noapp":         # a subroutine of an application that was never initialised
        return sub_text(env, 40 + app, ["set R0 1", "ret_reg R0"]), "caught", []
    if kind == "stop-unknown":      # StopApp of an application that is not open
        return bytes(M.StopAppMessage(app_id=50 + app + 3 * rng.randrange(3))), "escapes", []
    if kind == "signal-unknown":
        return bytes([M.MessageType.SIGNAL.value, rng.randrange(1, 256)]), "escapes", []
    assert kind == "sub-garbage"    # a subroutine message whose body is not a subroutine
    while True:
        body = bytes(rng.randrange(256) for _ in range(rng.choice([0, 1, 2, 3, 5, 6, 9, 17])))
        try:
            env.deserialize_subroutine(body)
        except Exception:
            return bytes([M.MessageType.SUBROUTINE.value]) + body, "escapes", []


FAIL_KINDS = ["sub-instr", "sub-noapp", "stop-unknown", "signal-unknown", "sub-garbage"]


def gen_failing_conn(env, rng, app, n, allow_async):
    """n host messages of application `app` (= one connection): InitNewApp, then succeeding and failing ones"""
    M = env.M
    mid = rng.choice([0, 1, 3, rng.randrange(2 ** 32 - n - 2)])
    msgs, nq, addr = [], 0, 0          # qubits the application holds / virtual addresses it has asked for
    for i in range(n):
        r, v = rng.random(), 1000 * (app + 1) + i
        if i == 0:
            m = emsg(mid, bytes(M.InitNewAppMessage(app_id=app, max_qubits=5)), "init")
        elif i == n - 1 and n > 2 and r < 0.35 and (nq == 0 or (nq == 1 and allow_async)):
            if nq == 0:
                m = emsg(mid, bytes(M.StopAppMessage(app_id=app)), "stop", barrier=True)
            else:   # the application's qubit is measured away on the backend: the handler suspends there, and the
                    # backend may fail — outside the executor
                m = emsg(mid, bytes(M.StopAppMessage(app_id=app)), "stop-qubit", end=rng.choice(["ok", "escapes", "escapes"]),
                         is_async=True, barrier=True)
        elif r < 0.22:
            m = emsg(mid, sub_text(env, app, ["set R0 %d" % v, "ret_reg R0"]), "sub", regs=[v])
        elif r < 0.30:
            m = emsg(mid, bytes(M.OpenEPRSocketMessage(app, rng.randrange(8), rng.randrange(3), rng.randrange(8), 100)), "epr")
        elif r < 0.80:
            kind = rng.choice(FAIL_KINDS)
            payload, end, regs = failing_payload(env, rng, app, kind)
            m = emsg(mid, payload, kind, end=end, regs=regs)
        elif allow_async and addr < 4:  # suspended on the backend for a new qubit, which it may refuse
            end, lines, regs, regs2 = rng.choice(["ok", "ok", "caught"]), [], [], []
            if rng.random() < 0.5:
                regs, lines = [v], ["set R0 %d" % v, "ret_reg R0"]
            lines += ["set Q0 %d" % addr, "qalloc Q0", "set R1 %d" % (v + 500), "ret_reg R1"]
            addr += 1
            if end == "ok":
                regs2, nq = [v + 500], nq + 1
            m = emsg(mid, sub_text(env, app, lines), "sub-qalloc", end=end, regs=regs, regs2=regs2, is_async=True)
        else:
            m = emsg(mid, sub_text(env, app, ["set R0 %d" % v, "ret_reg R0"]), "sub", regs=[v])
        msgs.append(m)
        mid += 1
    return msgs


def gen_tail(env, rng, app):
    """bytes that are not a host message, then possibly well-formed messages behind them: (kind, bytes)"""
    M = env.M
    good = [env.frame(900 + j, sub_text(env, app, ["set R0 %d" % (70 + j), "ret_reg R0"])) for j in range(2)]
    full = rng.choice([bytes(M.OpenEPRSocketMessage(app, 1, 1, 1, 100)), sub_text(env, app, ["set R0 5", "ret_reg R0"]),
                       bytes(M.StopAppMessage(app_id=60 + app))])
    kind = rng.choice(["len-small", "unknown-type", "truncated", "garbage", "len-short", "len-long"])
    if kind == "len-small":     # announced length not larger than the header
        bad = bytes(M.MessageHeader(id=77, length=rng.randrange(0, 9))) + bytes(rng.randrange(256) for _ in range(rng.randrange(7)))
    elif kind == "unknown-type":
        bad = env.frame(78, bytes([rng.randrange(5, 256)]) + bytes(rng.randrange(256) for _ in range(rng.randrange(12))))
    elif kind == "truncated":   # structure shorter than its class
        st = bytes(M.OpenEPRSocketMessage(app, 1, 1, 1, 100))
        bad = env.frame(79, st[:rng.randrange(1, len(st))])
    elif kind == "garbage":
        bad = bytes(rng.randrange(256) for _ in range(rng.randrange(1, 30)))
    elif kind == "len-short":   # the header announces fewer bytes than the payload has
        bad = bytes(M.MessageHeader(id=80, length=env.hdr + rng.randrange(1, len(full)))) + full
    else:                       # ... or more
        bad = bytes(M.MessageHeader(id=81, length=env.hdr + len(full) + rng.randrange(1, 20))) + full
    return kind, bad + b"".join(good[:rng.randrange(3)])


def err_stream(env, conn):
    return stream_of(env, conn["msgs"]) + bytes.fromhex(conn.get("tail", ""))


def err_offsets(env, conn):
    """end offset of every planned message in the connection's stream"""
    out, off = [], 0
    for m in conn["msgs"]:
        off += env.hdr + len(m["payload"]) // 2
        out.append(off)
    return out


def interleave_err(rng, env, conns, chunks_per_conn, late_connect):
    """events: connects, every connection's chunks in order, one ["K", c, i] per suspended handler some time after its
    start (in start order: the backend serves the requests for a new qubit one at a time)"""
    k = len(conns)
    offs = [err_offsets(env, cn) for cn in conns]
    opened = 1 if late_connect else k
    evs = [["C"] for _ in range(opened)]
    queues = [list(ch) for ch in chunks_per_conn]
    delivered, done_msgs, owed = [0] * k, [0] * k, []
    while any(queues) or owed or opened < k:
        moves = [c for c in range(opened) if queues[c]]
        opts = moves + (["K"] if owed else []) + (["C"] if opened < k else [])
        pick = "C" if (not moves and not owed) else rng.choice(opts)
        if pick == "C":
            evs.append(["C"])
            opened += 1
        elif pick == "K":
            evs.append(["K"] + list(owed.pop(0)))
        else:
            c = pick
            ch = queues[c].pop(0)
            n = sum(1 for o in offs[c] if o <= delivered[c] + len(ch))
            if any(conns[c]["msgs"][j]["barrier"] for j in range(done_msgs[c], n)):
                while owed:
                    evs.append(["K"] + list(owed.pop(0)))
            delivered[c] += len(ch)
            evs.append(["D", c, ch.hex()])
            owed += [(c, j) for j in range(done_msgs[c], n) if conns[c]["msgs"][j]["async"]]
            done_msgs[c] = n
    return evs


def err_cuts(rng, env, conn):
    """random cut positions, plus one in front of every barrier message (it must not be handled in the read that
    starts an earlier handler of its connection)"""
    s = err_stream(env, conn)
    cuts = set(random_cuts(rng, len(s)))
    offs = [0] + err_offsets(env, conn)
    for j, m in enumerate(conn["msgs"]):
        if m["barrier"] and offs[j] > 0:
            cuts.add(offs[j])
    return cut(s, sorted(cuts))


def exec_server_err(env, case):
    """run the events on the real classes; returns (observation, oracle complaints)"""
    import contextvars
    conns = case["conns"]
    env.SharedMemoryManager.reset_memories()
    for dc in env.reactor.getDelayedCalls():
        dc.cancel()
    log = []                      # one entry per handle_netqasm_message call
    feeding = [None]
    cur = contextvars.ContextVar("c10_cur_msg", default=None)
    waiting = []                  # (Deferred, "new" | "meas", index into log of the handler that waits)
    stops, complaints = [], []

    class Host:
        name, ip, port = "Alice", "localhost", 8001

    class QNet:
        hostDict = {"Alice": Host}

    class RecHandler(env.SubroutineHandler):
        def handle_netqasm_message(self, msg_id, msg):
            idx = len(log)
            c = feeding[0]
            j = sum(1 for e in log if e["c"] == c)
            log.append({"c": c, "id": msg_id, "msg": bytes(msg), "raw": env.last_raw[0], "end": None})
            plan = conns[c]["msgs"][j] if c is not None and j < len(conns[c]["msgs"]) else None
            if plan is not None and plan["kind"] == "scripted" and plan["id"] == msg_id:
                script[0] = (plan, idx)        # this message's type handler is the scripted one (see `dispatch`)
            tok = cur.set(idx)
            try:
                d = super().handle_netqasm_message(msg_id=msg_id, msg=msg)
            finally:
                cur.reset(tok)
                script[0] = None

            def ended(r):          # observation only: the result/failure is passed on unchanged
                if isinstance(r, env.Failure):
                    log[idx]["end"] = "escapes"
                elif log[idx]["end"] is None:
                    log[idx]["end"] = "ok"
                return r
            d.addBoth(ended)
            return d

    class Virt:
        def remote_get_virt_num(self):
            return 0

        def remote_measure(self, inplace=True):
            d = env.Deferred()
            waiting.append((d, "meas", cur.get()))
            return d

    class Root:
        def remote_new_qubit(self):
            d = env.Deferred()
            waiting.append((d, "new", cur.get()))
            return d

    script = [None]

    def scripted(plan, idx):
        """the type handler of a message of kind "scripted": the harness holds its Deferred (if it suspends) and says
        how it ends; everything around it (handle_netqasm_message, _handle_message, _mark_message_finished, the
        callbacks dataReceived attaches, log_error, _return_msg) is the real code"""
        if plan["async"]:
            d = env.Deferred()
            waiting.append((d, "script", idx))
            yield d                                 # an errback of the harness is raised here
        if plan["end"] == "escapes":
            raise RuntimeError("scripted failure of message %d" % plan["id"])

    def dispatch(real):
        def handler(msg):
            if script[0] is None:
                return real(msg)
            plan, idx = script[0]
            script[0] = None
            return scripted(plan, idx)
        return handler

    factory = env.NetQASMFactory(Host, "Alice", QNet, RecHandler)
    factory.set_virtual_node(Root())
    factory.stop = lambda: stops.append(1)          # reactor.stop(): observed
    for mtype, real in list(factory.backend._message_handlers.items()):
        factory.backend._message_handlers[mtype] = dispatch(real)
    executor = factory.backend._executor
    real_hce = executor._handle_command_exception

    def hce(exc, prog_counter, traceback_str):      # observation only
        if cur.get() is not None:
            log[cur.get()]["end"] = "caught"
        return real_hce(exc, prog_counter, traceback_str)
    executor._handle_command_exception = hce

    protos, transports, failed, delivered, expected = [], [], [], [], []
    offs = [err_offsets(env, cn) for cn in conns]
    planned_len = [o[-1] if o else 0 for o in offs]
    model_evs, pend = [], []          # the events in the model's terms; pend = suspended handlers in start order

    def complain(kind, detail):
        if not any(k == kind for k, _ in complaints):
            complaints.append((kind, detail))

    def complete_count(c):
        return sum(1 for o in offs[c] if o <= delivered[c])

    def log_of(c):
        return [e for e in log if e["c"] == c]

    for ev in case["events"]:
        if ev[0] == "C":
            p = factory.buildProtocol(None)
            t = env.StringTransport()
            p.makeConnection(t)
            protos.append(p), transports.append(t), failed.append(False), delivered.append(0), expected.append([])
            model_evs.append("C")
        elif ev[0] == "D":
            c, chunk = ev[1], bytes.fromhex(ev[2])
            model_evs.append("D%d:%s" % (c, hx(chunk)))
            if failed[c]:
                continue                       # twisted has dropped the connection
            before = complete_count(c)
            delivered[c] += len(chunk)
            feeding[0] = c
            try:
                protos[c].dataReceived(chunk)
            except Exception as e:             # the deserialiser raised: twisted would drop the connection
                failed[c] = type(e).__name__
            feeding[0] = None
            msgs = conns[c]["msgs"]
            for j in range(before, complete_count(c)):
                m = msgs[j]
                expected[c].extend(("reg", v) for v in m["regs"])
                if m["async"]:
                    pend.append((c, j))
                else:
                    expected[c].extend(([("err",)] if m["end"] != "ok" else []) + [("done", m["id"])])
            # promptness + order + intactness of the planned messages: judged after every read
            want = [(m["id"], m["payload"]) for m in msgs[:complete_count(c)]]
            got = [(e["id"], e["msg"].hex()) for e in log_of(c)]
            if delivered[c] > planned_len[c]:
                got = got[:len(want)]          # behind the planned messages: bytes that are not a message, no judgement
            if got != want:
                if [g[0] for g in got] == [w[0] for w in want]:
                    complain("payload", "connection %d: a handled message is not the bytes that were sent" % c)
                else:
                    complain("handled", "connection %d: %d complete messages arrived (ids %s), handled ids %s" % (
                        c, len(want), [w[0] for w in want], [g[0] for g in got]))
            if failed[c] and delivered[c] <= planned_len[c]:
                complain("raised", "connection %d: dataReceived raised %s on well-formed input" % (c, failed[c]))
        elif ev[0] == "K":
            c, j = ev[1], ev[2]
            m = conns[c]["msgs"][j]
            mine = log_of(c)
            li = log.index(mine[j]) if j < len(mine) else None
            w = [x for x in waiting if x[2] == li and li is not None]
            if (c, j) in pend:
                model_evs.append({"ok": "K", "caught": "X", "escapes": "Y"}[m["end"]] + str(pend.index((c, j))))
                pend.remove((c, j))
            if not w:
                complain("suspended", "connection %d: the handler of message %d (%s) is not waiting for the backend" % (
                    c, m["id"], m["kind"]))
                continue
            waiting.remove(w[0])
            if m["end"] == "ok":
                w[0][0].callback(Virt() if w[0][1] == "new" else 0)
            else:
                w[0][0].errback(env.Failure(RuntimeError("the backend refuses")))
            expected[c].extend([("reg", v) for v in m["regs2"]] + ([("err",)] if m["end"] != "ok" else []) + [("done", m["id"])])
    env.reactor.advance(0.5)          # a stop scheduled "in 0.1 s" happens now
    for dc in env.reactor.getDelayedCalls():
        dc.cancel()
    has_tail = any(cn.get("tail") for cn in conns)
    if stops and not has_tail:
        complain("node-stopped", "reactor.stop() was called %d time(s): a failing message takes down every connection "
                                 "of the node" % len(stops))
    obs = {"conns": [], "pending": sum(1 for e in log if e["end"] is None), "model_evs": model_evs, "log": log}
    for c in range(len(protos)):
        rets = [("err",) if r[0] == "ErrorMessage" else r for r in env.parse_returns(transports[c].value())]
        obs["conns"].append({
            "handled": [e["id"] for e in log_of(c)],
            "replies": ["e" if r[0] == "err" else "d%d" % r[1] for r in rets if r[0] in ("err", "done")],
            "rest": len(protos[c].buf or b""), "failed": bool(failed[c])})
        cmp_rets = rets[:len(expected[c])] if delivered[c] > planned_len[c] else rets
        if cmp_rets != expected[c]:
            msgs = conns[c]["msgs"]
            silent = [m for m in msgs[:complete_count(c)] if m["end"] != "ok" and ("done", m["id"]) in expected[c]
                      and ("done", m["id"]) not in rets]
            mine, foreign = list(expected[c]), []
            for r in cmp_rets:
                if r in mine:
                    mine.remove(r)
                else:
                    foreign.append(r)
            elsewhere = [r for r in foreign if r[0] != "err" and any(r in expected[o] for o in range(len(protos)) if o != c)]
            if silent:
                complain("unanswered", "connection %d: message %d (%s, its handling raises %s) got no completion reply; "
                                       "the connection holds %s, its messages call for %s" % (
                                           c, silent[0]["id"], silent[0]["kind"],
                                           "inside the executor" if silent[0]["end"] == "caught" else "outside the executor",
                                           cmp_rets, expected[c]))
            elif not foreign and not mine:
                complain("order", "connection %d: replies %s, expected order %s" % (c, cmp_rets, expected[c]))
            elif elsewhere:
                complain("route", "connection %d holds replies %s; %s answer messages of another connection, "
                                  "its own messages call for %s" % (c, cmp_rets, elsewhere, expected[c]))
            else:
                complain("replies", "connection %d holds replies %s, its messages call for %s" % (c, cmp_rets, expected[c]))
    return obs, complaints


def server_err_lines(env, case, obs):
    """model query (None when a frame cut out of garbage is still suspended: its end is not observable) + the
    implementation's observation in the driver's form"""
    conns = case["conns"]
    lists = {"async": [], "caught": [], "escapes": []}
    for cn in conns:
        for m in cn["msgs"]:
            f = env.frame(m["id"], bytes.fromhex(m["payload"])).hex()
            if m["async"]:
                lists["async"].append(f)
            elif m["end"] != "ok":
                lists[m["end"]].append(f)
    tie = True
    for c, cn in enumerate(conns):
        for e in [x for x in obs["log"] if x["c"] == c][len(cn["msgs"]):]:      # frames cut out of the tail
            if e["end"] is None:
                tie = False
            elif e["end"] != "ok":
                lists[e["end"]].append(env.frame(e["id"], e["raw"]).hex())
    line = "nete %s | %s | %s | %s | %s" % (csv(env.min_sizes), " ".join(lists["async"]), " ".join(lists["caught"]),
                                           " ".join(lists["escapes"]), " ".join(obs["model_evs"]))
    parts = ["c%d h=%s r=%s %s" % (c, csv(o["handled"]), ",".join(o["replies"]) or "-",
                                  "rest=- f=1" if o["failed"] else "rest=%d f=0" % o["rest"])
             for c, o in enumerate(obs["conns"])]
    return (line if tie else None), " ; ".join(parts + ["pending=%d" % obs["pending"]])


def gen_server_err_cases(env, ctx):
    rng = ctx.rng
    M = env.M

    def case(cls, conns, events):
        return {"part": "servererr", "class": cls, "conns": conns, "events": events}

    def one_conn(cls, msgs, cuts):
        s = stream_of(env, msgs)
        return case(cls, [{"msgs": msgs}], [["C"]] + [["D", 0, ch.hex()] for ch in cut(s, cuts)])
    # (1) the smallest shapes first: one failing message alone; then with a message before and behind it, in one read
    for kind in FAIL_KINDS:
        payload, end, regs = failing_payload(env, rng, 0, kind)
        # (no InitNewApp: a subroutine fails at its first instruction, before it returns anything)
        yield one_conn("err-minimal", [emsg(7, payload, kind, end=end)], [])
    # (2) every cut (and pairs of cuts) of: InitNewApp, a failing message, a succeeding subroutine
    for kind in FAIL_KINDS:
        for rep in range(ctx.scale(1, 3)):
            payload, end, regs = failing_payload(env, rng, 0, kind)
            mid = rng.choice([0, 5, rng.randrange(2 ** 32 - 4)])
            msgs = [emsg(mid, bytes(M.InitNewAppMessage(app_id=0, max_qubits=5)), "init"),
                    emsg(mid + 1, payload, kind, end=end, regs=regs),
                    emsg(mid + 2, sub_text(env, 0, ["set R0 11", "ret_reg R0"]), "sub", regs=[11])]
            n = len(stream_of(env, msgs))
            pairs = list(itertools.combinations(range(1, n), 2))
            if len(pairs) > ctx.scale(60, 100000):
                pairs = rng.sample(pairs, ctx.scale(60, 100000))
            for cs in [[]] + [[i] for i in range(1, n)] + [list(p) for p in pairs]:
                yield one_conn("err-exhaustive", msgs, cs)
    # (3) random: 1-3 connections, failing and succeeding messages, suspended handlers the backend lets down
    for _ in range(ctx.scale(450, 6000)):
        k = rng.choice([1, 2, 2, 3])
        conns = [{"msgs": gen_failing_conn(env, rng, a, rng.randint(1, 8), allow_async=True)} for a in range(k)]
        chunks = [err_cuts(rng, env, cn) for cn in conns]
        yield case("err-random-%d" % k, conns, interleave_err(rng, env, conns, chunks, rng.random() < 0.4))
    # (4) one connection's stream turns into bytes that are not a message; the others carry on
    for _ in range(ctx.scale(200, 2500)):
        k = rng.choice([1, 2, 2, 3])
        conns = [{"msgs": gen_failing_conn(env, rng, a, rng.randint(1, 5), allow_async=(a != 0))} for a in range(k)]
        kind, tail = gen_tail(env, rng, 0)
        conns[0]["tail"] = tail.hex()
        chunks = [err_cuts(rng, env, cn) for cn in conns]
        yield case("err-badframe-%s" % kind, conns, interleave_err(rng, env, conns, chunks, rng.random() < 0.3))


def scripted_msg(env, rng, mid, app, i, outcome):
    """a well-formed host message of any type whose type handler is played by the harness (`scripted` in
    exec_server_err).  outcome: "ok" | "fail" (ends in the read that delivers it) | "ok-late" | "fail-late" (suspends on
    a Deferred of the harness, which is fired later: the failure reaches the errback attached by dataReceived after
    dataReceived has gone on to the following messages, or has returned)"""
    M = env.M
    payload = rng.choice([
        lambda: bytes(M.OpenEPRSocketMessage(app, i % 8, rng.randrange(3), rng.randrange(8), 100)),
        lambda: bytes(M.InitNewAppMessage(app_id=app + 10 * i, max_qubits=1 + i % 4)),
        lambda: bytes(M.StopAppMessage(app_id=app + 10 * i)),
        lambda: sub_text(env, app, ["set R0 %d" % (i + 1), "ret_reg R0"]),
    ])()
    return emsg(mid, payload, "scripted", end="escapes" if outcome.startswith("fail") else "ok",
                is_async=outcome.endswith("late"))


OUTCOMES = ["ok", "fail", "ok-late", "fail-late"]


def interleave_defer(rng, env, conns, chunks_per_conn):
    """events: all connects, every connection's chunks in order, one ["K", c, j] per suspended handler at any time
    after its start, in ANY order relative to the other suspended handlers and to the later reads"""
    k = len(conns)
    offs = [err_offsets(env, cn) for cn in conns]
    evs = [["C"] for _ in range(k)]
    queues = [list(ch) for ch in chunks_per_conn]
    delivered, done_msgs, owed = [0] * k, [0] * k, []
    eager = rng.random()
    while any(queues) or owed:
        moves = [c for c in range(k) if queues[c]]
        if owed and (not moves or rng.random() < eager):
            evs.append(["K"] + list(owed.pop(rng.randrange(len(owed)))))
            continue
        c = rng.choice(moves)
        ch = queues[c].pop(0)
        delivered[c] += len(ch)
        evs.append(["D", c, ch.hex()])
        n = sum(1 for o in offs[c] if o <= delivered[c])
        owed += [(c, j) for j in range(done_msgs[c], n) if conns[c]["msgs"][j]["async"]]
        done_msgs[c] = n
    return evs


def gen_server_defer_cases(env, ctx):
    """several complete messages in ONE read, any subset of them failing, each at once or later (part servererr, same
    executor and oracle; the completion order is an input of the model too: events K<i>/Y<i>)"""
    rng = ctx.rng
    M = env.M

    def case(cls, conns, events):
        return {"part": "servererr", "class": cls, "conns": conns, "events": events}
    # (1) exhaustive: 2 and 3 messages in one read x every outcome of each x every order of firing the suspended ones;
    #     3 messages also as two reads (2+1, 1+2, the cut inside the second message), firing before/after the second read
    for n in (2, 3):
        for outs in itertools.product(OUTCOMES, repeat=n):
            mid = rng.choice([0, 4, rng.randrange(2 ** 32 - 4)])
            msgs = [scripted_msg(env, rng, mid + i, 0, i, o) for i, o in enumerate(outs)]
            frames = [env.frame(m["id"], bytes.fromhex(m["payload"])) for m in msgs]
            s = b"".join(frames)
            late = [i for i, o in enumerate(outs) if o.endswith("late")]
            for order in itertools.permutations(late):
                ks = [["K", 0, j] for j in order]
                yield case("defer-one-read-%d" % n, [{"msgs": msgs}], [["C"], ["D", 0, s.hex()]] + ks)
            if n == 3 and late:
                a, b = len(frames[0]), len(frames[0]) + len(frames[1])
                for cutpos in (a, b, a + rng.randrange(1, len(frames[1]))):
                    order = list(late)
                    rng.shuffle(order)
                    started = [j for j in order if err_offsets(env, {"msgs": msgs})[j] <= cutpos]
                    nearly = rng.randrange(len(started) + 1)
                    evs = [["C"], ["D", 0, s[:cutpos].hex()]] + [["K", 0, j] for j in started[:nearly]] + \
                        [["D", 0, s[cutpos:].hex()]] + [["K", 0, j] for j in order if j not in started[:nearly]]
                    yield case("defer-two-reads-3", [{"msgs": msgs}], evs)
    # (2) the same through the real handlers: an application holding a qubit is stopped (the backend is asked to measure
    #     the qubit away and answers later, possibly refusing) and further messages follow the StopApp in the SAME read
    for end in ("escapes", "ok"):
        for follow in itertools.product(["init", "epr", "stop-unknown", "sub-garbage", "sub-noapp"], repeat=2):
            mid = rng.choice([0, 9, rng.randrange(2 ** 32 - 6)])
            msgs = [emsg(mid, bytes(M.InitNewAppMessage(app_id=0, max_qubits=2)), "init"),
                    emsg(mid + 1, sub_text(env, 0, ["set Q0 0", "qalloc Q0"]), "sub-qalloc", is_async=True),
                    emsg(mid + 2, bytes(M.StopAppMessage(app_id=0)), "stop-qubit", end=end, is_async=True, barrier=True)]
            for i, f in enumerate(follow):
                if f == "init":
                    msgs.append(emsg(mid + 3 + i, bytes(M.InitNewAppMessage(app_id=1 + i, max_qubits=1)), "init"))
                elif f == "epr":
                    msgs.append(emsg(mid + 3 + i, bytes(M.OpenEPRSocketMessage(0, i, 1, 1, 100)), "epr"))
                else:
                    payload, e2, regs = failing_payload(env, rng, 0, f)
                    msgs.append(emsg(mid + 3 + i, payload, f, end=e2, regs=regs))
            frames = [env.frame(m["id"], bytes.fromhex(m["payload"])) for m in msgs]
            yield case("late-midread-real", [{"msgs": msgs}],
                       [["C"], ["D", 0, b"".join(frames[:2]).hex()], ["K", 0, 1],
                        ["D", 0, b"".join(frames[2:]).hex()], ["K", 0, 2]])
    # (3) random: 1-3 connections x 2-6 messages (scripted ones among real succeeding ones), few cuts (whole stream,
    #     cuts at message boundaries, a random cut), suspended handlers fired in any order, any time later
    for _ in range(ctx.scale(350, 5000)):
        k = rng.choice([1, 1, 2, 3])
        conns = []
        for a in range(k):
            n = rng.randint(2, 6)
            mid = rng.choice([0, 1, 100 * a, rng.randrange(2 ** 32 - n - 2)]) if k == 1 else \
                rng.choice([100 * a, 1000 * a + rng.randrange(50)])
            weights = rng.choice([OUTCOMES, ["ok", "fail-late", "fail-late", "ok-late"], ["fail", "fail-late", "ok"]])
            msgs = [emsg(mid, bytes(M.InitNewAppMessage(app_id=a, max_qubits=5)), "init")]
            for i in range(1, n):
                if rng.random() < 0.2:
                    v = 1000 * (a + 1) + i
                    msgs.append(emsg(mid + i, sub_text(env, a, ["set R0 %d" % v, "ret_reg R0"]), "sub", regs=[v]))
                else:
                    msgs.append(scripted_msg(env, rng, mid + i, a, i, rng.choice(weights)))
            conns.append({"msgs": msgs})
        chunks = []
        for cn in conns:
            s = stream_of(env, cn["msgs"])
            style = rng.random()
            if style < 0.4:
                cuts = []
            elif style < 0.75:
                bounds = err_offsets(env, cn)[:-1]
                cuts = sorted(rng.sample(bounds, rng.randint(1, min(2, len(bounds)))))
            else:
                cuts = sorted(rng.sample(range(1, len(s)), rng.randint(1, 2)))
            chunks.append(cut(s, cuts))
        yield case("defer-random-%d" % k, conns, interleave_defer(rng, env, conns, chunks))


EXEC = {"server": exec_server, "client": exec_client, "socket": exec_socket, "servererr": exec_server_err,
        "sockpoll": exec_sockpoll}
WHAT = {
    "server:handled": "a complete host message was not handled (once, in order) when its last byte had arrived",
    "server:payload": "a host message was handed to the handler with other bytes than were sent",
    "server:route": "a reply was written to another host connection than the one its message arrived on",
    "server:order": "replies on a connection are not in completion order",
    "server:replies": "a handled message did not get exactly its replies (returned register, one Done with its id)",
    "server:raised": "dataReceived raised on a well-formed stream",
    "client:reassembly": "_handle_reply did not return the Done of the next message after exactly its returned values",
    "client:extra": "_handle_reply produced something from an empty stream",
    "socket:stream": "a receive on an application socket did not return exactly the next message sent",
    "socket:phantom": "a receive returned a message although nothing was outstanding",
    "sockpoll:stream": "after non-blocking polls of a partly arrived message, a receive did not return exactly the next "
                       "message sent",
    "sockpoll:poll": "a non-blocking receive that finds no complete message did not answer 'nothing yet' (BlockingIOError)",
    "servererr:unanswered": "a complete host message whose handling failed got no completion reply on its connection",
    "servererr:node-stopped": "the failure of one message stopped the node's reactor (every connection of the node)",
    "servererr:handled": "a complete host message was not handled (once, in order) when its last byte had arrived "
                         "(stream with failing messages)",
    "servererr:payload": "a host message was handed to the handler with other bytes than were sent (stream with failing messages)",
    "servererr:route": "a reply (Done or Error) was written to another host connection than the one its message arrived on",
    "servererr:order": "replies on a connection are not in completion order (stream with failing messages)",
    "servererr:replies": "a handled message did not get exactly its replies (returned registers, Error iff its handling "
                         "raised, one Done with its id)",
    "servererr:raised": "dataReceived raised on a stream of well-framed messages (some of which fail in the handler)",
    "servererr:suspended": "a handler that waits for the backend was not found waiting",
}


def case_size(case):
    if case["part"] in ("server", "servererr"):
        return sum(len(e[2]) // 2 for e in case["events"] if e[0] == "D") + 3 * len(case["events"])
    if case["part"] == "client":
        return sum(len(str(g)) for g in case["groups"]) + len(case["choices"])
    if case["part"] == "sockpoll":
        return sum(m[1] + 8 for m in case["msgs"]) + 2 * len(case["ops"]) + (50 if case["transport"] == "real" else 0)
    return sum(op[1][1] if op[0] == "S" else 1 for op in case["ops"]) + len(case.get("choices", []))


def run(ctx):
    env = Env()
    res = core.Result()
    res.rule = ("server: every single and double cut of streams of 1-3 messages, 2-3 connections with whole/merged "
                "messages, random streams of 1-9 messages per connection x random cuts x random interleavings with "
                "suspended handlers, malformed tails (tie only); client: every single/double cut of short reply streams, "
                "random groups x random read sizes, >1000 reads in one call; socket: the two F7 shapes, random send/recv "
                "interleavings x adversarial read prefixes (1 B .. 64 KiB), real socketpair; servererr: each kind of failing "
                "message alone, every single cut and sampled double cuts of init/failing/succeeding, random 1-8 messages x "
                "1-3 connections with 5 kinds of synchronous failure and 2 of failure after a suspension, one connection "
                "turning into non-message bytes (6 kinds) while the others carry on; deferred completion: every read of "
                "2-3 harness-played messages x {ok, fail, ok-late, fail-late}^n x every firing order, 3 messages in two "
                "reads, StopApp-with-qubit followed by 2 more messages in one read (real handlers), random 1-3 connections "
                "x 2-6 messages with firing in any order; sockpoll (oracle only): every split point and sampled pairs of "
                "1-3 short messages with non-blocking polls before/between/after, random streams up to 64 KiB with polls "
                "and blocking receives mixed, scripted wire and real non-blocking socketpair; non-trivial = more than one "
                "message or more than one read; distinct by full case content")
    if ctx.replay and isinstance(ctx.replay.get("input"), dict) and ctx.replay["input"].get("part") in EXEC:
        cases = [ctx.replay["input"]]
    else:
        cases = itertools.chain(gen_server_cases(env, ctx), gen_client_cases(env, ctx), gen_socket_cases(env, ctx),
                                gen_server_err_cases(env, ctx), gen_server_defer_cases(env, ctx), gen_sockpoll_cases(env, ctx))
    lines, expect = {"framing": [], "framingerr": []}, {"framing": [], "framingerr": []}
    worst = {}                       # key -> (size, what, case): the smallest failing input per signature
    for case in cases:
        part = case["part"]
        obs, complaints = EXEC[part](env, case)
        if part == "server":
            line, fmt = server_lines(env, case)
            impl = fmt(obs)
            nontrivial = sum(len(c) for c in case["conns"]) > 1 or len(case["events"]) > 2
        elif part == "client":
            line, impl = client_lines(env, case, obs)
            nontrivial = len(case["groups"]) > 1 or len(case["choices"]) > 1
        elif part == "servererr":
            line, impl = server_err_lines(env, case, obs)
            nontrivial = sum(len(c["msgs"]) for c in case["conns"]) > 1 or len(case["events"]) > 2
        elif part == "sockpoll":
            line, impl = None, None                # oracle only
            nontrivial = len(case["ops"]) > 1
        else:
            line, impl = socket_lines(env, case, obs)
            nontrivial = len(case["ops"]) > 2
        res.case({k: v for k, v in case.items() if k != "class"}, nontrivial=nontrivial)
        res.count("%s:%s" % (part, case.get("class", "replay")))
        model = "framingerr" if part == "servererr" else "framing"
        if part == "sockpoll":
            res.count("sockpoll:oracle-only (no partial arrival in the driver's line protocol)")
        elif line is None:
            res.count("servererr:tie-skipped (a frame cut out of garbage is still suspended)")
        else:
            lines[model].append(line)
            expect[model].append((impl, case))
        for kind, detail in complaints:
            key = "%s:%s" % (part, kind)
            sz = case_size(case)
            if key not in worst or sz < worst[key][0]:
                worst[key] = (sz, "%s — %s" % (WHAT.get(key, key), detail), case)
    first = ["server:handled", "server:route", "socket:stream", "client:reassembly", "server:payload", "servererr:unanswered",
             "sockpoll:stream"]
    for key in sorted(worst, key=lambda k: (first.index(k) if k in first else len(first), k)):
        _, what, case = worst[key]
        res.violation(key, what, case)
    for model in ("framing", "framingerr"):
        if not (ctx.lean_ok and lines[model]):
            continue
        out = core.lean_run(model, lines[model])
        for got, (want, case) in zip(out, expect[model]):
            res.traces += 1
            if got != want:
                if len(res.tie_breaks) < 20:
                    res.tie_break("Framing model vs %s" % case["part"], case, got[:400], want[:400])
                else:
                    res.tie_breaks.append({"what": "more", "input": None, "model": "", "impl": ""})
    res.notes.append(
        "failing messages (observed, fix-c10-err): a handler that raises inside the executor is answered Error+Done by the "
        "executioner; one that raises outside it (StopApp of an application that is not open, unknown signal, subroutine "
        "that cannot be deserialised, backend failure while an application is stopped) by log_error, Error+Done on the "
        "arrival connection; InitNewApp of an open application and OpenEPRSocket of an unknown application succeed (Done)")
    res.notes.append(
        "bytes that are not a message (no judgement): a complete frame the deserialiser rejects (unknown type byte, "
        "structure shorter than its class, header length <= 8) makes _parse_message raise out of dataReceived with the "
        "frame left in the buffer: twisted drops that connection, the messages complete before the frame were handled "
        "and answered, nothing behind it is handled, other connections carry on; a header announcing more bytes than "
        "the message has swallows the following messages as payload (struct types ignore the excess), one announcing "
        "fewer cuts the payload short and reads the next header out of the remainder")
    res.notes.append(
        "after a STOP signal QNodeController._finished stays set: every later message on that node calls factory.stop() "
        "again after its Done (outside the property; not generated)")
    return res


def search(ctx, res, broken):
    res.notes.append("targeted search = the message-list oracle over all generated cases "
                     "(exhaustive cuts of short streams first); no failing input")

import SqVerif.VNetWF
/-
C02 — Qubit conservation and bookkeeping integrity at every quiescent point.

`WF s` (VNetSpec) says, of a quiescent state of the whole network: per node,
handle ids and simulated-qubit ids are distinct, register accounting is exact
(`numRegs = |regs|`, numbers distinct and below `nextReg`, no empty register,
size within the limit), every held handle is an active handle of that node
naming a live, active simulated qubit in the list of the node it names as
simulator, every simulated qubit sits in an existing register of its own node,
and the positions of the simulated qubits of each register of size k are exactly
0..k-1; network-wide, held handle -> simulated qubit is a bijection onto the
simulated qubits that exist, handles that are not held are inactive, and the
logical qubits (tokens) in the registers are pairwise distinct and older than
`nextTok`.

`WF` itself is inductive for the step relation of VNet.lean (every operation,
successful or refused, any number of nodes, any limits); no auxiliary invariant
was needed.  The population theorems count `held s i` = number of handles node
`i` holds.
-/
namespace SqVerif.C02
open SqVerif.VNet SqVerif.VNet.WFP

/-! ### T02.1 – T02.3: `WF` is an invariant of every history -/

/-- T02.1 the initial network (any number of nodes, any limits) is well-formed -/
theorem wf_init (caps : List (Nat × Nat)) : WF (init caps) := wf_init' caps

/-- T02.2 every operation — successful, failing, refused, through stale or unknown handles,
self-send — leads from a well-formed state to a well-formed state -/
theorem wf_step (s : Net) (op : Op) (h : WF s) : WF (step s op).1 := wf_step' s op h

/-- T02.3 every reachable state is well-formed -/
theorem wf_reachable (caps : List (Nat × Nat)) (s : Net) (h : Reach caps s) : WF s :=
  wf_reachable' caps s h

/-- T02.3' … in particular the state after running any program from the initial network -/
theorem wf_run (caps : List (Nat × Nat)) (ops : List Op) : WF (run (init caps) ops).1 :=
  wf_run' ops _ (wf_init' caps)

/-- `run` from a well-formed state stays well-formed -/
theorem wf_run_from (s : Net) (ops : List Op) (h : WF s) : WF (run s ops).1 := wf_run' ops s h

/-- the states `run` visits are reachable -/
theorem run_reachable (caps : List (Nat × Nat)) (ops : List Op) : Reach caps (run (init caps) ops).1 :=
  reach_run caps ops _ Reach.init

/-! ### T02.4: population -/

/-- creating adds exactly one qubit, at the creating node -/
theorem new_population (s : Net) (a hid : Nat) (hw : WF s) (hr : (step s (.new a)).2.1 = .handle hid) :
    held (step s (.new a)).1 a = held s a + 1 ∧ ∀ i, i ≠ a → held (step s (.new a)).1 i = held s i := by
  simp only [step] at hr ⊢
  cases hn : s.nodes[a]? with
  | none => rw [stepNew_bad hn] at hr; cases hr
  | some n =>
    rcases stepNew_cases hw.toP hn with ⟨_, _, e⟩ | ⟨_, e⟩ | ⟨_, _, e⟩
    · rw [e]
      refine ⟨?_, fun i hi => ?_⟩
      · simp only [held]; rw [heldAt_newNet hn, if_pos rfl]; simp
      · simp only [held]; rw [heldAt_newNet hn, if_neg hi]
    · rw [e] at hr; cases hr
    · rw [e] at hr; cases hr

/-- a destructive measurement through a handle held at node `a` succeeds and removes exactly one
qubit, at `a` -/
theorem measure_population (s : Net) (a hdl : Nat) (oc : Bool) (hw : WF s) (hheld : hdl ∈ heldAt s a) :
    (step s (.measure hdl false oc)).2.1 = .outcome oc ∧
    held (step s (.measure hdl false oc)).1 a + 1 = held s a ∧
    ∀ i, i ≠ a → held (step s (.measure hdl false oc)).1 i = held s i := by
  have w := hw.toP
  simp only [step]
  obtain ⟨n, en, hm⟩ := mem_heldAt.1 hheld
  obtain ⟨vq, hv, hact, hvn, _⟩ := (w.nodes a n en).virtOK hdl hm
  obtain ⟨na, nd, q, r, ha, hh, hsn, ho, hq, hqa, _, hr', hrn, hreg⟩ := w.handle_sim hv hact
  rw [stepMeasure_destr hv hact hq hqa hsn hreg]
  have c : MeasCtx s hdl vq na nd q r :=
    { w := w, hv := hv, ha := ha, hh := hh, hsn := hsn, ho := ho, hq := hq, hr := hr', hrn := hrn }
  subst hvn
  refine ⟨rfl, ?_, fun i hi => ?_⟩
  · simp only [held]; rw [heldAt_measNet c, if_pos rfl, List.length_erase_of_mem hheld]
    have := List.length_pos_of_mem hheld
    omega
  · simp only [held]; rw [heldAt_measNet c, if_neg hi]

/-- sending moves exactly one qubit from the sender to the receiver -/
theorem send_population (s : Net) (a hdl b k : Nat) (hw : WF s) (hheld : hdl ∈ heldAt s a)
    (hr : (step s (.send hdl b)).2.1 = .num k) :
    a ≠ b ∧ held (step s (.send hdl b)).1 a + 1 = held s a ∧
    held (step s (.send hdl b)).1 b = held s b + 1 ∧
    ∀ i, i ≠ a → i ≠ b → held (step s (.send hdl b)).1 i = held s i := by
  have w := hw.toP
  simp only [step] at hr ⊢
  obtain ⟨n, en, hm⟩ := mem_heldAt.1 hheld
  obtain ⟨vq, hv, hact, hvn, _⟩ := (w.nodes a n en).virtOK hdl hm
  obtain ⟨_, _, o3, o4⟩ := @stepSend_other s hdl b
  rcases Nat.lt_or_ge b s.nodes.length with hb | hb
  · by_cases hne : b = vq.virtNode
    · rw [o4 vq hv hact hb hne] at hr; cases hr
    · have hnb : s.nodes[b]? = some s.nodes[b] := List.getElem?_eq_getElem hb
      rcases stepSend_cases hv hact hnb hne with ⟨hcap, e⟩ | ⟨_, e⟩
      · rw [e]
        have c : SendCtx s hdl b vq n s.nodes[b] :=
          { w := w, hv := hv, hact := hact, ha := hvn ▸ en, hh := hm, hb := hnb, hne := hne, hcap := hcap }
        subst hvn
        refine ⟨Ne.symm hne, ?_, ?_, fun i h1 h2 => ?_⟩
        · simp only [held]; rw [heldAt_sendNet c, if_pos rfl, List.length_erase_of_mem hheld]
          have := List.length_pos_of_mem hheld
          omega
        · simp only [held]; rw [heldAt_sendNet c, if_neg hne, if_pos rfl]; simp
        · simp only [held]; rw [heldAt_sendNet c, if_neg h1, if_neg h2]
      · rw [e] at hr; cases hr
  · rw [o3 vq hv hact hb] at hr; cases hr

/-- single-qubit gates change nothing in the state -/
theorem gate1_unchanged (s : Net) (h : Nat) (g : G1) : (step s (.gate1 h g)).1 = s :=
  stepGate1_state s h g

/-- a non-destructive measurement changes nothing in the state -/
theorem measure_inplace_unchanged (s : Net) (h : Nat) (oc : Bool) : (step s (.measure h true oc)).1 = s := by
  simp only [step]
  unfold stepMeasure
  cases s.vqs[h]? with
  | none => rfl
  | some vq =>
    simp only
    split
    · rfl
    · cases s.sqs[vq.simObj]? with
      | none => rfl
      | some sq => simp only; split <;> rfl

/-- two-qubit gates (with all their register merges and re-pointing of handles, locally and at
other nodes) leave every node's list of held handles as it is -/
theorem gate2_population (s : Net) (hc ht : Nat) (g : G2) (hw : WF s) (i : Nat) :
    heldAt (step s (.gate2 hc ht g)).1 i = heldAt s i := by
  simp only [step]
  rcases stepGate2_spec hw.toP hc ht g with ⟨h, _⟩ | ⟨_, _, h, _⟩
  · rw [h]
  · exact heldAt_congr h.virt i

/-- every operation that is refused or fails (`err _`), does nothing (`none`: inactive handle) or is
not expressible (`badCall`, `selfSend`) leaves the *state* unchanged -/
theorem failed_unchanged (s : Net) (op : Op) (hw : WF s)
    (hr : (∃ e, (step s op).2.1 = .err e) ∨ (step s op).2.1 = .none ∨ (step s op).2.1 = .badCall ∨
      (step s op).2.1 = .selfSend) : (step s op).1 = s := by
  have w := hw.toP
  cases op with
  | new a =>
    simp only [step] at hr ⊢
    cases hn : s.nodes[a]? with
    | none => rw [stepNew_bad hn]
    | some n =>
      rcases stepNew_cases w hn with ⟨_, _, e⟩ | ⟨_, e⟩ | ⟨_, _, e⟩
      · rw [e] at hr; simp at hr
      · rw [e]
      · rw [e]
  | gate1 h g => exact stepGate1_state s h g
  | gate2 hc ht g =>
    simp only [step] at hr ⊢
    rcases stepGate2_spec w hc ht g with ⟨h, _⟩ | ⟨h, _⟩
    · exact h
    · rw [h] at hr; simp at hr
  | send h b =>
    simp only [step] at hr ⊢
    obtain ⟨o1, o2, o3, o4⟩ := @stepSend_other s h b
    cases hv : s.vqs[h]? with
    | none => rw [o1 hv]
    | some vq =>
      cases hact : vq.active with
      | false => rw [o2 vq hv hact]
      | true =>
        rcases Nat.lt_or_ge b s.nodes.length with hb | hb
        · by_cases hne : b = vq.virtNode
          · rw [o4 vq hv hact hb hne]
          · have hnb : s.nodes[b]? = some s.nodes[b] := List.getElem?_eq_getElem hb
            rcases stepSend_cases hv hact hnb hne with ⟨_, e⟩ | ⟨_, e⟩
            · rw [e] at hr; simp at hr
            · rw [e]
        · rw [o3 vq hv hact hb]
  | measure h ip oc =>
    simp only [step] at hr ⊢
    obtain ⟨o1, o2, o3⟩ := @stepMeasure_inert s h ip oc
    cases hv : s.vqs[h]? with
    | none => rw [o1 hv]
    | some vq =>
      cases hact : vq.active with
      | false => rw [o2 vq hv hact]
      | true =>
        obtain ⟨na, nd, q, r, ha, hh, hsn, ho, hq, hqa, _, hr', hrn, hreg⟩ := w.handle_sim hv hact
        cases ip with
        | true => rw [o3 vq q hv hact hq hqa rfl]
        | false =>
          rw [stepMeasure_destr hv hact hq hqa hsn hreg] at hr
          simp at hr

/-- … hence the population of every node -/
theorem failed_population (s : Net) (op : Op) (hw : WF s)
    (hr : (∃ e, (step s op).2.1 = .err e) ∨ (step s op).2.1 = .none ∨ (step s op).2.1 = .badCall ∨
      (step s op).2.1 = .selfSend) (i : Nat) : held (step s op).1 i = held s i := by
  rw [failed_unchanged s op hw hr]

/-- the result kinds of an operation that was refused, failed, or did nothing -/
def Refused (r : Res) : Prop := (∃ e, r = .err e) ∨ r = .none ∨ r = .badCall ∨ r = .selfSend

/-- nothing else changes the population: if the population of some node changes, the operation was a
create, a destructive measurement or a send, and it was not refused -/
theorem population_changes_only (s : Net) (op : Op) (hw : WF s) (i : Nat)
    (hch : held (step s op).1 i ≠ held s i) :
    ((∃ a, op = .new a) ∨ (∃ h oc, op = .measure h false oc) ∨ (∃ h b, op = .send h b)) ∧
    ¬ Refused (step s op).2.1 := by
  refine ⟨?_, fun hr => hch (failed_population s op hw hr i)⟩
  cases op with
  | new a => exact Or.inl ⟨a, rfl⟩
  | gate1 h g => rw [gate1_unchanged] at hch; exact absurd rfl hch
  | gate2 hc ht g =>
    exfalso; apply hch
    simp only [held]; rw [gate2_population s hc ht g hw i]
  | send h b => exact Or.inr (Or.inr ⟨h, b, rfl⟩)
  | measure h ip oc =>
    cases ip with
    | true => rw [measure_inplace_unchanged] at hch; exact absurd rfl hch
    | false => exact Or.inr (Or.inl ⟨h, oc, rfl⟩)

/-! ### non-vacuity -/

/-- three qubits created at node 0, merged into one register by two CNOTs, one of them sent to node 1 -/
def exOps : List Op :=
  [.new 0, .new 0, .new 0, .gate2 0 1 .CNOT, .gate2 0 2 .CNOT, .send 2 1]

def exState : Net := (run (init [(3, 5), (3, 5)]) exOps).1

/-- the state is reachable, hence well-formed -/
example : Reach [(3, 5), (3, 5)] exState := run_reachable _ _
example : WF exState := wf_run _ _

/-- one merged register of three qubits at node 0 … -/
example : (exState.nodes[0]?).map (fun n => n.regs.map (fun r => r.toks.length)) = some [3] := by decide
/-- … whose qubits are held by two different nodes: node 0 holds handles 0 and 1, node 1 holds the
handle 3 it received, and all three are simulated at node 0 in that register, at positions 0, 1, 2 -/
example : heldAt exState 0 = [0, 1] ∧ heldAt exState 1 = [3] := by decide
example : [0, 1, 3].map (fun h => (exState.vqs[h]?).map (fun v => (v.simNode, v.simObj))) =
    [some (0, 0), some (0, 1), some (0, 2)] := by decide
example : [0, 1, 2].map (fun o => (exState.sqs[o]?).map (fun q => (q.node, q.reg, q.pos))) =
    [some (0, 0, 0), some (0, 0, 1), some (0, 0, 2)] := by decide
example : [0, 1, 3].map (tokOf exState) = [some 0, some 1, some 2] := by decide
/-- the results of the six operations -/
example : (run (init [(3, 5), (3, 5)]) exOps).2 = [.handle 0, .handle 1, .handle 2, .unit, .unit, .num 0] := by
  decide
/-- instances of the hypotheses of the population theorems on this history: handle 3 is held at
node 1 (remotely simulated, middle of nothing: position 2 of 3), handle 0 at node 0 (position 0 of the
merged register: measuring it renumbers the other two) -/
example : held exState 0 = 2 ∧ held exState 1 = 1 := by decide
example : 3 ∈ heldAt exState 1 ∧ 0 ∈ heldAt exState 0 := by decide
example : (step exState (.measure 0 false true)).2.1 = .outcome true ∧
    held (step exState (.measure 0 false true)).1 0 = 1 ∧
    [1, 3].map (tokOf (step exState (.measure 0 false true)).1) = [some 1, some 2] := by decide
example : (step exState (.send 3 0)).2.1 = .num 2 ∧ held (step exState (.send 3 0)).1 0 = 3 ∧
    held (step exState (.send 3 0)).1 1 = 0 := by decide
/-- a refused operation on it: node 0 is at its register-independent qubit limit after the send back -/
example : (step (step exState (.send 3 0)).1 (.new 0)).2.1 = .err .noQubit := by decide

end SqVerif.C02

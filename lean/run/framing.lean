import SqVerif.Drive.Framing
/- `lake env lean --run run/framing.lean`: one operation per input line, one canonical observation per output line. -/
def main : IO Unit := SqVerif.Drive.loopStateless SqVerif.Drive.Framing.handle

"""Recording stand-in for the `daemons` package (not installed in this sandbox, and the CLI stage of C16/C18 must
never launch a network): `simulaqron/simulaqron.py` needs `daemons.prefab.run.RunDaemon` and
`daemons.interfaces.exit` to be importable.  `start()` / `stop()` do not fork, they append one JSON line with the
daemon's attributes to the file named by $SQV_DAEMON_LOG (the harness reads it to check `simulaqron start`'s
argument handling)."""

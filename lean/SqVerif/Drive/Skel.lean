import SqVerif.SkelAccept
import SqVerif.Gen.Skeleton
import SqVerif.Drive.Util
/- driver for trace acceptance (harness/skeltrace.py).
   in : `<method> <end> <obs> <obs> …`   method = Lean name of a translated method (`remote_cnot_onto`, `sq_lock`, …)
        end  = `ret` | `exc` | `open`
        obs  = `A:<roles>` | `R:<roles>`            node lock acquired / released (requested, for `ALL`)
             | `QA:<qrefs>` | `QR:<qrefs>`          qubit lock(s) acquired / released
             | `M:<roles>:<field>`                  mutation of a per-node container (virtQubits simQubits registers)
             | `C:<roles>:<method>`                 call of a node method
        roles = comma separated subset of SELF SIMc SIMt SIMq RECV ALL PART CUR OLD PEER (may be empty)
        qrefs = comma separated subset of Qc Qt Qq REGc REGt REGq ARG REGARG REGDEL NEW THIS
   out: `accept` | `reject at <index>: expected one of <obs / end> …` | `unknown-method` | `bad-op`
        (`index` = number of observations of the longest accepted prefix; the expectations are the most specific
        observations / ends with which the skeleton could go on from there) -/
namespace SqVerif.Drive.Skel
open SqVerif.Skel SqVerif.Drive

def handle? : String → Option Handle
  | "c" => some .c | "t" => some .t | "q" => some .q | _ => none

def role? : String → Option Role
  | "SELF" => some .SELF | "SIMc" => some (.SIM .c) | "SIMt" => some (.SIM .t) | "SIMq" => some (.SIM .q)
  | "RECV" => some .RECV | "ALL" => some .ALL | "PART" => some .PART | "CUR" => some .CUR | "OLD" => some .OLD
  | "PEER" => some .PEER | _ => none

def qref? : String → Option QRef
  | "Qc" => some (.Q .c) | "Qt" => some (.Q .t) | "Qq" => some (.Q .q)
  | "REGc" => some (.REG .c) | "REGt" => some (.REG .t) | "REGq" => some (.REG .q)
  | "ARG" => some .ARG | "REGARG" => some .REGARG | "REGDEL" => some .REGDEL | "NEW" => some .NEW
  | "THIS" => some .THIS | _ => none

def list? {α : Type} (f : String → Option α) (s : String) : Option (List α) :=
  if s.isEmpty then some [] else (s.splitOn ",").mapM f

def obs? (tok : String) : Option Obs :=
  match tok.splitOn ":" with
  | ["A", rs] => (list? role? rs).map Obs.acq
  | ["R", rs] => (list? role? rs).map Obs.rel
  | ["QA", qs] => (list? qref? qs).map Obs.qacq
  | ["QR", qs] => (list? qref? qs).map Obs.qrel
  | ["M", rs, f] => (list? role? rs).map (Obs.mut · f)
  | ["C", rs, m] => (list? role? rs).map (Obs.call · m)
  | _ => none

def end? : String → Option End
  | "ret" => some .ret | "exc" => some .exc | "open" => some .open | _ => none

def showHandle : Handle → String
  | .c => "c" | .t => "t" | .q => "q"

def showRole : Role → String
  | .SELF => "SELF" | .SIM h => "SIM" ++ showHandle h | .RECV => "RECV" | .ALL => "ALL" | .PART => "PART"
  | .CUR => "CUR" | .OLD => "OLD" | .PEER => "PEER"

def showQRef : QRef → String
  | .Q h => "Q" ++ showHandle h | .REG h => "REG" ++ showHandle h | .ARG => "ARG" | .REGARG => "REGARG"
  | .REGDEL => "REGDEL" | .NEW => "NEW" | .THIS => "THIS"

def showObs : Obs → String
  | .acq rs => "A:" ++ ",".intercalate (rs.map showRole)
  | .rel rs => "R:" ++ ",".intercalate (rs.map showRole)
  | .qacq qs => "QA:" ++ ",".intercalate (qs.map showQRef)
  | .qrel qs => "QR:" ++ ",".intercalate (qs.map showQRef)
  | .mut rs f => "M:" ++ ",".intercalate (rs.map showRole) ++ ":" ++ f
  | .call rs m => "C:" ++ ",".intercalate (rs.map showRole) ++ ":" ++ m

def showEnd : End → String
  | .ret => "ret" | .exc => "exc" | .open => "open"

def judge (s : Stmt) (tr : List Obs) (en : End) : String :=
  if accepts s tr en then "accept"
  else
    let k := acceptedPrefix s tr
    let (os, es) := expectedAfter s (tr.take k)
    let exp := os.map showObs ++ es.map showEnd
    "reject at " ++ toString k ++ ": expected one of " ++ (if exp.isEmpty then "-" else " ".intercalate exp)

def handle (line : String) : String :=
  match words line with
  | name :: en :: toks =>
    match SqVerif.Gen.allMethods.find name, end? en, toks.mapM obs? with
    | none, _, _ => "unknown-method"
    | some s, some en, some tr => judge s tr en
    | _, _, _ => "bad-op"
  | _ => "bad-op"

end SqVerif.Drive.Skel

/-
L2 — executable model of the virtual-node layer
(`simulaqron/virtual_node/virtual.py` + `quantum.py`): every client-visible
operation (`remote_new_qubit`, `_single_gate`, `_two_qubit_gate` with its seven
placement cases, `remote_send_qubit`, `remote_measure`) as ONE atomic step over
the object graph of all nodes.  Core Lean only.

Objects have identities, as in Python: `VQ.hid` / `SQ.oid` are indices into the
global stores `vqs` / `sqs` (objects are never destroyed — clients may retain
stale handles, third nodes may reference simulated-qubit objects that were
removed from their node's list); a node's `virt` / `sim` lists hold identities
in list order.  A register carries only bookkeeping (`num`, `max`) plus the
ghost field `toks`: which logical qubit (token) sits at which position.  The
quantum content of a register is the business of L0/L1; every engine call the
step makes is emitted as an `EOp` so that (a) the harness can compare it with
the calls the real engines receive and (b) the refinement theorem can translate
positions to tokens.

The model mirrors the code AFTER the repairs of F1 (`send` of a remotely
simulated qubit), F2 (remote error classes) and F3 (handles and simulated
qubits are deactivated on removal).
-/
namespace SqVerif.VNet

inductive Err where
  | noQubit      -- noQubitError: node (or register) at capacity
  | quantum      -- quantumError: register limit, no such qubit, …
  | virtNet      -- virtNetError: unknown node name
  | unsupported  -- SimUnsupportedError: gate not available on this backend
  | value        -- ValueError: identical control and target
  deriving DecidableEq, Repr

inductive G1 where | X | Y | Z | H | K | T | Rot deriving DecidableEq, Repr
inductive G2 where | CNOT | CPHASE deriving DecidableEq, Repr

/-- the stabilizer backend refuses T and rotations -/
def G1.supported : G1 → Bool
  | .T => false | .Rot => false | _ => true

structure SQ where
  node : Nat
  simNum : Nat
  reg : Nat
  pos : Nat
  active : Bool
  deriving DecidableEq, Repr

structure VQ where
  virtNode : Nat
  num : Nat
  simNode : Nat
  simObj : Nat
  active : Bool
  deriving DecidableEq, Repr

structure Reg where
  num : Nat
  max : Nat
  toks : List Nat
  deriving DecidableEq, Repr

structure Node where
  maxQubits : Nat
  maxRegs : Nat
  numRegs : Nat
  nextReg : Nat
  regs : List Reg
  virt : List Nat
  sim : List Nat
  deriving DecidableEq, Repr

structure Net where
  nodes : List Node
  sqs : List SQ
  vqs : List VQ
  nextTok : Nat
  deriving DecidableEq, Repr

/-- engine-level calls, in the order the code makes them -/
inductive EOp where
  | newReg (node reg : Nat)
  | delReg (node reg : Nat)
  | addFresh (node reg : Nat)
  | gate1 (g : G1) (node reg pos : Nat)
  | gate2 (g : G2) (node reg c t : Nat)
  | measInplace (node reg pos : Nat) (outcome : Bool)
  | remove (node reg pos : Nat)
  | absorb (node reg1 reg2 : Nat)
  | exportDel (node reg : Nat)
  | absorbParts (node reg srcNode srcReg : Nat)
  deriving DecidableEq, Repr

inductive Res where
  | handle (hid : Nat)
  | num (n : Nat)
  | outcome (b : Bool)
  | unit
  | none           -- the call returned without doing anything (inactive handle)
  | err (e : Err)
  | badCall        -- not expressible through the API (handles of different nodes, unknown handle)
  | selfSend       -- send addressed to the issuing node: the real code deadlocks (known finding F8)
  deriving DecidableEq, Repr

inductive Op where
  | new (node : Nat)
  | gate1 (h : Nat) (g : G1)
  | gate2 (hc ht : Nat) (g : G2)
  | send (h : Nat) (target : Nat)
  | measure (h : Nat) (inplace : Bool) (outcome : Bool)
  deriving DecidableEq, Repr

def mkNode (maxQubits maxRegs : Nat) : Node :=
  { maxQubits, maxRegs, numRegs := 0, nextReg := 0, regs := [], virt := [], sim := [] }

def init (caps : List (Nat × Nat)) : Net :=
  { nodes := caps.map fun c => mkNode c.1 c.2, sqs := [], vqs := [], nextTok := 0 }

/-! ### small helpers -/

def modNode (s : Net) (i : Nat) (f : Node → Node) : Net :=
  { s with nodes := s.nodes.modify i f }

def setSQ (s : Net) (o : Nat) (f : SQ → SQ) : Net := { s with sqs := s.sqs.modify o f }
def setVQ (s : Net) (h : Nat) (f : VQ → VQ) : Net := { s with vqs := s.vqs.modify h f }

/-- `get_virtual_id` / `get_sim_id`: first `j` in `range(len+1)` not used -/
def firstFree (used : List Nat) : Nat :=
  ((List.range (used.length + 1)).find? fun j => !used.contains j).getD used.length

def Node.reg? (n : Node) (num : Nat) : Option Reg := n.regs.find? fun r => r.num == num
def Node.modReg (n : Node) (num : Nat) (f : Reg → Reg) : Node :=
  { n with regs := n.regs.map fun r => if r.num == num then f r else r }
def Node.delReg (n : Node) (num : Nat) : Node :=
  { n with regs := n.regs.filter (fun r => r.num != num), numRegs := n.numRegs - 1 }

def simNums (s : Net) (n : Node) : List Nat := n.sim.filterMap fun o => (s.sqs[o]?).map (·.simNum)
def virtNums (s : Net) (n : Node) : List Nat := n.virt.filterMap fun h => (s.vqs[h]?).map (·.num)

/-- `remote_new_register` (virtual.py:392-420) -/
def addRegister (s : Net) (a : Nat) : Except Err (Net × Nat) :=
  match s.nodes[a]? with
  | none => .error .virtNet
  | some n =>
    if n.numRegs ≥ n.maxRegs then .error .quantum
    else
      let num := n.nextReg
      .ok (modNode s a fun n => { n with numRegs := n.numRegs + 1, nextReg := n.nextReg + 1,
                                         regs := n.regs ++ [{ num := num, max := 10, toks := [] }] }, num)

/-- `remote_new_qubit` (436-472) -/
def stepNew (s : Net) (a : Nat) : Net × Res × List EOp :=
  match s.nodes[a]? with
  | none => (s, .badCall, [])
  | some n =>
    if n.virt.length ≥ n.maxQubits then (s, .err .noQubit, [])
    else
      let simNum := firstFree (simNums s n)
      match addRegister s a with
      | .error e => (s, .err e, [])
      | .ok (s1, regNum) =>
        let tok := s1.nextTok
        let oid := s1.sqs.length
        let hid := s1.vqs.length
        let newNum := firstFree (virtNums s n)
        let s2 : Net :=
          { s1 with sqs := s1.sqs ++ [{ node := a, simNum := simNum, reg := regNum, pos := 0, active := true }],
                    vqs := s1.vqs ++ [{ virtNode := a, num := newNum, simNode := a, simObj := oid, active := true }],
                    nextTok := tok + 1 }
        let s3 := modNode s2 a fun n => { (n.modReg regNum fun r => { r with toks := r.toks ++ [tok] }) with
                                          sim := n.sim ++ [oid], virt := n.virt ++ [hid] }
        (s3, .handle hid, [.newReg a regNum, .addFresh a regNum])

/-- `_single_gate` (1265-1290) -/
def stepGate1 (s : Net) (h : Nat) (g : G1) : Net × Res × List EOp :=
  match s.vqs[h]? with
  | none => (s, .badCall, [])
  | some vq =>
    if !vq.active then (s, .none, [])
    else match s.sqs[vq.simObj]? with
      | none => (s, .badCall, [])
      | some sq =>
        if !sq.active then (s, .unit, [])
        else if !g.supported then (s, .err .unsupported, [])
        else (s, .unit, [.gate1 g vq.simNode sq.reg sq.pos])

/-- `local_merge_regs(q1, q2)` at node `n` (908-954): the register of `q1`
absorbs the register of `q2` -/
def localMerge (s : Net) (n : Nat) (o1 o2 : Nat) : Net × List EOp :=
  match s.sqs[o1]?, s.sqs[o2]?, s.nodes[n]? with
  | some q1, some q2, some nd =>
    if q1.reg == q2.reg then (s, [])
    else match nd.reg? q1.reg, nd.reg? q2.reg with
      | some r1, some r2 =>
        let offset := r1.toks.length
        let s1 := modNode s n fun nd =>
          (nd.modReg q1.reg fun r => { r with max := r.max + r2.toks.length, toks := r.toks ++ r2.toks }).delReg q2.reg
        let s2 : Net := { s1 with sqs := s1.sqs.mapIdx fun o q =>
            if (nd.sim.contains o && q.reg == q2.reg) then { q with reg := q1.reg, pos := q.pos + offset } else q }
        (s2, [.absorb n q1.reg q2.reg, .delReg n q2.reg])
      | _, _ => (s, [])
  | _, _, _ => (s, [])

/-- the `for k in range(activeQ)` loop of `remote_merge_from` (997-1004):
create `k` simulated qubits with successive smallest-unused ids -/
def mkSims (s : Net) (dst regNum offset : Nat) : Nat → Nat → Net × List Nat
  | 0, _ => (s, [])
  | k + 1, i =>
    match s.nodes[dst]? with
    | none => (s, [])
    | some nd =>
      let simNum := firstFree (simNums s nd)
      let oid := s.sqs.length
      let s1 : Net := { s with sqs := s.sqs ++ [{ node := dst, simNum := simNum, reg := regNum, pos := offset + i, active := true }] }
      let s2 := modNode s1 dst fun nd => { nd with sim := nd.sim ++ [oid] }
      let (s3, rest) := mkSims s2 dst regNum offset k (i + 1)
      (s3, oid :: rest)

/-- `remote_update_virtual_merge` at every node (1024-1077): re-point every
*held* handle that named a qubit of the old register at the old simulator -/
def repoint (s : Net) (src oldReg dst : Nat) (newD : List Nat) : Net :=
  let held : List Nat := s.nodes.flatMap (·.virt)
  { s with vqs := s.vqs.mapIdx fun h vq =>
      if (held.contains h && vq.simNode == src) then
        match s.sqs[vq.simObj]? with
        | some old => if old.reg == oldReg then
            { vq with simNode := dst, simObj := newD.getD old.pos vq.simObj } else vq
        | none => vq
      else vq }

/-- `remote_merge_from(simNodeName, simQubitNum, localReg)` (956-1022) incl.
`get_register_del` at the old simulator (1103-1138); returns the identity of
the new simulated qubit that replaces `o` -/
def mergeFrom (s : Net) (dst src : Nat) (o : Nat) (localReg : Nat) : Net × Nat × List EOp :=
  match s.sqs[o]?, s.nodes[src]?, s.nodes[dst]? with
  | some q, some sn, some dn =>
    match sn.reg? q.reg, dn.reg? localReg with
    | some oldR, some locR =>
      let oldReg := q.reg
      let activeQ := oldR.toks.length
      -- get_register_del: drop all simulated qubits of that register and the register
      let s1 := modNode s src fun nd =>
        ({ nd with sim := nd.sim.filter fun o' => match s.sqs[o']? with
                                                  | some q' => q'.reg != oldReg
                                                  | none => true }).delReg oldReg
      let offset := locR.toks.length
      let s2 := modNode s1 dst fun nd =>
        nd.modReg localReg fun r => { r with max := r.max + activeQ, toks := r.toks ++ oldR.toks }
      let (s3, newD) := mkSims s2 dst localReg offset activeQ 0
      let s4 := repoint s3 src oldReg dst newD
      (s4, newD.getD q.pos o, [.exportDel src oldReg, .delReg src oldReg, .absorbParts dst localReg src oldReg])
    | _, _ => (s, o, [])
  | _, _, _ => (s, o, [])

def gate2Op (s : Net) (g : G2) (oc ot : Nat) : Net × Res × List EOp :=
  match s.sqs[oc]?, s.sqs[ot]? with
  | some qc, some qt =>
    if qc.pos == qt.pos then (s, .err .value, [])   -- apply_CNOT(c, c): ValueError, nothing changed
    else (s, .unit, [.gate2 g qc.node qc.reg qc.pos qt.pos])
  | _, _ => (s, .badCall, [])

/-- `_two_qubit_gate` (1490-1654) -/
def stepGate2 (s : Net) (hc ht : Nat) (g : G2) : Net × Res × List EOp :=
  match s.vqs[hc]?, s.vqs[ht]? with
  | some vc, some vt =>
    if vc.virtNode != vt.virtNode then (s, .badCall, [])
    else if !vc.active || !vt.active then (s, .none, [])
    else
      let a := vc.virtNode
      if vc.simNode == vt.simNode then
        -- both simulated at the same node (locally or remotely): merge registers there if needed
        let (s1, e1) := localMerge s vc.simNode vc.simObj vt.simObj
        let (s2, r, e2) := gate2Op s1 g vc.simObj vt.simObj
        (s2, r, e1 ++ e2)
      else if vc.simNode == a then
        -- control local: pull the target's register into the control's register
        match s.sqs[vc.simObj]? with
        | none => (s, .badCall, [])
        | some qc =>
          let (s1, newT, e1) := mergeFrom s a vt.simNode vt.simObj qc.reg
          let s1' := setVQ s1 ht fun v => { v with simObj := newT }
          let (s2, r, e2) := gate2Op s1' g vc.simObj newT
          (s2, r, e1 ++ e2)
      else if vt.simNode == a then
        -- target local: pull the control's register into the target's register
        match s.sqs[vt.simObj]? with
        | none => (s, .badCall, [])
        | some qt =>
          let (s1, newC, e1) := mergeFrom s a vc.simNode vc.simObj qt.reg
          let s1' := setVQ s1 hc fun v => { v with simObj := newC }
          let (s2, r, e2) := gate2Op s1' g newC vt.simObj
          (s2, r, e1 ++ e2)
      else
        -- both remote, two different simulators: new local register, pull both
        match addRegister s a with
        | .error e => (s, .err e, [])
        | .ok (s0, newReg) =>
          let (s1, newC, e1) := mergeFrom s0 a vc.simNode vc.simObj newReg
          let s1' := setVQ s1 hc fun v => { v with simObj := newC }
          let (s2, newT, e2) := mergeFrom s1' a vt.simNode vt.simObj newReg
          let s2' := setVQ s2 ht fun v => { v with simObj := newT }
          let (s3, r, e3) := gate2Op s2' g newC newT
          (s3, r, [.newReg a newReg] ++ e1 ++ e2 ++ e3)
  | _, _ => (s, .badCall, [])

/-- `remote_add_qubit(name, simQubit)` at the receiving node (771-806) -/
def addQubitAt (s : Net) (b : Nat) (simNode : Nat) (o : Nat) : Except Err (Net × Nat) :=
  match s.nodes[b]? with
  | none => .error .virtNet
  | some n =>
    if n.virt.length ≥ n.maxQubits then .error .noQubit
    else
      let newNum := firstFree (virtNums s n)
      let hid := s.vqs.length
      let s1 : Net := { s with vqs := s.vqs ++ [{ virtNode := b, num := newNum, simNode := simNode, simObj := o, active := true }] }
      .ok (modNode s1 b fun n => { n with virt := n.virt ++ [hid] }, newNum)

/-- `remote_send_qubit` (671-735) and `remote_transfer_qubit` (737-769) -/
def stepSend (s : Net) (h : Nat) (b : Nat) : Net × Res × List EOp :=
  match s.vqs[h]? with
  | none => (s, .badCall, [])
  | some vq =>
    if !vq.active then (s, .none, [])
    else if b ≥ s.nodes.length then (s, .err .virtNet, [])
    else if b == vq.virtNode then (s, .selfSend, [])
    else
      -- whether simulated locally or at a third node, the receiver gets a handle
      -- naming the current simulator and the same simulated-qubit object
      match addQubitAt s b vq.simNode vq.simObj with
      | .error e => (s, .err e, [])
      | .ok (s1, newNum) =>
        let s2 := setVQ s1 h fun v => { v with active := false }
        let s3 := modNode s2 vq.virtNode fun n => { n with virt := n.virt.erase h }
        (s3, .num newNum, [])

/-- `_remove_sim_qubit` (834-887) at the simulating node -/
def removeSim (s : Net) (sn : Nat) (o : Nat) : Net × List EOp :=
  match s.sqs[o]?, s.nodes[sn]? with
  | some q, some nd =>
    match nd.reg? q.reg with
    | none => (s, [])
    | some r =>
      let toks' := r.toks.eraseIdx q.pos
      let s1 := modNode s sn fun nd =>
        let nd1 := if toks'.isEmpty then nd.delReg q.reg else nd.modReg q.reg fun r => { r with toks := toks' }
        { nd1 with sim := nd1.sim.erase o }
      let s2 : Net := { s1 with sqs := s1.sqs.mapIdx fun o' q' =>
          if o' == o then { q' with active := false }
          else if (!toks'.isEmpty && nd.sim.contains o' && q'.reg == q.reg && decide (q'.pos > q.pos)) then { q' with pos := q'.pos - 1 }
          else q' }
      (s2, [.remove sn q.reg q.pos] ++ (if toks'.isEmpty then [.delReg sn q.reg] else []))
  | _, _ => (s, [])

/-- `virtualQubit.remote_measure` (1344-1375) -/
def stepMeasure (s : Net) (h : Nat) (inplace : Bool) (outcome : Bool) : Net × Res × List EOp :=
  match s.vqs[h]? with
  | none => (s, .badCall, [])
  | some vq =>
    if !vq.active then (s, .none, [])
    else match s.sqs[vq.simObj]? with
      | none => (s, .badCall, [])
      | some sq =>
        if !sq.active then (s, .none, [])
        else
          let e0 := [EOp.measInplace vq.simNode sq.reg sq.pos outcome]
          if inplace then (s, .outcome outcome, e0)
          else
            let (s1, e1) := removeSim s vq.simNode vq.simObj
            let s2 := modNode s1 vq.virtNode fun n => { n with virt := n.virt.erase h }
            let s3 := setVQ s2 h fun v => { v with active := false }
            (s3, .outcome outcome, e0 ++ e1)

def step (s : Net) : Op → Net × Res × List EOp
  | .new a => stepNew s a
  | .gate1 h g => stepGate1 s h g
  | .gate2 hc ht g => stepGate2 s hc ht g
  | .send h b => stepSend s h b
  | .measure h ip o => stepMeasure s h ip o

def run (s : Net) : List Op → Net × List Res
  | [] => (s, [])
  | op :: ops =>
    let (s1, r, _) := step s op
    let (s2, rs) := run s1 ops
    (s2, r :: rs)

end SqVerif.VNet

import SqVerif.SkelTwoPL
/-!
# Two-phase modulo aborted attempts — layer L3, serves C03

`WeakTP a`: transaction `a` never acquires after a release that *follows an effect*.  Releases made before the
first effect (the optimistic retry of `_lock_simulating_node` / `_lock_nodes`: lock, find the pointer stale,
unlock, try again) are allowed.  `dropAb` removes exactly those releases — and the acquires they undo — from a
schedule.  The pruned schedule has the same effects in the same order (`exec_dropAb`, `dropAb_effs`), is still
legal (`dropAb_legal`) and is two-phase in the strict sense (`dropAb_allTwoPhase`), so
`TwoPL.twoPL_serializable` applies to it: `weak2pl_serializable`.
-/
namespace SqVerif.SkelTwoPL
open SqVerif.TwoPL

variable {V : Type}

/-! ### the weak two-phase discipline -/

/-- `e`: an effect has been seen; `sh`: a release after an effect has been seen (shrinking phase) -/
def weakTPB : Bool → Bool → Txn V → Bool
  | _, _, [] => true
  | e, sh, .acq _ :: r => !sh && weakTPB e sh r
  | e, sh, .rel _ :: r => weakTPB e (sh || e) r
  | _, sh, .eff _ _ :: r => weakTPB true sh r

/-- two-phase modulo aborted attempts: no acquire after a release that follows an effect -/
def WeakTP (a : Txn V) : Prop := weakTPB false false a = true

def isAcqA : Act V → Bool
  | .acq _ => true
  | _ => false
def isRelA : Act V → Bool
  | .rel _ => true
  | _ => false
def isEffA : Act V → Bool
  | .eff _ _ => true
  | _ => false

theorem weakTPB_mono (a : Txn V) : ∀ e sh e' sh', (e' = true → e = true) → (sh' = true → sh = true) →
    weakTPB e sh a = true → weakTPB e' sh' a = true := by
  induction a with
  | nil => intros; rfl
  | cons x xs ih =>
    intro e sh e' sh' he hsh h
    cases x with
    | acq l =>
      simp only [weakTPB, Bool.and_eq_true, Bool.not_eq_true'] at h ⊢
      refine ⟨?_, ih e sh e' sh' he hsh h.2⟩
      cases hs : sh' with
      | false => rfl
      | true => have := hsh hs; rw [this] at h; cases h.1
    | rel l =>
      simp only [weakTPB] at h ⊢
      apply ih e (sh || e) e' (sh' || e') he _ h
      intro h'
      simp only [Bool.or_eq_true] at h' ⊢
      rcases h' with h' | h'
      · exact Or.inl (hsh h')
      · exact Or.inr (he h')
    | eff fp f =>
      simp only [weakTPB] at h ⊢
      exact ih true sh true sh' (fun _ => rfl) hsh h

theorem weakTPB_append (a b : Txn V) : ∀ e sh, weakTPB e sh (a ++ b) = true → weakTPB e sh a = true := by
  induction a with
  | nil => intros; rfl
  | cons x xs ih =>
    intro e sh h
    cases x with
    | acq l =>
      simp only [List.cons_append, weakTPB, Bool.and_eq_true] at h ⊢
      exact ⟨h.1, ih e sh h.2⟩
    | rel l => simp only [List.cons_append, weakTPB] at h ⊢; exact ih _ _ h
    | eff fp f => simp only [List.cons_append, weakTPB] at h ⊢; exact ih _ _ h

/-- once shrinking, no acquire -/
theorem weakTPB_shrinking (a : Txn V) : ∀ e, weakTPB e true a = true → ∀ x, x ∈ a → isAcqA x = false := by
  induction a with
  | nil => intro _ _ x hx; cases hx
  | cons y ys ih =>
    intro e h x hx
    cases y with
    | acq l => simp [weakTPB] at h
    | rel l =>
      simp only [weakTPB, Bool.true_or] at h
      rcases List.mem_cons.1 hx with rfl | hx
      · rfl
      · exact ih e h x hx
    | eff fp f =>
      simp only [weakTPB] at h
      rcases List.mem_cons.1 hx with rfl | hx
      · rfl
      · exact ih true h x hx

/-- after an effect, a release starts the shrinking phase -/
theorem weakTPB_after_eff (a : Txn V) : ∀ sh, weakTPB true sh a = true →
    ∀ m r n, a = m ++ r :: n → isRelA r = true → ∀ x, x ∈ n → isAcqA x = false := by
  induction a with
  | nil => intro _ _ m r n h; cases m <;> cases h
  | cons y ys ih =>
    intro sh h m r n hs hr x hx
    cases m with
    | nil =>
      simp only [List.nil_append, List.cons.injEq] at hs
      obtain ⟨rfl, rfl⟩ := hs
      cases y with
      | acq l => cases hr
      | eff fp f => cases hr
      | rel l =>
        simp only [weakTPB, Bool.or_true] at h
        exact weakTPB_shrinking _ true h x hx
    | cons z m' =>
      simp only [List.cons_append, List.cons.injEq] at hs
      obtain ⟨rfl, rfl⟩ := hs
      cases y with
      | acq l =>
        simp only [weakTPB, Bool.and_eq_true] at h
        exact ih sh h.2 m' r n rfl hr x hx
      | rel l =>
        simp only [weakTPB] at h
        exact ih _ h m' r n rfl hr x hx
      | eff fp f =>
        simp only [weakTPB] at h
        exact ih _ h m' r n rfl hr x hx

/-- **the positional reading of `WeakTP`**: effect … release … acquire does not occur -/
theorem weakTPB_spec (a : Txn V) : ∀ e sh, weakTPB e sh a = true →
    ∀ p ef m r n, a = p ++ ef :: m ++ r :: n → isEffA ef = true → isRelA r = true → ∀ x, x ∈ n → isAcqA x = false := by
  induction a with
  | nil => intro _ _ _ p ef m r n h; cases p <;> cases h
  | cons y ys ih =>
    intro e sh h p ef m r n hs hef hr x hx
    cases p with
    | nil =>
      simp only [List.nil_append, List.cons_append, List.cons.injEq] at hs
      obtain ⟨rfl, rfl⟩ := hs
      cases y with
      | acq l => cases hef
      | rel l => cases hef
      | eff fp f =>
        simp only [weakTPB] at h
        exact weakTPB_after_eff _ sh h m r n rfl hr x hx
    | cons z p' =>
      simp only [List.cons_append, List.cons.injEq] at hs
      obtain ⟨rfl, hs⟩ := hs
      cases y with
      | acq l =>
        simp only [weakTPB, Bool.and_eq_true] at h
        exact ih e sh h.2 p' ef m r n (by simpa using hs) hef hr x hx
      | rel l =>
        simp only [weakTPB] at h
        exact ih _ _ h p' ef m r n (by simpa using hs) hef hr x hx
      | eff fp f =>
        simp only [weakTPB] at h
        exact ih _ _ h p' ef m r n (by simpa using hs) hef hr x hx

theorem WeakTP_spec (a : Txn V) (h : WeakTP a) (p : Txn V) (ef : Act V) (m : Txn V) (r : Act V) (n : Txn V)
    (hs : a = p ++ ef :: m ++ r :: n) (hef : isEffA ef = true) (hr : isRelA r = true) :
    ∀ x, x ∈ n → isAcqA x = false :=
  weakTPB_spec a false false h p ef m r n hs hef hr

/-! ### removing the aborted attempts from a schedule -/

/-- looking ahead from just after `t` acquired `l`: `t` gives `l` back before it has any effect -/
def abortedAcq (t : Tid) (l : Lock) : Sched V → Bool
  | [] => false
  | x :: xs =>
    if x.tid = t then
      match x.act with
      | .eff _ _ => false
      | .rel l' => if l' = l then true else abortedAcq t l xs
      | .acq _ => abortedAcq t l xs
    else abortedAcq t l xs

/-- drop every release a transaction makes before its first effect and the acquire it undoes.
    `E`: the transactions that have had an effect so far. -/
def dropAb : List Tid → Sched V → Sched V
  | _, [] => []
  | E, x :: xs =>
    match x.act with
    | .eff _ _ => x :: dropAb (x.tid :: E) xs
    | .rel _ => if x.tid ∈ E then x :: dropAb E xs else dropAb E xs
    | .acq l => if x.tid ∉ E ∧ abortedAcq x.tid l xs = true then dropAb E xs else x :: dropAb E xs

theorem mem_dropAb (s : Sched V) : ∀ E x, x ∈ dropAb E s → x ∈ s := by
  induction s with
  | nil => intro _ x hx; cases hx
  | cons y ys ih =>
    intro E x hx
    simp only [dropAb] at hx
    cases hy : y.act with
    | eff fp f =>
      rw [hy] at hx
      rcases List.mem_cons.1 hx with rfl | hx
      · simp
      · exact List.mem_cons_of_mem _ (ih _ x hx)
    | rel l =>
      rw [hy] at hx
      simp only at hx
      split at hx
      · rcases List.mem_cons.1 hx with rfl | hx
        · simp
        · exact List.mem_cons_of_mem _ (ih _ x hx)
      · exact List.mem_cons_of_mem _ (ih _ x hx)
    | acq l =>
      rw [hy] at hx
      simp only at hx
      split at hx
      · exact List.mem_cons_of_mem _ (ih _ x hx)
      · rcases List.mem_cons.1 hx with rfl | hx
        · simp
        · exact List.mem_cons_of_mem _ (ih _ x hx)

theorem dropAb_sublist (s : Sched V) : ∀ E, (dropAb E s).Sublist s := by
  induction s with
  | nil => intro _; exact List.Sublist.refl _
  | cons y ys ih =>
    intro E
    simp only [dropAb]
    cases hy : y.act with
    | eff fp f => exact (ih _).cons_cons y
    | rel l =>
      simp only
      split
      · exact (ih _).cons_cons y
      · exact (ih _).cons y
    | acq l =>
      simp only
      split
      · exact (ih _).cons y
      · exact (ih _).cons_cons y

/-- the pruned schedule has the same effect on every state -/
theorem exec_dropAb (s : Sched V) : ∀ E st, exec (dropAb E s) st = exec s st := by
  induction s with
  | nil => intro _ _; rfl
  | cons y ys ih =>
    intro E st
    simp only [dropAb]
    cases hy : y.act with
    | eff fp f => simp only [exec, hy, ih]
    | rel l =>
      simp only
      split
      · simp only [exec, hy, ih]
      · simp only [exec, hy, Act.run, ih]
    | acq l =>
      simp only
      split
      · simp only [exec, hy, Act.run, ih]
      · simp only [exec, hy, ih]

/-- no effect step is dropped, and their order is kept -/
theorem dropAb_effs (s : Sched V) : ∀ E,
    (dropAb E s).filter (fun x => isEffA x.act) = s.filter (fun x => isEffA x.act) := by
  induction s with
  | nil => intro _; rfl
  | cons y ys ih =>
    intro E
    simp only [dropAb]
    cases hy : y.act with
    | eff fp f =>
      have hv : isEffA y.act = true := by rw [hy]; rfl
      simp only
      rw [List.filter_cons, List.filter_cons]
      simp only [hv, if_true, ih]
    | rel l =>
      have hv : isEffA y.act = false := by rw [hy]; rfl
      simp only
      split
      · rw [List.filter_cons, List.filter_cons]
        simp only [hv, Bool.false_eq_true, if_false, ih]
      · rw [List.filter_cons]
        simp only [hv, Bool.false_eq_true, if_false, ih]
    | acq l =>
      have hv : isEffA y.act = false := by rw [hy]; rfl
      simp only
      split
      · rw [List.filter_cons]
        simp only [hv, Bool.false_eq_true, if_false, ih]
      · rw [List.filter_cons, List.filter_cons]
        simp only [hv, Bool.false_eq_true, if_false, ih]

theorem dropAb_wf (s : Sched V) (E : List Tid) (h : AllWF s) : AllWF (dropAb E s) :=
  fun x hx => h x (mem_dropAb s E x hx)

/-! ### the pruned schedule is legal -/

/-- the lock table of the pruned schedule: locks held in an attempt that will be aborted are free -/
def pruneTbl (E : List Tid) (rest : Sched V) (tbl : Tbl) : Tbl :=
  fun l => match tbl l with
    | none => none
    | some t => if t ∉ E ∧ abortedAcq t l rest = true then none else some t

theorem abortedAcq_cons_acq (t : Tid) (l l0 : Lock) (x : Step V) (xs : Sched V) (hx : x.act = .acq l0) :
    abortedAcq t l (x :: xs) = abortedAcq t l xs := by
  simp only [abortedAcq, hx]
  split <;> rfl

theorem abortedAcq_cons_rel (t : Tid) (l l0 : Lock) (x : Step V) (xs : Sched V) (hx : x.act = .rel l0) :
    abortedAcq t l (x :: xs) = if x.tid = t ∧ l0 = l then true else abortedAcq t l xs := by
  simp only [abortedAcq, hx]
  by_cases h1 : x.tid = t
  · by_cases h2 : l0 = l
    · simp [h1, h2]
    · simp [h1, h2]
  · simp [h1]

theorem abortedAcq_cons_eff (t : Tid) (l : Lock) (x : Step V) (xs : Sched V) (fp : List Res) (f : St V → St V)
    (hx : x.act = .eff fp f) :
    abortedAcq t l (x :: xs) = if x.tid = t then false else abortedAcq t l xs := by
  simp only [abortedAcq, hx]

theorem dropAb_legal (guard : Res → Lock) (s : Sched V) : ∀ (E : List Tid) (tbl : Tbl),
    Legal guard tbl s → Legal guard (pruneTbl E s tbl) (dropAb E s) := by
  induction s with
  | nil => intro _ _ _; trivial
  | cons x xs ih =>
    intro E tbl hleg
    obtain ⟨tbl', hs, hrest⟩ := hleg
    unfold stepTbl at hs
    simp only [dropAb]
    cases hx : x.act with
    | acq l0 =>
      rw [hx] at hs
      simp only at hs
      split at hs
      · rename_i hfree
        simp only [Option.some.injEq] at hs
        subst hs
        -- the tables away from l0
        have haway : ∀ l, l ≠ l0 → pruneTbl E (x :: xs) tbl l = pruneTbl E xs (upd tbl l0 (some x.tid)) l := by
          intro l hl
          unfold pruneTbl upd
          rw [if_neg hl]
          cases tbl l with
          | none => rfl
          | some t => simp only [abortedAcq_cons_acq t l l0 x xs hx]
        simp only
        split
        · rename_i hdrop
          have : pruneTbl E (x :: xs) tbl = pruneTbl E xs (upd tbl l0 (some x.tid)) := by
            funext l
            by_cases hl : l = l0
            · subst hl
              unfold pruneTbl upd
              rw [hfree]
              simp only [if_true]
              rw [if_pos hdrop]
            · exact haway l hl
          rw [this]
          exact ih E _ hrest
        · rename_i hkeep
          refine ⟨pruneTbl E xs (upd tbl l0 (some x.tid)), ?_, ih E _ hrest⟩
          unfold stepTbl
          rw [hx]
          simp only
          have h0 : pruneTbl E (x :: xs) tbl l0 = none := by
            unfold pruneTbl; rw [hfree]
          rw [if_pos h0]
          congr 1
          funext l
          by_cases hl : l = l0
          · subst hl
            unfold upd pruneTbl
            simp only [if_true]
            rw [if_neg hkeep]
          · rw [← haway l hl]
            unfold upd
            rw [if_neg hl]
      · cases hs
    | rel l0 =>
      rw [hx] at hs
      simp only at hs
      split at hs
      · rename_i hown
        simp only [Option.some.injEq] at hs
        subst hs
        have haway : ∀ l, l ≠ l0 → pruneTbl E (x :: xs) tbl l = pruneTbl E xs (upd tbl l0 none) l := by
          intro l hl
          unfold pruneTbl upd
          rw [if_neg hl]
          cases tbl l with
          | none => rfl
          | some t =>
            simp only [abortedAcq_cons_rel t l l0 x xs hx]
            have : ¬ (x.tid = t ∧ l0 = l) := fun h => hl h.2.symm
            rw [if_neg this]
        simp only
        split
        · rename_i hin
          refine ⟨pruneTbl E xs (upd tbl l0 none), ?_, ih E _ hrest⟩
          unfold stepTbl
          rw [hx]
          simp only
          have h0 : pruneTbl E (x :: xs) tbl l0 = some x.tid := by
            unfold pruneTbl; rw [hown]
            simp only
            rw [if_neg (fun h => h.1 hin)]
          rw [if_pos h0]
          congr 1
          funext l
          by_cases hl : l = l0
          · subst hl
            unfold upd pruneTbl
            simp
          · rw [← haway l hl]
            unfold upd
            rw [if_neg hl]
        · rename_i hnin
          have : pruneTbl E (x :: xs) tbl = pruneTbl E xs (upd tbl l0 none) := by
            funext l
            by_cases hl : l = l0
            · subst hl
              unfold pruneTbl upd
              rw [hown]
              simp only [if_true]
              rw [abortedAcq_cons_rel x.tid l l x xs hx]
              simp [hnin]
            · exact haway l hl
          rw [this]
          exact ih E _ hrest
      · cases hs
    | eff fp f =>
      rw [hx] at hs
      simp only at hs
      split at hs
      · rename_i hall
        simp only [Option.some.injEq] at hs
        subst hs
        have htab : pruneTbl E (x :: xs) tbl = pruneTbl (x.tid :: E) xs tbl := by
          funext l
          unfold pruneTbl
          cases tbl l with
          | none => rfl
          | some t =>
            simp only [abortedAcq_cons_eff t l x xs fp f hx]
            by_cases ht : x.tid = t
            · subst ht; simp
            · have ht' : ¬ t = x.tid := fun e => ht e.symm
              simp [ht, ht']
        refine ⟨pruneTbl (x.tid :: E) xs tbl, ?_, ih _ _ hrest⟩
        unfold stepTbl
        rw [hx]
        simp only
        have : fp.all (fun r => pruneTbl E (x :: xs) tbl (guard r) == some x.tid) = true := by
          apply List.all_eq_true.2
          intro r hr
          have h1 := (List.all_eq_true.1 hall) r hr
          have h1 : tbl (guard r) = some x.tid := by simpa using h1
          unfold pruneTbl
          rw [h1]
          simp only [abortedAcq_cons_eff x.tid (guard r) x xs fp f hx]
          simp
        rw [if_pos this, htab]
      · cases hs

/-! ### the pruned schedule is two-phase -/

theorem isAcqBy_ne (t : Tid) (x : Step V) (h : x.tid ≠ t) : isAcqBy t x = false := by
  unfold isAcqBy
  split
  · simpa using h
  · rfl

theorem isRelBy_ne (t : Tid) (x : Step V) (h : x.tid ≠ t) : isRelBy t x = false := by
  unfold isRelBy
  split
  · simpa using h
  · rfl

theorem dropAb_twoPhaseB (t : Tid) (s : Sched V) : ∀ (E : List Tid) (e sh released : Bool),
    (e = true ↔ t ∈ E) → (released = true → sh = true) → weakTPB e sh (acts t s) = true →
    twoPhaseB t released (dropAb E s) = true := by
  induction s with
  | nil => intros; rfl
  | cons x xs ih =>
    intro E e sh released hE hrel hw
    by_cases ht : x.tid = t
    · subst ht
      rw [acts_cons_self] at hw
      simp only [dropAb]
      cases hx : x.act with
      | acq l =>
        rw [hx] at hw
        simp only [weakTPB, Bool.and_eq_true, Bool.not_eq_true'] at hw
        have hr0 : released = false := by
          cases hr : released with
          | false => rfl
          | true => have := hrel hr; rw [this] at hw; cases hw.1
        simp only
        split
        · exact ih E e sh released hE hrel hw.2
        · simp only [twoPhaseB, hr0, Bool.and_false, Bool.false_or]
          have : isRelBy x.tid x = false := by unfold isRelBy; rw [hx]
          rw [this]
          simp only [Bool.false_eq_true, if_false]
          exact ih E e sh false hE (fun h => by cases h) hw.2
      | rel l =>
        rw [hx] at hw
        simp only [weakTPB] at hw
        simp only
        split
        · rename_i hin
          have he : e = true := hE.2 hin
          have hacq : isAcqBy x.tid x = false := by unfold isAcqBy; rw [hx]
          simp only [twoPhaseB, hacq, Bool.false_and, Bool.false_eq_true, if_false]
          apply ih E e (sh || e) _ hE _ hw
          intro _; simp [he]
        · rename_i hnin
          apply ih E e (sh || e) released hE _ hw
          intro h; simp [hrel h]
      | eff fp f =>
        rw [hx] at hw
        simp only [weakTPB] at hw
        have hacq : isAcqBy x.tid x = false := by unfold isAcqBy; rw [hx]
        have hrl : isRelBy x.tid x = false := by unfold isRelBy; rw [hx]
        simp only [twoPhaseB, hacq, hrl, Bool.false_and, Bool.false_eq_true, if_false, Bool.or_false]
        exact ih (x.tid :: E) true sh released (by simp) hrel hw
    · rw [acts_cons_ne t x xs ht] at hw
      have hacq := isAcqBy_ne t x ht
      have hrl := isRelBy_ne t x ht
      have ht' : ¬ t = x.tid := fun e => ht e.symm
      simp only [dropAb]
      cases hx : x.act with
      | acq l =>
        simp only
        split
        · exact ih E e sh released hE hrel hw
        · simp only [twoPhaseB, hacq, hrl, Bool.false_and, Bool.false_eq_true, if_false, Bool.or_false]
          exact ih E e sh released hE hrel hw
      | rel l =>
        simp only
        split
        · simp only [twoPhaseB, hacq, hrl, Bool.false_and, Bool.false_eq_true, if_false, Bool.or_false]
          exact ih E e sh released hE hrel hw
        · exact ih E e sh released hE hrel hw
      | eff fp f =>
        simp only [twoPhaseB, hacq, hrl, Bool.false_and, Bool.false_eq_true, if_false, Bool.or_false]
        apply ih (x.tid :: E) e sh released _ hrel hw
        simp [hE, ht']

/-- after the aborted attempts are dropped every transaction is two-phase in the strict sense -/
theorem dropAb_allTwoPhase (s : Sched V) (h : ∀ t, WeakTP (acts t s)) : AllTwoPhase (dropAb [] s) := by
  intro t
  exact (twoPhaseB_spec t _ false
    (dropAb_twoPhaseB t s [] false false false (by simp) (fun h => by cases h) (h t))).2

/-! ### the combination -/

/-- **2PL modulo aborted attempts ⇒ serializable.**  `s` is any lock-exclusive interleaving of transactions that
    (each on its own) are two-phase modulo aborted attempts and touch a resource only while holding its guard.
    Then `s' = dropAb [] s` — `s` without the aborted lock attempts, all effect steps kept in order — satisfies
    all premises of `TwoPL.twoPL_serializable`, and sorting it by lock point yields the effect of `s`. -/
theorem weak2pl_serializable (guard : Res → Lock) (s : Sched V) (tbl : Tbl)
    (hwf : AllWF s) (h2p : ∀ t, WeakTP (acts t s)) (hg : ∀ t, selfGuarded guard (acts t s))
    (hle : LockExcl tbl s) :
    AllWF (dropAb [] s) ∧ AllTwoPhase (dropAb [] s) ∧ Legal guard (pruneTbl [] s tbl) (dropAb [] s) ∧
    ∀ st, exec (sortR (rankOf (dropAb [] s)) (dropAb [] s)) st = exec s st := by
  have hleg : Legal guard tbl s := legal_of_lockExcl guard s tbl hle hg
  have h1 := dropAb_wf s [] hwf
  have h2 := dropAb_allTwoPhase s h2p
  have h3 := dropAb_legal guard s [] tbl hleg
  refine ⟨h1, h2, h3, ?_⟩
  intro st
  rw [twoPL_serializable guard (dropAb [] s) _ h1 h2 h3 st, exec_dropAb]

end SqVerif.SkelTwoPL

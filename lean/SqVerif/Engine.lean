import SqVerif.Stab
/-
L1 — register engines (`simulaqron/virtual_node/`).  Core Lean only.

* `Reg` / `Reg.step`            the CONTRACT every backend is meant to implement
                                (basics.py:54-272, `quantumEngine`): a register is
                                an ordered list of slots with a size limit.
* `StabEngine`                  `stabilizer_simulator.py:34-259`, method by method,
                                on top of the L0 model `Stab.St`.
* `QutipBk`                     bookkeeping of `qutip_simulator.py:43-433`
                                (activeQubits / maxQubits tests and their order
                                relative to mutation, keepList, tensor order);
                                amplitudes abstract: `reg` lists the tensor factors.
* `ProjQBk`                     bookkeeping of `project_q_simulator.py:38-347`
                                (qubitReg list order, the re-indexing of
                                `absorb_parts`); amplitudes abstract.

Every method returns `(result, post-state)`: a raise is `(.error kind, state at
the time of the raise)`, so "a refused call changes nothing" is a theorem, not
a convention.  Positions are `Nat` (negative Python indices are not part of the
interface).  The models mirror the code WITH the repairs of branch fix-c15
(add_qubit limit, qutip absorb_parts of an empty import, projectq absorb
without engine sharing); the unrepaired variants are kept as `…Old` where a
counterexample theorem needs them.
-/
namespace SqVerif.Engine
open SqVerif.Stab

/-- exception classes: `noQubitError`, `quantumError` (basics.py:34-43),
`ValueError`, `SimUnsupportedError`, `NotImplementedError`, `IndexError` -/
inductive Err where
  | noQubit | quantum | value | unsupported | notImplemented | index
  deriving DecidableEq, Repr

/-- `Except` has no `DecidableEq` in core; needed to evaluate examples by `decide` -/
instance instDecEqExcept {ε α : Type} [DecidableEq ε] [DecidableEq α] : DecidableEq (Except ε α) := fun a b =>
  match a, b with
  | .ok x, .ok y => if h : x = y then isTrue (by rw [h]) else isFalse (by intro h'; cases h'; exact h rfl)
  | .error x, .error y => if h : x = y then isTrue (by rw [h]) else isFalse (by intro h'; cases h'; exact h rfl)
  | .ok _, .error _ => isFalse (by intro h; cases h)
  | .error _, .ok _ => isFalse (by intro h; cases h)

/-! ## the contract -/

/-- a register: `maxQubits` and the ordered slots (labels identify qubits) -/
structure Reg (σ : Type) where
  max : Nat
  slots : List σ
  deriving DecidableEq, Repr

def Reg.active {σ} (r : Reg σ) : Nat := r.slots.length

/-- error kinds of the contract: the two documented ones and "refused for
another reason" (no such slot for a gate, control = target, gate not offered) -/
inductive SErr where
  | noQubit | quantum | refused
  deriving DecidableEq, Repr

inductive SOut where
  | num (n : Nat) | unit | bit | exported
  deriving DecidableEq, Repr

/-- interface calls as the contract sees them -/
inductive SCall (σ : Type) where
  | add (ls : List σ)              -- add_fresh_qubit / add_qubit: new slots `ls` at the end
  | remove (j : Nat)
  | measureInplace (j : Nat)
  | measure (j : Nat)
  | gate (pos : List Nat)          -- a gate addressing the slots `pos`
  | unsupported                    -- a gate this backend does not offer
  | absorb (ls : List σ)           -- absorb / absorb_parts: the other register's slots, in its order
  | export                         -- get_register_RI
  | setMax (m : Nat)               -- `reg.maxQubits = m` (virtual.py:939,991)
  deriving Repr

/-- the contract.  add returns the old size and fails with noQubit iff the new
size would exceed `max`; remove / measure_inplace of a missing slot fail with
quantum; remove and destructive measurement delete slot j and shift the rest
down; absorb appends the other's slots after the own ones in order and fails
with quantum iff the sum exceeds `max`; a refused call changes nothing. -/
def Reg.step {σ} (r : Reg σ) : SCall σ → Except SErr SOut × Reg σ
  | .add ls =>
    if r.active + ls.length > r.max then (.error .noQubit, r)
    else (.ok (.num r.active), { r with slots := r.slots ++ ls })
  | .remove j =>
    if j + 1 > r.active then (.error .quantum, r)
    else (.ok .unit, { r with slots := r.slots.eraseIdx j })
  | .measureInplace j =>
    if j + 1 > r.active then (.error .quantum, r) else (.ok .bit, r)
  | .measure j =>
    if j < r.active then (.ok .bit, { r with slots := r.slots.eraseIdx j }) else (.error .refused, r)
  | .gate pos =>
    if (∀ p ∈ pos, p < r.active) ∧ pos.Nodup then (.ok .unit, r) else (.error .refused, r)
  | .unsupported => (.error .refused, r)
  | .absorb ls =>
    if r.active + ls.length > r.max then (.error .quantum, r)
    else (.ok .unit, { r with slots := r.slots ++ ls })
  | .export => (.ok .exported, r)
  | .setMax m => (.ok .unit, { r with max := m })

/-! ## conversions `StabilizerState(R)` / `to_array()` -/

def bitsOfRow (w : Nat) (r : Row) : List Bool := (List.range (2 * w + 1)).map (r.bit w)

/-- `to_array().tolist()` (stabilizer_states.py:509-529): n rows of 2n+1 booleans -/
def toArray (s : St) : List (List Bool) := s.rows.map (bitsOfRow s.n)

def rowOfBits (w : Nat) (b : List Bool) : Row :=
  { ps := (List.range w).map fun i => (b.getD i false, b.getD (w + i) false), neg := b.getD (2 * w) false }

/-- `StabilizerState(data)` for a list of lists (stabilizer_states.py:113-158):
empty list = empty state; an `n x 2n` or `n x (2n+1)` matrix; all generators
must commute.  `none` = ValueError. -/
def ofArray (R : List (List Bool)) : Option St :=
  if R.isEmpty then some empty else
  let n := R.length
  if R.all (fun b => b.length == 2 * n + 1) ∨ R.all (fun b => b.length == 2 * n) then
    let rows := R.map (rowOfBits n)
    if isSymplectic rows then some { n := n, rows := rows } else none
  else none

/-! ## the stabilizer engine -/

/-- `maxQubits` and `qubitReg` -/
structure StabEngine where
  max : Nat
  st : St
  deriving DecidableEq, Repr

namespace StabEngine

/-- property `activeQubits` = `qubitReg.num_qubits` (:51-53) -/
def active (e : StabEngine) : Nat := e.st.n

def new (max : Nat := 10) : StabEngine := { max := max, st := Stab.empty }

/-- `add_fresh_qubit` (:55-68) -/
def addFreshQubit (e : StabEngine) : Except Err Nat × StabEngine :=
  if e.active ≥ e.max then (.error .noQubit, e)
  else (.ok e.active, { e with st := addQubit e.st })

/-- `add_qubit(newQubit)` (:70-86, with the limit test of fix-c15) -/
def addQubit (e : StabEngine) (R : List (List Bool)) : Except Err Nat × StabEngine :=
  match ofArray R with
  | none => (.error .value, e)
  | some q =>
    if e.active + q.n > e.max then (.error .noQubit, e)
    else (.ok e.active, { e with st := tensor e.st q })

/-- `add_qubit` before fix-c15: no limit test -/
def addQubitOld (e : StabEngine) (R : List (List Bool)) : Except Err Nat × StabEngine :=
  match ofArray R with
  | none => (.error .value, e)
  | some q => (.ok e.active, { e with st := tensor e.st q })

/-- `measure_qubit` (:216-225): no guard of its own, `StabilizerState.measure`
raises ValueError for a bad position -/
def measureQubit (e : StabEngine) (j : Nat) (coin : Bool) : Except Err Bool × StabEngine :=
  match measure e.st j false coin with
  | none => (.error .value, e)
  | some (o, s') => (.ok o, { e with st := s' })

/-- `remove_qubit` (:88-95) -/
def removeQubit (e : StabEngine) (j : Nat) (coin : Bool) : Except Err Unit × StabEngine :=
  if j + 1 > e.active then (.error .quantum, e)
  else match measureQubit e j coin with
    | (.error x, e') => (.error x, e')
    | (.ok _, e') => (.ok (), e')

/-- `measure_qubit_inplace` (:198-214) -/
def measureQubitInplace (e : StabEngine) (j : Nat) (coin : Bool) : Except Err Bool × StabEngine :=
  if j + 1 > e.active then (.error .quantum, e)
  else match measure e.st j true coin with
    | none => (.error .value, e)
    | some (o, s') => (.ok o, { e with st := s' })

/-- `get_register_RI` (:97-108): `(to_array().tolist(), None)` -/
def getRegisterRI (e : StabEngine) : List (List Bool) × Option Unit := (toArray e.st, none)

/-- the gates the engine offers (:110-141, 163-174): H K X Z Y, CNOT, CPHASE -/
def applyGate1 (e : StabEngine) (g : Gate1) (j : Nat) : Except Err Unit × StabEngine :=
  match Stab.applyGate1 g j e.st with
  | none => (.error .value, e)
  | some s => (.ok (), { e with st := s })

def applyGate2 (e : StabEngine) (g : Gate2) (c t : Nat) : Except Err Unit × StabEngine :=
  match Stab.applyGate2 g c t e.st with
  | none => (.error .value, e)
  | some s => (.ok (), { e with st := s })

def applyH (e : StabEngine) := e.applyGate1 .H
def applyK (e : StabEngine) := e.applyGate1 .K
def applyX (e : StabEngine) := e.applyGate1 .X
def applyZ (e : StabEngine) := e.applyGate1 .Z
def applyY (e : StabEngine) := e.applyGate1 .Y
def applyCNOT (e : StabEngine) := e.applyGate2 .CNOT
def applyCPHASE (e : StabEngine) := e.applyGate2 .CZ

/-- `apply_T`, `apply_rotation`, `apply_onequbit_gate`, `apply_twoqubit_gate`
(:143-161, 176-196): SimUnsupportedError whatever the arguments -/
def applyT (e : StabEngine) (_j : Nat) : Except Err Unit × StabEngine := (.error .unsupported, e)
def applyRotation (e : StabEngine) (_j : Nat) : Except Err Unit × StabEngine := (.error .unsupported, e)
def applyOnequbitGate (e : StabEngine) (_j : Nat) : Except Err Unit × StabEngine := (.error .unsupported, e)
def applyTwoqubitGate (e : StabEngine) (_c _t : Nat) : Except Err Unit × StabEngine := (.error .unsupported, e)
/-- `replace_qubit` (:227-231) -/
def replaceQubit (e : StabEngine) (_j : Nat) : Except Err Unit × StabEngine := (.error .notImplemented, e)

/-- `absorb(other)` (:233-243) -/
def absorb (e other : StabEngine) : Except Err Unit × StabEngine :=
  let newNum := e.active + other.active
  if newNum > e.max then (.error .quantum, e)
  else (.ok (), { e with st := tensor e.st other.st })

/-- `absorb_parts(R, I, activeQ)` (:245-259): limit test on the caller's
`activeQ` first, then `StabilizerState(R)` -/
def absorbParts (e : StabEngine) (R : List (List Bool)) (activeQ : Nat) : Except Err Unit × StabEngine :=
  let newNum := e.active + activeQ
  if newNum > e.max then (.error .quantum, e)
  else match ofArray R with
    | none => (.error .value, e)
    | some q => (.ok (), { e with st := tensor e.st q })

end StabEngine

/-- results of an engine call -/
inductive Out where
  | num (n : Nat) | unit | bit (b : Bool) | array (R : List (List Bool))
  deriving DecidableEq, Repr

/-- one call of the stabilizer engine -/
inductive Call where
  | addFresh
  | addQubit (R : List (List Bool))
  | remove (j : Nat) (coin : Bool)
  | measureInplace (j : Nat) (coin : Bool)
  | measure (j : Nat) (coin : Bool)
  | gate1 (g : Gate1) (j : Nat)
  | gate2 (g : Gate2) (c t : Nat)
  | applyT (j : Nat)
  | rotation (j : Nat)
  | onequbitGate (j : Nat)
  | twoqubitGate (c t : Nat)
  | replaceQubit (j : Nat)
  | absorb (other : StabEngine)
  | absorbParts (R : List (List Bool)) (activeQ : Nat)
  | getRegisterRI
  | setMax (m : Nat)
  deriving Repr

def liftRes {α β : Type} (f : α → Out) (x : Except Err α × β) : Except Err Out × β :=
  (match x.1 with | .ok a => .ok (f a) | .error e => .error e, x.2)

def StabEngine.step (e : StabEngine) : Call → Except Err Out × StabEngine
  | .addFresh => liftRes .num e.addFreshQubit
  | .addQubit R => liftRes .num (e.addQubit R)
  | .remove j coin => liftRes (fun _ => .unit) (e.removeQubit j coin)
  | .measureInplace j coin => liftRes .bit (e.measureQubitInplace j coin)
  | .measure j coin => liftRes .bit (e.measureQubit j coin)
  | .gate1 g j => liftRes (fun _ => .unit) (e.applyGate1 g j)
  | .gate2 g c t => liftRes (fun _ => .unit) (e.applyGate2 g c t)
  | .applyT j => liftRes (fun _ => .unit) (e.applyT j)
  | .rotation j => liftRes (fun _ => .unit) (e.applyRotation j)
  | .onequbitGate j => liftRes (fun _ => .unit) (e.applyOnequbitGate j)
  | .twoqubitGate c t => liftRes (fun _ => .unit) (e.applyTwoqubitGate c t)
  | .replaceQubit j => liftRes (fun _ => .unit) (e.replaceQubit j)
  | .absorb other => liftRes (fun _ => .unit) (e.absorb other)
  | .absorbParts R a => liftRes (fun _ => .unit) (e.absorbParts R a)
  | .getRegisterRI => (.ok (.array e.getRegisterRI.1), e)
  | .setMax m => (.ok .unit, { e with max := m })

/-- the contract's view of a call; `ls` = labels of the slots the call brings in -/
def Call.toSpec {σ} (c : Call) (ls : List σ) : SCall σ :=
  match c with
  | .addFresh => .add ls
  | .addQubit _ => .add ls
  | .remove j _ => .remove j
  | .measureInplace j _ => .measureInplace j
  | .measure j _ => .measure j
  | .gate1 _ j => .gate [j]
  | .gate2 _ c t => .gate [c, t]
  | .applyT _ => .unsupported
  | .rotation _ => .unsupported
  | .onequbitGate _ => .unsupported
  | .twoqubitGate _ _ => .unsupported
  | .replaceQubit _ => .unsupported
  | .absorb _ => .absorb ls
  | .absorbParts _ _ => .absorb ls
  | .getRegisterRI => .export
  | .setMax m => .setMax m

/-- run a call sequence, collecting the results -/
def StabEngine.run (e : StabEngine) : List Call → List (Except Err Out) × StabEngine
  | [] => ([], e)
  | c :: cs =>
    let (o, e') := e.step c
    let (os, e'') := StabEngine.run e' cs
    (o :: os, e'')

def Reg.run {σ} (r : Reg σ) : List (SCall σ) → List (Except SErr SOut) × Reg σ
  | [] => ([], r)
  | c :: cs =>
    let (o, r') := r.step c
    let (os, r'') := Reg.run r' cs
    (o :: os, r'')

/-! ## qutip engine: bookkeeping -/

/-- `maxQubits`, `activeQubits`, and the tensor factors of `qubitReg` from left
to right (the amplitudes are abstract) -/
structure QutipBk (σ : Type) where
  max : Nat
  active : Nat
  reg : List σ
  deriving DecidableEq, Repr

namespace QutipBk
variable {σ : Type}

def new (max : Nat := 10) : QutipBk σ := { max := max, active := 0, reg := [] }

/-- `add_qubit` (qutip_simulator.py:74-95); `add_fresh_qubit` (:63-72) calls it -/
def addQubit (s : QutipBk σ) (l : σ) : Except Err Nat × QutipBk σ :=
  if s.active ≥ s.max then (.error .noQubit, s)
  else
    let reg' := if s.active > 0 then s.reg ++ [l] else [l]
    (.ok s.active, { s with reg := reg', active := s.active + 1 })

/-- `keepList` (:110-113) -/
def keepList (active j : Nat) : List Nat := (List.range active).filter (· != j)

/-- `Qobj.ptrace(sel)` on the factor list: keeps the listed factors -/
def ptrace (reg : List σ) (sel : List Nat) : List σ := sel.filterMap (reg[·]?)

/-- `remove_qubit` (:97-118) -/
def removeQubit (s : QutipBk σ) (j : Nat) : Except Err Unit × QutipBk σ :=
  if j + 1 > s.active then (.error .quantum, s)
  else if s.active = 1 then (.ok (), { s with active := 0, reg := [] })
  else (.ok (), { s with reg := ptrace s.reg (keepList s.active j), active := s.active - 1 })

/-- `measure_qubit_inplace` (:303-347): guard, then no bookkeeping change -/
def measureQubitInplace (s : QutipBk σ) (j : Nat) (coin : Bool) : Except Err Bool × QutipBk σ :=
  if j + 1 > s.active then (.error .quantum, s) else (.ok coin, s)

/-- `measure_qubit` (:349-360) -/
def measureQubit (s : QutipBk σ) (j : Nat) (coin : Bool) : Except Err Bool × QutipBk σ :=
  match s.measureQubitInplace j coin with
  | (.error e, s') => (.error e, s')
  | (.ok o, s') =>
    match s'.removeQubit j with
    | (.error e, s'') => (.error e, s'')
    | (.ok _, s'') => (.ok o, s'')

/-- `apply_onequbit_gate` (:252-274): no guard of its own; `gate_expand_1toN(U, N,
target)` raises ValueError iff `N < 1` or `target >= N` (QuTiP, assumed) -/
def applyOnequbitGate (s : QutipBk σ) (j : Nat) : Except Err Unit × QutipBk σ :=
  if s.active < 1 ∨ j ≥ s.active then (.error .value, s) else (.ok (), s)

/-- `apply_twoqubit_gate` (:276-301): `gate_expand_2toN` raises ValueError iff
`N < 2`, an index `>= N` or control = target (QuTiP, assumed) -/
def applyTwoqubitGate (s : QutipBk σ) (c t : Nat) : Except Err Unit × QutipBk σ :=
  if s.active < 2 ∨ c ≥ s.active ∨ t ≥ s.active ∨ c = t then (.error .value, s) else (.ok (), s)

/-- `absorb` (:381-397) -/
def absorb (s other : QutipBk σ) : Except Err Unit × QutipBk σ :=
  let newNum := s.active + other.active
  if newNum > s.max then (.error .quantum, s)
  else
    let reg' := if s.active = 0 then other.reg else if other.active ≠ 0 then s.reg ++ other.reg else s.reg
    (.ok (), { s with reg := reg', active := newNum })

/-- `absorb_parts` (:399-433, with `elif activeQ != 0` of fix-c15); `qt` = factors
of the imported object -/
def absorbParts (s : QutipBk σ) (qt : List σ) (activeQ : Nat) : Except Err Unit × QutipBk σ :=
  let newNum := s.active + activeQ
  if newNum > s.max then (.error .quantum, s)
  else
    let reg' := if s.active = 0 then qt else if activeQ ≠ 0 then s.reg ++ qt else s.reg
    (.ok (), { s with reg := reg', active := newNum })

def WF (s : QutipBk σ) : Prop := s.reg.length = s.active

end QutipBk

/-! ## projectq engine: bookkeeping -/

/-- `maxQubits`, `activeQubits`, `qubitReg` (Qubit objects in register order;
`none` = Python `None`, which `absorb_parts` writes before re-indexing) -/
structure ProjQBk (σ : Type) where
  max : Nat
  active : Nat
  qubitReg : List (Option σ)
  deriving DecidableEq, Repr

namespace ProjQBk
variable {σ : Type}

def new (max : Nat := 10) : ProjQBk σ := { max := max, active := 0, qubitReg := [] }

/-- `add_fresh_qubit` (project_q_simulator.py:69-86); `q` = the allocated Qubit -/
def addFreshQubit (s : ProjQBk σ) (q : σ) : Except Err Nat × ProjQBk σ :=
  if s.active ≥ s.max then (.error .noQubit, s)
  else (.ok s.active, { s with qubitReg := s.qubitReg ++ [some q], active := s.active + 1 })

/-- `apply_onequbit_gate` (:191-203) -/
def applyOnequbitGate (s : ProjQBk σ) (j : Nat) : Except Err Unit × ProjQBk σ :=
  if j + 1 > s.active then (.error .quantum, s) else (.ok (), s)

/-- `apply_twoqubit_gate` (:205-224): three guards in this order -/
def applyTwoqubitGate (s : ProjQBk σ) (c t : Nat) : Except Err Unit × ProjQBk σ :=
  if c + 1 > s.active then (.error .quantum, s)
  else if t + 1 > s.active then (.error .quantum, s)
  else if c = t then (.error .quantum, s)
  else (.ok (), s)

/-- `measure_qubit_inplace` (:226-247) -/
def measureQubitInplace (s : ProjQBk σ) (j : Nat) (coin : Bool) : Except Err Bool × ProjQBk σ :=
  if j + 1 > s.active then (.error .quantum, s) else (.ok coin, s)

/-- `measure_qubit` (:249-265): `qubitReg.pop(j)`, `activeQubits - 1` -/
def measureQubit (s : ProjQBk σ) (j : Nat) (coin : Bool) : Except Err Bool × ProjQBk σ :=
  match s.measureQubitInplace j coin with
  | (.error e, s') => (.error e, s')
  | (.ok o, s') => (.ok o, { s' with qubitReg := s'.qubitReg.eraseIdx j, active := s'.active - 1 })

/-- `remove_qubit` (:103-110) -/
def removeQubit (s : ProjQBk σ) (j : Nat) (coin : Bool) : Except Err Unit × ProjQBk σ :=
  if j + 1 > s.active then (.error .quantum, s)
  else match s.measureQubit j coin with
    | (.error e, s') => (.error e, s')
    | (.ok _, s') => (.ok (), s')

/-- `q_reg_order` of `get_register_RI` (:118-122): `for i, q in enumerate(qubitReg):
q_reg_order[i] = order[q.id]` — slot i ↦ bit position of its qubit -/
def enumFrom : Nat → List Nat → List (Nat × Nat)
  | _, [] => []
  | k, b :: bs => (k, b) :: enumFrom (k + 1) bs

/-- the loop `for old_q_id, old_bit_pos in order.items(): new_qubits[old_q_id] =
qreg[old_bit_pos]` (:339-341) starting from `[None] * len(qreg)`; `none` = IndexError -/
def reindex (qreg : List σ) (order : List (Nat × Nat)) : Option (List (Option σ)) :=
  order.foldlM (fun acc ib =>
      match qreg[ib.2]? with
      | none => none
      | some q => if ib.1 < acc.length then some (acc.set ib.1 (some q)) else none)
    (List.replicate qreg.length none)

/-- `absorb_parts(R, I, activeQ)` (:288-347): `order` = the exported slot ↦ bit
position map, `qreg` = `allocate_qureg(activeQ)` -/
def absorbParts (s : ProjQBk σ) (order : List (Nat × Nat)) (qreg : List σ) (activeQ : Nat) :
    Except Err Unit × ProjQBk σ :=
  let newNum := s.active + activeQ
  if newNum > s.max then (.error .quantum, s)
  else if activeQ > 0 then
    match reindex qreg order with
    | none => (.error .index, s)
    | some nq => (.ok (), { s with qubitReg := s.qubitReg ++ nq, active := newNum })
  else (.ok (), s)

/-- `absorb(other)` (:273-286 with fix-c15: always through get_register_RI /
absorb_parts); `bits` = bit positions of the other's slots, `qreg` the qubits
allocated here -/
def absorb (s other : ProjQBk σ) (bits : List Nat) (qreg : List σ) : Except Err Unit × ProjQBk σ :=
  let newNum := s.active + other.active
  if newNum > s.max then (.error .quantum, s)
  else if other.active > 0 then s.absorbParts (enumFrom 0 bits) qreg other.active
  else (.ok (), s)

/-- `absorb` before fix-c15: an empty register takes over the other's qubit
objects (and engine) -/
def absorbOld (s other : ProjQBk σ) (bits : List Nat) (qreg : List σ) : Except Err Unit × ProjQBk σ :=
  let newNum := s.active + other.active
  if newNum > s.max then (.error .quantum, s)
  else if s.active = 0 then (.ok (), { s with qubitReg := other.qubitReg, active := other.active })
  else if other.active > 0 then s.absorbParts (enumFrom 0 bits) qreg other.active
  else (.ok (), s)

def WF (s : ProjQBk σ) : Prop := s.qubitReg.length = s.active ∧ ∀ x ∈ s.qubitReg, x ≠ none

end ProjQBk

end SqVerif.Engine

"""Regenerates MANIFEST.json from the table below (run by hand when a check is added)."""
import json, os
V = os.path.dirname(os.path.dirname(os.path.abspath(__file__)))
BASE = "cd /repo && /venv/bin/python -m pytest -ra -q -p no:cacheprovider --timeout=900 --continue-on-collection-errors"
CHECKS = {
 "C17": dict(text="Lean theorems T17.1-5 (complete/ring/path/random_tree/random_connected_k are symmetric simple connected graphs over exactly the given nodes with the defining edge count, for every node list, every tree and every pick sequence; out-of-range k rejected; the executable tree test is sound) about a hand-written model of network.py, tied to the code by differential execution on every run with networkx's tree and random.choice recorded; a model-independent graph oracle judges every real output.",
             note="Trusted: Lean kernel + propext/Classical.choice/Quot.sound; the model Topo.lean mirrors network.py by hand and is compared with the code on a few hundred cases per run (graph-level); networkx's generator is treated as an environment whose output is checked to be a tree by a verified test.",
             technique="Lean 4 proof (induction over node lists / edge lists) + differential correspondence", ref="4 C17"),
}
PENDING = {}
def main():
    props = [json.loads(l)["id"] for l in open(os.path.join(V, "properties.jsonl"))]
    checks = []
    for pid in props:
        if pid not in CHECKS:
            continue
        c = CHECKS[pid]
        checks.append({
            "property_id": pid,
            "quick_cmd": "./check %s --tier quick" % pid,
            "thorough_cmd": "./check %s --tier thorough" % pid,
            "evidence_file": "evidence/%s.json" % pid,
            "replay_cmd_template": "./check %s --replay {path}" % pid,
            "engine": "lean4-proof+correspondence",
            "level_claimed": {"category": "proof", "text": c["text"], "design_ref": c["ref"]},
            "level_note": c["note"],
            "technique": c["technique"],
        })
    na = [{"property_id": p, "reason": PENDING.get(p, "check not built yet in this session (machine-checked proof applies; see DESIGN.md section 4); not claimed until its check runs")}
          for p in props if p not in CHECKS]
    m = {
        "version": 1,
        "setup_cmd": "./setup.sh",
        "hooks": {"guard": "SIMULAQRON_VERIF", "enable": "no source hooks are needed: the harness patches module attributes of a scratch copy of /repo/simulaqron from outside",
                  "baseline_off_cmd": BASE, "source_commits": [], "add_only": True},
        "engines": [{"name": "lean4-proof+correspondence", "path": "lean/ + harness/", "serves_properties": sorted(CHECKS),
                     "kind_free_text": "Lean 4 theorems about executable models; models tied to /repo by differential execution (harness/props) and AST-generated Lean facts (harness/gen)"}],
        "checks": checks,
        "not_applicable": na,
        "notes": "See DESIGN.md. known_findings.json lists repaired (fixed:) and open findings.",
    }
    json.dump(m, open(os.path.join(V, "MANIFEST.json"), "w"), indent=1)
    print("claimed:", [c["property_id"] for c in checks])
main()

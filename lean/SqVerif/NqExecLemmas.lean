import SqVerif.NqExec
/-
L5 — helper lemmas for the NetQASM interpreter model: association lists, the
allocation policy, the invariant `Inv` of the concrete backend and its
preservation by the primitive state updates every request is composed of.
Core Lean only.
-/
namespace SqVerif.NqExec

open List

/-! ### Python indexing -/

theorem pyIdx_lt {len : Nat} {i : Int} {j : Nat} (h : pyIdx len i = some j) : j < len := by
  unfold pyIdx at h
  split at h
  · split at h
    · cases h; assumption
    · cases h
  · split at h
    · cases h; omega
    · cases h

/-! ### association lists -/

section assoc
variable {κ β : Type} [DecidableEq κ]

def keys (l : List (κ × β)) : List κ := l.map (·.1)
def vals (l : List (κ × β)) : List β := l.map (·.2)

@[simp] theorem aGet_nil (k : κ) : aGet ([] : List (κ × β)) k = none := rfl

theorem aGet_cons (e : κ × β) (l : List (κ × β)) (k : κ) :
    aGet (e :: l) k = if e.1 = k then some e.2 else aGet l k := by
  cases e; rfl

theorem aGet_eq_none_of_not_mem {l : List (κ × β)} {k : κ} (h : k ∉ keys l) : aGet l k = none := by
  induction l with
  | nil => rfl
  | cons e l ih =>
    simp only [keys, map_cons, mem_cons, not_or] at h
    rw [aGet_cons, if_neg (fun hh => h.1 hh.symm)]
    exact ih h.2

theorem mem_of_aGet {l : List (κ × β)} {k : κ} {v : β} (h : aGet l k = some v) : (k, v) ∈ l := by
  induction l with
  | nil => cases h
  | cons e l ih =>
    rw [aGet_cons] at h
    split at h
    · cases h; rename_i hk; subst hk; exact mem_cons_self
    · exact mem_cons_of_mem _ (ih h)

theorem mem_keys_of_aGet {l : List (κ × β)} {k : κ} {v : β} (h : aGet l k = some v) : k ∈ keys l :=
  mem_map.2 ⟨(k, v), mem_of_aGet h, rfl⟩

theorem aGet_isSome_of_mem_keys {l : List (κ × β)} {k : κ} (h : k ∈ keys l) : (aGet l k).isSome := by
  induction l with
  | nil => cases h
  | cons e l ih =>
    rw [aGet_cons]
    split
    · rfl
    · rename_i hne
      simp only [keys, map_cons, mem_cons] at h
      rcases h with h | h
      · exact absurd h.symm hne
      · exact ih h

theorem aGet_of_mem_nodup {l : List (κ × β)} {k : κ} {v : β} (hn : (keys l).Nodup) (h : (k, v) ∈ l) :
    aGet l k = some v := by
  induction l with
  | nil => cases h
  | cons e l ih =>
    simp only [keys, map_cons, nodup_cons] at hn
    rw [aGet_cons]
    rcases mem_cons.1 h with h | h
    · subst h; simp
    · have : e.1 ≠ k := fun hh => hn.1 (hh ▸ mem_map.2 ⟨(k, v), h, rfl⟩)
      rw [if_neg this]; exact ih hn.2 h

theorem keys_aDel (l : List (κ × β)) (k : κ) : keys (aDel l k) = (keys l).filter fun x => decide (x ≠ k) := by
  simp only [keys, aDel, filter_map]; rfl

theorem mem_aDel {l : List (κ × β)} {k : κ} {e : κ × β} : e ∈ aDel l k ↔ e ∈ l ∧ e.1 ≠ k := by
  simp [aDel, mem_filter]

theorem aGet_aDel_self (l : List (κ × β)) (k : κ) : aGet (aDel l k) k = none := by
  apply aGet_eq_none_of_not_mem
  rw [keys_aDel]; simp [mem_filter]

theorem aGet_aDel_ne (l : List (κ × β)) {k k' : κ} (h : k' ≠ k) : aGet (aDel l k) k' = aGet l k' := by
  induction l with
  | nil => rfl
  | cons e l ih =>
    by_cases he : e.1 = k
    · have : aDel (e :: l) k = aDel l k := by simp [aDel, he]
      rw [this, ih, aGet_cons, if_neg (fun (hh : e.1 = k') => h (hh.symm.trans he))]
    · have : aDel (e :: l) k = e :: aDel l k := by simp [aDel, he]
      rw [this, aGet_cons, aGet_cons, ih]

theorem aDel_of_not_mem {l : List (κ × β)} {k : κ} (h : k ∉ keys l) : aDel l k = l := by
  unfold aDel
  rw [filter_eq_self]
  intro e he
  simp only [ne_eq, decide_eq_true_eq]
  intro hk
  exact h (mem_map.2 ⟨e, he, hk⟩)

theorem aGet_append (l m : List (κ × β)) (k : κ) :
    aGet (l ++ m) k = match aGet l k with | some v => some v | none => aGet m k := by
  induction l with
  | nil => rfl
  | cons e l ih =>
    rw [cons_append, aGet_cons, aGet_cons]
    split
    · rfl
    · exact ih

theorem aGet_aSet_self (l : List (κ × β)) (k : κ) (v : β) : aGet (aSet l k v) k = some v := by
  unfold aSet
  rw [aGet_append, aGet_aDel_self]
  simp [aGet_cons]

theorem aGet_aSet_ne (l : List (κ × β)) {k k' : κ} (v : β) (h : k' ≠ k) : aGet (aSet l k v) k' = aGet l k' := by
  unfold aSet
  rw [aGet_append, aGet_aDel_ne l h]
  cases aGet l k' with
  | some x => rfl
  | none => simp [aGet_cons, Ne.symm h]

theorem aSet_of_not_mem {l : List (κ × β)} {k : κ} (v : β) (h : k ∉ keys l) : aSet l k v = l ++ [(k, v)] := by
  unfold aSet; rw [aDel_of_not_mem h]

theorem keys_nodup_aDel {l : List (κ × β)} (k : κ) (h : (keys l).Nodup) : (keys (aDel l k)).Nodup := by
  rw [keys_aDel]; exact h.filter _

theorem length_aDel_of_mem {l : List (κ × β)} {k : κ} (hn : (keys l).Nodup) (h : k ∈ keys l) :
    (aDel l k).length + 1 = l.length := by
  induction l with
  | nil => cases h
  | cons e l ih =>
    simp only [keys, map_cons, nodup_cons] at hn
    by_cases he : e.1 = k
    · have hk : k ∉ keys l := he ▸ hn.1
      have : aDel (e :: l) k = aDel l k := by simp [aDel, he]
      rw [this, aDel_of_not_mem hk]; rfl
    · have : aDel (e :: l) k = e :: aDel l k := by simp [aDel, he]
      rw [this]
      simp only [keys, map_cons, mem_cons] at h
      rcases h with h | h
      · exact absurd h.symm he
      · have := ih hn.2 h
        simp only [length_cons]; omega

end assoc

/-! ### allocation policy -/

/-- pigeonhole: a duplicate-free list contained in another list is not longer -/
theorem nodup_subset_length_le {α : Type} [DecidableEq α] :
    ∀ {l m : List α}, l.Nodup → (∀ a ∈ l, a ∈ m) → l.length ≤ m.length
  | [], _, _, _ => by simp
  | a :: l, m, hl, hs => by
    rw [nodup_cons] at hl
    have ham : a ∈ m := hs a mem_cons_self
    have : l.length ≤ (m.erase a).length := by
      apply nodup_subset_length_le hl.2
      intro b hb
      have hne : b ≠ a := fun h => hl.1 (h ▸ hb)
      exact (mem_erase_of_ne hne).2 (hs b (mem_cons_of_mem _ hb))
    rw [length_erase_of_mem ham] at this
    have : 0 < m.length := length_pos_of_mem ham
    simp only [length_cons]; omega

/-- `_get_unused_physical_qubit` returns an address that is not in use -/
theorem firstFree_not_mem (used : List Nat) : firstFree used ∉ used := by
  unfold firstFree
  cases h : (List.range (used.length + 1)).find? (fun j => !used.contains j) with
  | some j =>
    have := find?_some h
    simpa using this
  | none =>
    exfalso
    rw [find?_eq_none] at h
    have : (List.range (used.length + 1)).length ≤ used.length := by
      apply nodup_subset_length_le nodup_range
      intro a ha
      have := h a ha
      simpa using this
    simp only [length_range] at this; omega

end SqVerif.NqExec

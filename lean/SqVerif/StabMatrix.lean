import SqVerif.StabSpec
/-
L0 — matrix justification of the letter-wise conjugation tables `conj1`,
`conj2` (StabSpec.lean) and of the product table `iexp`/`mul1` (Pauli.lean).

Everything is computed over the Gaussian integers Z[i] (two `Int`s, decidable
equality) so that the statements are closed finite computations checked by
`decide`.  The 1/√2 of H and K is carried as an explicit scale factor:
`(√2·U) M (√2·U)† = 2 · U M U†`.

Core Lean only.
-/
namespace SqVerif.Stab.Mat

/-- Gaussian integer `re + im·i` -/
structure GI where
  re : Int
  im : Int
  deriving DecidableEq, Repr

namespace GI
def zero : GI := ⟨0, 0⟩
def one : GI := ⟨1, 0⟩
def I : GI := ⟨0, 1⟩
def ofInt (k : Int) : GI := ⟨k, 0⟩
def add (a b : GI) : GI := ⟨a.re + b.re, a.im + b.im⟩
def mul (a b : GI) : GI := ⟨a.re * b.re - a.im * b.im, a.re * b.im + a.im * b.re⟩
def neg (a : GI) : GI := ⟨-a.re, -a.im⟩
def conj (a : GI) : GI := ⟨a.re, -a.im⟩
/-- `i^k` -/
def ipow : Nat → GI
  | 0 => one
  | k + 1 => mul I (ipow k)
end GI

/-- square matrices as lists of rows -/
abbrev Mx := List (List GI)

def Mx.get (m : Mx) (r c : Nat) : GI := (m.getD r []).getD c GI.zero
/-- the `n × n` matrix with entries `f r c` -/
def mk (n : Nat) (f : Nat → Nat → GI) : Mx :=
  (List.range n).map fun r => (List.range n).map fun c => f r c
/-- matrix product of `n × n` matrices -/
def mmul (n : Nat) (a b : Mx) : Mx :=
  mk n fun r c => (List.range n).foldl (fun acc k => acc.add ((a.get r k).mul (b.get k c))) GI.zero
/-- conjugate transpose -/
def dagger (n : Nat) (a : Mx) : Mx := mk n fun r c => (a.get c r).conj
def smul (k : GI) (a : Mx) : Mx := a.map fun row => row.map (GI.mul k)
/-- Kronecker product of two 2×2 matrices, first factor = most significant index bit -/
def kron (a b : Mx) : Mx := mk 4 fun r c => (a.get (r / 2) (c / 2)).mul (b.get (r % 2) (c % 2))

/-- conjugation `U M U†` -/
def conjBy (n : Nat) (u m : Mx) : Mx := mmul n (mmul n u m) (dagger n u)

private def o : GI := GI.zero
private def l : GI := GI.one
private def i : GI := GI.I
private def ml : GI := GI.neg GI.one
private def mi : GI := GI.neg GI.I

/-- the Hermitian Pauli matrix of a letter `(x,z)`: I, X, Y = [[0,-i],[i,0]], Z -/
def pauli : P1 → Mx
  | (false, false) => [[l, o], [o, l]]
  | (true, false) => [[o, l], [l, o]]
  | (true, true) => [[o, mi], [i, o]]
  | (false, true) => [[l, o], [o, ml]]

/-- the one-qubit gate matrices; H and K multiplied by √2
(`qutip_simulator.py` apply_H / apply_K: K = (1/√2)[[1,-i],[i,-1]]), S = diag(1,i) -/
def gate1Mx : Gate1 → Mx
  | .X => pauli (true, false)
  | .Y => pauli (true, true)
  | .Z => pauli (false, true)
  | .H => [[l, l], [l, ml]]
  | .K => [[l, mi], [i, ml]]
  | .S => [[l, o], [o, i]]

/-- `|√2|² = 2` for the scaled gates -/
def gate1Scale : Gate1 → Int
  | .H => 2 | .K => 2 | _ => 1

/-- two-qubit gates in the basis |c t>, control = first tensor factor -/
def gate2Mx : Gate2 → Mx
  | .CNOT => [[l, o, o, o], [o, l, o, o], [o, o, o, l], [o, o, l, o]]
  | .CZ => [[l, o, o, o], [o, l, o, o], [o, o, l, o], [o, o, o, ml]]

/-! ### sanity: the gates are unitary (up to the recorded scale) -/

theorem gate1_unitary (g : Gate1) :
    mmul 2 (gate1Mx g) (dagger 2 (gate1Mx g)) = smul (GI.ofInt (gate1Scale g)) (pauli (false, false)) := by
  cases g <;> decide

theorem gate2_unitary (g : Gate2) :
    mmul 4 (gate2Mx g) (dagger 4 (gate2Mx g)) = kron (pauli (false, false)) (pauli (false, false)) := by
  cases g <;> decide

theorem pauli_hermitian (a : P1) : dagger 2 (pauli a) = pauli a := by
  rcases a with ⟨x, z⟩; cases x <;> cases z <;> decide

/-! ### the product table of Pauli.lean is the matrix product -/

theorem iexp_is_matrix_product (a b : P1) :
    mmul 2 (pauli a) (pauli b) = smul (GI.ipow (iexp a b)) (pauli (mul1 a b)) := by
  rcases a with ⟨a1, a2⟩; rcases b with ⟨b1, b2⟩
  cases a1 <;> cases a2 <;> cases b1 <;> cases b2 <;> decide

theorem anti1_is_matrix_anticommutation (a b : P1) :
    mmul 2 (pauli a) (pauli b) =
      smul (if anti1 a b then GI.neg GI.one else GI.one) (mmul 2 (pauli b) (pauli a)) := by
  rcases a with ⟨a1, a2⟩; rcases b with ⟨b1, b2⟩
  cases a1 <;> cases a2 <;> cases b1 <;> cases b2 <;> decide

/-! ### the conjugation tables are matrix conjugation -/

/-- `U_g · M(a) · U_g† = scale_g · i^ph · M(a')` with `(ph, a') = conj1 g a` -/
theorem conj1_is_matrix_conjugation (g : Gate1) (a : P1) :
    conjBy 2 (gate1Mx g) (pauli a) =
      smul (GI.ofInt (gate1Scale g)) (smul (GI.ipow (conj1 g a).1) (pauli (conj1 g a).2)) := by
  rcases a with ⟨x, z⟩
  cases g <;> cases x <;> cases z <;> decide

/-- the phase of a conjugated Hermitian letter is ±1 -/
theorem conj1_hermitian (g : Gate1) (a : P1) : (conj1 g a).1 = 0 ∨ (conj1 g a).1 = 2 := by
  rcases a with ⟨x, z⟩
  cases g <;> cases x <;> cases z <;> decide

/-- `U_g · (M(a) ⊗ M(b)) · U_g† = i^ph · (M(a') ⊗ M(b'))` with `(ph, a', b') = conj2 g a b` -/
theorem conj2_is_matrix_conjugation (g : Gate2) (a b : P1) :
    conjBy 4 (gate2Mx g) (kron (pauli a) (pauli b)) =
      smul (GI.ipow (conj2 g a b).1) (kron (pauli (conj2 g a b).2.1) (pauli (conj2 g a b).2.2)) := by
  rcases a with ⟨xc, zc⟩; rcases b with ⟨xt, zt⟩
  cases g <;> cases xc <;> cases zc <;> cases xt <;> cases zt <;> decide +kernel

theorem conj2_hermitian (g : Gate2) (a b : P1) : (conj2 g a b).1 = 0 ∨ (conj2 g a b).1 = 2 := by
  rcases a with ⟨xc, zc⟩; rcases b with ⟨xt, zt⟩
  cases g <;> cases xc <;> cases zc <;> cases xt <;> cases zt <;> decide +kernel

/-- the Kronecker product is multiplicative on Pauli letters (so that letter-wise
products of strings are products of the denoted operators) -/
theorem kron_mul (a b c d : P1) :
    mmul 4 (kron (pauli a) (pauli b)) (kron (pauli c) (pauli d)) =
      kron (mmul 2 (pauli a) (pauli c)) (mmul 2 (pauli b) (pauli d)) := by
  rcases a with ⟨a1, a2⟩; rcases b with ⟨b1, b2⟩; rcases c with ⟨c1, c2⟩; rcases d with ⟨d1, d2⟩
  cases a1 <;> cases a2 <;> cases b1 <;> cases b2 <;> cases c1 <;> cases c2 <;> cases d1 <;> cases d2 <;> decide +kernel

end SqVerif.Stab.Mat

import SqVerif.SkelLemmas
import SqVerif.SkelTwoPLDrop
/-!
# Skeleton paths as 2PL transactions — layer L3, serves C03

A *path* of a skeleton (`Skel.paths s tr e`: an event trace `tr`) is translated into a `TwoPL` transaction by a
role assignment `ρ : Asg` that resolves roles to concrete locks and resources:

    acquire r  ↦  acq l   for every node lock l named by r        (`ALL` names several)
    release r  ↦  rel l   for every node lock l named by r
    qlock q / qunlock q  ↦  acq / rel of the qubit locks named by q
    mutate r field, and a call on r that the guard analysis checks (a call on a simulated qubit that is not an
        exempt getter; a node method that relies on the lock)
               ↦  eff fp f   with fp = the resources `ρ.res n field` of every node n named by r and
                              f ANY effect local to fp  (`F i fp`, quantified over)
    any other call  ↦  eff [] f   (no footprint in this transaction: a getter of immutable identifiers, or a
                              sub-operation that takes its own locks and is a transaction of its own)
    requires / alias / cancel / check / raise  ↦  nothing

For a callee half (a skeleton that `requires` locks `pre` held by its caller) the transaction is bracketed by the
caller's acquire and release of `pre` (`transOp`).

* `tp_weak`, `path_twoPhase_core`   `Skel.twoPhase s`  ⟹  every translated path is `WeakTP`
* `gd_selfGuarded`, `path_guarded_core`   `Skel.guardedFrom … pre s` + `lockDiscipline pre s`  ⟹  every translated path is
  `selfGuarded` (given that the transaction never re-acquires a lock it holds — true in every lock-exclusive
  schedule — and that `ρ` is consistent with the aliases validated on the path)
-/
namespace SqVerif.SkelTwoPL
open SqVerif.TwoPL SqVerif.Skel

variable {V : Type}

/-- a role assignment: the concrete node locks a role names, the concrete qubit locks a qubit operand names,
    and the resources of node `n` that a mutation of `field` / a call of method `field` may touch -/
structure Asg where
  node : Role → List Lock
  qub : QRef → List Lock
  res : Lock → String → List Res

/-- footprint of a mutation of `field` (a call of `field`) at role `r` -/
def Asg.fp (ρ : Asg) (r : Role) (field : String) : List Res := (ρ.node r).flatMap (fun n => ρ.res n field)

/-- the assignment is meaningful for the guard map:
    * every resource of node `n` is guarded by the lock of `n`  (`guard (res (n, field)) = lock n`);
    * `ALL` (the set `{virtNode, simNode c, simNode t}` requested by `_lock_nodes`) contains `SELF`, `SIM c`, `SIM t`;
    * node locks and qubit locks are different objects. -/
structure Asg.WF (guard : Res → Lock) (ρ : Asg) : Prop where
  resGuard : ∀ n field x, x ∈ ρ.res n field → guard x = n
  allCovers : ∀ r, (r = Role.SELF ∨ r = Role.SIM .c ∨ r = Role.SIM .t) → ∀ l, l ∈ ρ.node r → l ∈ ρ.node .ALL
  sorts : ∀ r q l, l ∈ ρ.node r → l ∉ ρ.qub q

/-- `ρ` agrees with the aliases the code validated on this path (`curr_sim_node == self.simNode`): environmental —
    on the run that takes this path the two expressions evaluated to the same node -/
def AliasOK (ρ : Asg) (tr : List Ev) : Prop := ∀ x y, Ev.alias x y ∈ tr → ρ.node x = ρ.node y

/-- the calls whose target the guard analysis checks -/
def checked (needs exempt : String → Bool) (m : String) (q : Bool) : Bool := (q && !exempt m) || (!q && needs m)

def transEv (ρ : Asg) (ck : String → Bool → Bool) (F : Nat → List Res → St V → St V) (i : Nat) : Ev → Txn V
  | .acq r _ => (ρ.node r).map Act.acq
  | .rel r => (ρ.node r).map Act.rel
  | .qacq q => (ρ.qub q).map Act.acq
  | .qrel q => (ρ.qub q).map Act.rel
  | .mut r f => [Act.eff (ρ.fp r f) (F i (ρ.fp r f))]
  | .call r m q => if ck m q then [Act.eff (ρ.fp r m) (F i (ρ.fp r m))] else [Act.eff [] (F i [])]
  | _ => []

/-- translation of a trace; `i` numbers the events (it selects the effect `F i`) -/
def transFrom (ρ : Asg) (ck : String → Bool → Bool) (F : Nat → List Res → St V → St V) : Nat → List Ev → Txn V
  | _, [] => []
  | i, ev :: tr => transEv ρ ck F i ev ++ transFrom ρ ck F (i+1) tr

/-- the transaction of an operation: the translated path, bracketed by the acquire / release of the locks `pre`
    that its caller holds for it by contract (`pre = []` for an operation that takes its own locks) -/
def transOp (ρ : Asg) (ck : String → Bool → Bool) (F : Nat → List Res → St V → St V) (pre : List Role)
    (tr : List Ev) : Txn V :=
  (pre.flatMap ρ.node).map Act.acq ++ (transFrom ρ ck F 0 tr ++ (pre.flatMap ρ.node).map Act.rel)

/-! ### every step is well formed when the effects are local -/

theorem transEv_wf (ρ : Asg) (ck : String → Bool → Bool) (F : Nat → List Res → St V → St V)
    (hF : ∀ i fp, LocalEff fp (F i fp)) (i : Nat) (ev : Ev) : ∀ a, a ∈ transEv ρ ck F i ev → a.WF := by
  intro a ha
  cases ev with
  | acq r b => simp only [transEv, List.mem_map] at ha; obtain ⟨l, _, rfl⟩ := ha; trivial
  | rel r => simp only [transEv, List.mem_map] at ha; obtain ⟨l, _, rfl⟩ := ha; trivial
  | qacq q => simp only [transEv, List.mem_map] at ha; obtain ⟨l, _, rfl⟩ := ha; trivial
  | qrel q => simp only [transEv, List.mem_map] at ha; obtain ⟨l, _, rfl⟩ := ha; trivial
  | «mut» r f =>
    simp only [transEv, List.mem_singleton] at ha; subst ha; exact hF _ _
  | call r m q =>
    simp only [transEv] at ha
    split at ha
    · simp only [List.mem_singleton] at ha; subst ha; exact hF _ _
    · simp only [List.mem_singleton] at ha; subst ha; exact hF _ _
  | cancel r => cases ha
  | alias x y => cases ha
  | req r => cases ha
  | chk k => cases ha
  | rais k => cases ha

theorem transFrom_wf (ρ : Asg) (ck : String → Bool → Bool) (F : Nat → List Res → St V → St V)
    (hF : ∀ i fp, LocalEff fp (F i fp)) (tr : List Ev) : ∀ i a, a ∈ transFrom ρ ck F i tr → a.WF := by
  induction tr with
  | nil => intro _ a ha; cases ha
  | cons ev rest ih =>
    intro i a ha
    simp only [transFrom, List.mem_append] at ha
    rcases ha with ha | ha
    · exact transEv_wf ρ ck F hF i ev a ha
    · exact ih (i+1) a ha

theorem transOp_wf (ρ : Asg) (ck : String → Bool → Bool) (F : Nat → List Res → St V → St V)
    (hF : ∀ i fp, LocalEff fp (F i fp)) (pre : List Role) (tr : List Ev) :
    ∀ a, a ∈ transOp ρ ck F pre tr → a.WF := by
  intro a ha
  simp only [transOp, List.mem_append, List.mem_map] at ha
  rcases ha with ⟨l, _, rfl⟩ | ha | ⟨l, _, rfl⟩
  · trivial
  · exact transFrom_wf ρ ck F hF tr 0 a ha
  · trivial

/-! ### two-phase -/

theorem weakTPB_acqs (ls : List Lock) (rest : Txn V) (e : Bool) :
    weakTPB e false (ls.map Act.acq ++ rest) = weakTPB e false rest := by
  induction ls with
  | nil => rfl
  | cons l ls ih => simp only [List.map_cons, List.cons_append, weakTPB, Bool.not_false, Bool.true_and, ih]

theorem weakTPB_rels (ls : List Lock) (rest : Txn V) (e sh : Bool) (h : weakTPB e (sh || e) rest = true) :
    weakTPB e sh (ls.map Act.rel ++ rest) = true := by
  induction ls generalizing sh with
  | nil =>
    exact weakTPB_mono rest e (sh || e) e sh (fun h => h) (fun h => by simp [h]) h
  | cons l ls ih =>
    simp only [List.map_cons, List.cons_append, weakTPB]
    apply ih
    cases sh <;> cases e <;> simpa using h

theorem weakTPB_rels_end (ls : List Lock) (e sh : Bool) : weakTPB e sh (ls.map Act.rel : Txn V) = true := by
  induction ls generalizing sh with
  | nil => rfl
  | cons l ls ih => simp only [List.map_cons, weakTPB]; exact ih _

theorem weakTPB_append_rels (a : Txn V) (ls : List Lock) : ∀ e sh, weakTPB e sh a = true →
    weakTPB e sh (a ++ ls.map Act.rel) = true := by
  induction a with
  | nil => intro e sh _; exact weakTPB_rels_end ls e sh
  | cons x xs ih =>
    intro e sh h
    cases x with
    | acq l =>
      simp only [List.cons_append, weakTPB, Bool.and_eq_true] at h ⊢
      exact ⟨h.1, ih e sh h.2⟩
    | rel l => simp only [List.cons_append, weakTPB] at h ⊢; exact ih _ _ h
    | eff fp f => simp only [List.cons_append, weakTPB] at h ⊢; exact ih _ _ h

theorem tp_viol_step (a : TpSt) (ev : Ev) (h : (tpStep a ev).viol = false) : a.viol = false := by
  cases ev with
  | acq r b =>
    simp only [tpStep, tpAcq] at h
    split at h
    · cases h
    · exact h
  | qacq q =>
    simp only [tpStep, tpAcq] at h
    split at h
    · cases h
    · exact h
  | rel r =>
    simp only [tpStep, tpRel] at h
    split at h
    · exact h
    · cases h
  | qrel q =>
    simp only [tpStep, tpRel] at h
    split at h
    · exact h
    · cases h
  | cancel r => simp [tpStep] at h
  | alias x y => simpa [tpStep] using h
  | call r m q => simpa [tpStep] using h
  | «mut» r f => simpa [tpStep] using h
  | req r => simpa [tpStep] using h
  | chk k => simpa [tpStep] using h
  | rais k => simpa [tpStep] using h

theorem tp_viol_mono (tr : List Ev) : ∀ a : TpSt, (tr.foldl tpStep a).viol = false → a.viol = false := by
  induction tr with
  | nil => intro a h; exact h
  | cons ev rest ih =>
    intro a h
    simp only [List.foldl_cons] at h
    exact tp_viol_step a ev (ih _ h)

/-- a trace accepted by the two-phase monitor translates into a weakly two-phase transaction -/
theorem tp_weak (ρ : Asg) (ck : String → Bool → Bool) (F : Nat → List Res → St V → St V) (tr : List Ev) :
    ∀ (a : TpSt) (i : Nat), (tr.foldl tpStep a).viol = false →
      weakTPB a.eff a.shrinking (transFrom ρ ck F i tr) = true := by
  induction tr with
  | nil => intro _ _ _; rfl
  | cons ev rest ih =>
    intro a i h
    simp only [List.foldl_cons] at h
    have IH := ih (tpStep a ev) (i+1) h
    have hv := tp_viol_mono rest _ h
    simp only [transFrom]
    cases ev with
    | acq r b =>
      simp only [tpStep, tpAcq] at hv IH
      split at hv
      · cases hv
      · rename_i hsh
        rw [if_neg hsh] at IH
        have hsh' : a.shrinking = false := by simpa using hsh
        simp only [transEv]
        rw [hsh'] at IH ⊢
        rw [weakTPB_acqs]
        exact IH
    | qacq q =>
      simp only [tpStep, tpAcq] at hv IH
      split at hv
      · cases hv
      · rename_i hsh
        rw [if_neg hsh] at IH
        have hsh' : a.shrinking = false := by simpa using hsh
        simp only [transEv]
        rw [hsh'] at IH ⊢
        rw [weakTPB_acqs]
        exact IH
    | rel r =>
      simp only [tpStep, tpRel] at hv IH
      split at hv
      · rename_i hheld
        rw [if_pos hheld] at IH
        simp only [transEv]
        exact weakTPB_rels _ _ _ _ IH
      · cases hv
    | qrel q =>
      simp only [tpStep, tpRel] at hv IH
      split at hv
      · rename_i hheld
        rw [if_pos hheld] at IH
        simp only [transEv]
        exact weakTPB_rels _ _ _ _ IH
      · cases hv
    | cancel r => simp [tpStep] at hv
    | alias x y => simpa [tpStep, transEv] using IH
    | call r m q =>
      simp only [tpStep] at IH
      simp only [transEv]
      split <;> simpa [weakTPB] using IH
    | «mut» r f =>
      simp only [tpStep] at IH
      simpa [transEv, weakTPB] using IH
    | req r => simpa [tpStep, transEv] using IH
    | chk k => simpa [tpStep, transEv] using IH
    | rais k => simpa [tpStep, transEv] using IH

/-- **(1)** if the skeleton passes the two-phase monitor, every path translates — under every role assignment,
    every choice of effects and every contract bracket — into a transaction that is two-phase modulo aborted
    attempts -/
theorem path_twoPhase_core (s : Stmt) (h : twoPhase s = true) (tr : List Ev) (e : Exit) (hp : paths s tr e)
    (ρ : Asg) (ck : String → Bool → Bool) (F : Nat → List Res → St V → St V) (pre : List Role) :
    WeakTP (transOp ρ ck F pre tr) := by
  have hv := twoPhase_sound s h tr e hp
  have hw := tp_weak ρ ck F tr tpInit 0 hv
  unfold WeakTP transOp
  rw [weakTPB_acqs]
  exact weakTPB_append_rels _ _ _ _ hw

/-! ### guards -/

/-- the evolution of the held-roles component of the guard monitor -/
def hStep (h : Held) : Ev → Held
  | .acq r _ => h.acq r
  | .req r => h.acq r
  | .rel r => h.rel r
  | .alias x y => h.alias x y
  | _ => h

theorem gdStep_h (needs exempt : String → Bool) (a : GdSt) (ev : Ev) :
    (gdStep needs exempt a ev).h = hStep a.h ev := by
  cases ev with
  | «mut» r f => simp only [gdStep, hStep]; split <;> rfl
  | call r m q => simp only [gdStep, hStep]; split <;> rfl
  | acq r b => rfl
  | rel r => rfl
  | alias x y => rfl
  | req r => rfl
  | qacq q => rfl
  | qrel q => rfl
  | cancel r => rfl
  | chk k => rfl
  | rais k => rfl

/-- lock discipline monitor (an addition to `Skel.guarded`): a `requires r` is covered by the contract — `r` is
    among the roles held — and a release names a role that is held.  (`Skel.gdStep` treats `requires` as an
    acquisition and ignores releases of roles that are not held; with this monitor both readings coincide.) -/
def dcStep (a : GdSt) (ev : Ev) : GdSt :=
  { h := hStep a.h ev,
    viol := a.viol || (match ev with
      | .req r => !decide (r ∈ a.h.held)
      | .rel r => !decide (a.h.al.resolve r ∈ a.h.held)
      | _ => false) }

def lockDiscipline (pre : List Role) (s : Stmt) : Bool := allOuts dcStep (gdInit pre) (fun a => !a.viol) s

theorem lockDiscipline_sound (pre : List Role) (s : Stmt) (h : lockDiscipline pre s = true) (tr : List Ev)
    (e : Exit) (hp : paths s tr e) : (tr.foldl dcStep (gdInit pre)).viol = false := by
  have := allOuts_sound dcStep (gdInit pre) (fun a => !a.viol) s h tr e hp
  simpa using this

theorem dc_viol_step (a : GdSt) (ev : Ev) (h : (dcStep a ev).viol = false) : a.viol = false := by
  simp only [dcStep, Bool.or_eq_false_iff] at h
  exact h.1

theorem dc_viol_mono (tr : List Ev) : ∀ a : GdSt, (tr.foldl dcStep a).viol = false → a.viol = false := by
  induction tr with
  | nil => intro a h; exact h
  | cons ev rest ih =>
    intro a h
    simp only [List.foldl_cons] at h
    exact dc_viol_step a ev (ih _ h)

/-! #### concrete locks held vs. roles held -/

theorem mem_holds_acqs (ls : List Lock) : ∀ (H : List Lock) (l : Lock),
    l ∈ holds H (ls.map Act.acq : Txn V) ↔ l ∈ ls ∨ l ∈ H := by
  induction ls with
  | nil => intro H l; simp [holds]
  | cons x xs ih =>
    intro H l
    simp only [holds, List.map_cons, List.foldl_cons, holdStep] at ih ⊢
    rw [ih]
    simp only [List.mem_cons]
    constructor
    · rintro (h | h | h)
      · exact Or.inl (Or.inr h)
      · exact Or.inl (Or.inl h)
      · exact Or.inr h
    · rintro ((h | h) | h)
      · exact Or.inr (Or.inl h)
      · exact Or.inl h
      · exact Or.inr (Or.inr h)

theorem mem_holds_rels (ls : List Lock) : ∀ (H : List Lock) (l : Lock),
    l ∈ holds H (ls.map Act.rel : Txn V) ↔ l ∈ H ∧ l ∉ ls := by
  induction ls with
  | nil => intro H l; simp [holds]
  | cons x xs ih =>
    intro H l
    simp only [holds, List.map_cons, List.foldl_cons, holdStep] at ih ⊢
    rw [ih]
    simp only [List.mem_filter, bne_iff_ne, ne_eq, List.mem_cons, not_or]
    constructor
    · rintro ⟨⟨h1, h2⟩, h3⟩; exact ⟨h1, h2, h3⟩
    · rintro ⟨h1, h2, h3⟩; exact ⟨⟨h1, h2⟩, h3⟩

theorem selfGuardedFrom_acqs (guard : Res → Lock) (ls : List Lock) : ∀ H,
    selfGuardedFrom guard H (ls.map Act.acq : Txn V) := by
  induction ls with
  | nil => intro _; trivial
  | cons x xs ih => intro H; exact ⟨fun y hy => (by cases hy), ih _⟩

theorem selfGuardedFrom_rels (guard : Res → Lock) (ls : List Lock) : ∀ H,
    selfGuardedFrom guard H (ls.map Act.rel : Txn V) := by
  induction ls with
  | nil => intro _; trivial
  | cons x xs ih => intro H; exact ⟨fun y hy => (by cases hy), ih _⟩

theorem noReacqFrom_acqs (ls : List Lock) : ∀ H, noReacqFrom H (ls.map Act.acq : Txn V) →
    ∀ l, l ∈ ls → l ∉ H := by
  induction ls with
  | nil => intro _ _ l hl; cases hl
  | cons x xs ih =>
    intro H h l hl
    obtain ⟨h1, h2⟩ := h
    rcases List.mem_cons.1 hl with rfl | hl
    · exact h1 l rfl
    · intro hH
      exact ih _ h2 l hl (by simp [holdStep, hH])

/-- what the role-level account of the monitor means concretely -/
structure HeldInv (ρ : Asg) (h : Held) (H : List Lock) : Prop where
  sub : ∀ r, r ∈ h.held → ∀ l, l ∈ ρ.node r → l ∈ H
  disj : ∀ r1, r1 ∈ h.held → ∀ r2, r2 ∈ h.held → r1 ≠ r2 → ∀ l, l ∈ ρ.node r1 → l ∉ ρ.node r2
  al : ∀ p, p ∈ h.al → ρ.node p.1 = ρ.node p.2

theorem resolve_node (ρ : Asg) (al : Al) (hal : ∀ p, p ∈ al → ρ.node p.1 = ρ.node p.2) (r : Role) :
    ρ.node (al.resolve r) = ρ.node r := by
  unfold Al.resolve
  cases hf : al.find? (fun p => p.1 == r) with
  | none => rfl
  | some p =>
    have hm := List.mem_of_find?_eq_some hf
    have hp := List.find?_some hf
    simp only [beq_iff_eq] at hp
    simp only
    rw [← hp]
    exact (hal p hm).symm

theorem covers_sound (guard : Res → Lock) (ρ : Asg) (hρ : ρ.WF guard) (h : Held) (H : List Lock)
    (hi : HeldInv ρ h H) (r : Role) (hc : covers h.held r = true) : ∀ l, l ∈ ρ.node r → l ∈ H := by
  intro l hl
  simp only [covers, Bool.or_eq_true, decide_eq_true_eq, Bool.and_eq_true, beq_iff_eq] at hc
  rcases hc with hc | ⟨hall, hc⟩
  · exact hi.sub r hc l hl
  · exact hi.sub .ALL hall l (hρ.allCovers r (by rcases hc with (h | h) | h <;> simp [h]) l hl)

theorem mem_relRole (r0 r' : Role) (held : List Role) (h : r' ∈ relRole r0 held) : r' ∈ held ∧ r' ≠ r0 := by
  unfold relRole at h
  split at h
  · rename_i hall
    simp only [List.mem_filter, Bool.and_eq_true, bne_iff_ne, ne_eq] at h
    exact ⟨h.1, by rw [hall]; exact h.2.1⟩
  · simp only [List.mem_filter, bne_iff_ne, ne_eq] at h
    exact h

/-- the guard monitor and the discipline monitor accept the trace ⟹ the translated transaction touches a
    resource only while it holds the guard -/
theorem gd_selfGuarded (guard : Res → Lock) (ρ : Asg) (hρ : ρ.WF guard) (needs exempt : String → Bool)
    (F : Nat → List Res → St V → St V) (tr : List Ev) :
    ∀ (a b : GdSt) (H : List Lock) (i : Nat), a.h = b.h → HeldInv ρ a.h H → AliasOK ρ tr →
      (tr.foldl (gdStep needs exempt) a).viol = false → (tr.foldl dcStep b).viol = false →
      noReacqFrom H (transFrom ρ (checked needs exempt) F i tr) →
      selfGuardedFrom guard H (transFrom ρ (checked needs exempt) F i tr) := by
  induction tr with
  | nil => intros; trivial
  | cons ev rest ih =>
    intro a b H i hab hi hal hga hdc hnr
    simp only [List.foldl_cons] at hga hdc
    have hga1 := gd_viol_mono needs exempt rest _ hga
    have hdc1 := dc_viol_mono rest _ hdc
    have hal' : AliasOK ρ rest := fun x y hm => hal x y (List.mem_cons_of_mem _ hm)
    simp only [transFrom] at hnr ⊢
    rw [noReacqFrom_append] at hnr
    rw [selfGuardedFrom_append]
    have hab' : (gdStep needs exempt a ev).h = (dcStep b ev).h := by
      rw [gdStep_h]; simp only [dcStep]; rw [hab]
    -- it suffices to show the step's own obligations and the invariant afterwards
    suffices hstep : selfGuardedFrom guard H (transEv ρ (checked needs exempt) F i ev) ∧
        HeldInv ρ (hStep a.h ev) (holds H (transEv ρ (checked needs exempt) F i ev)) by
      refine ⟨hstep.1, ih _ _ _ (i+1) hab' ?_ hal' hga hdc hnr.2⟩
      rw [gdStep_h]; exact hstep.2
    cases ev with
    | acq r bb =>
      simp only [transEv, hStep, Held.acq] at hnr ⊢
      refine ⟨selfGuardedFrom_acqs guard _ _, ?_⟩
      have hfresh := noReacqFrom_acqs _ _ hnr.1
      constructor
      · intro r' hr' l hl
        rw [mem_holds_acqs]
        rcases (mem_addNew r r' _).1 hr' with rfl | hr'
        · exact Or.inl hl
        · exact Or.inr (hi.sub r' hr' l hl)
      · intro r1 h1 r2 h2 hne l hl1 hl2
        have e1 := (mem_addNew r r1 _).1 h1
        have e2 := (mem_addNew r r2 _).1 h2
        rcases e1 with e1 | e1
        · rcases e2 with e2 | e2
          · exact hne (e1.trans e2.symm)
          · rw [e1] at hl1
            exact hfresh l hl1 (hi.sub r2 e2 l hl2)
        · rcases e2 with e2 | e2
          · rw [e2] at hl2
            exact hfresh l hl2 (hi.sub r1 e1 l hl1)
          · exact hi.disj r1 e1 r2 e2 hne l hl1 hl2
      · intro p hp
        simp only [Al.drop, List.mem_filter] at hp
        exact hi.al p hp.1
    | req r =>
      simp only [transEv, hStep, Held.acq, holds, List.foldl_nil]
      refine ⟨trivial, ?_⟩
      have hin : r ∈ a.h.held := by
        simp only [dcStep, Bool.or_eq_false_iff, Bool.not_eq_false', decide_eq_true_eq] at hdc1
        rw [hab]; exact hdc1.2
      have hmem : ∀ r', r' ∈ addNew r a.h.held → r' ∈ a.h.held := by
        intro r' hr'
        rcases (mem_addNew r r' _).1 hr' with rfl | hr'
        · exact hin
        · exact hr'
      constructor
      · intro r' hr'; exact hi.sub r' (hmem r' hr')
      · intro r1 h1 r2 h2; exact hi.disj r1 (hmem r1 h1) r2 (hmem r2 h2)
      · intro p hp
        simp only [Al.drop, List.mem_filter] at hp
        exact hi.al p hp.1
    | rel r =>
      simp only [transEv, hStep, Held.rel]
      refine ⟨selfGuardedFrom_rels guard _ _, ?_⟩
      have hin : a.h.al.resolve r ∈ a.h.held := by
        simp only [dcStep, Bool.or_eq_false_iff, Bool.not_eq_false', decide_eq_true_eq] at hdc1
        rw [hab]; exact hdc1.2
      have hnode := resolve_node ρ a.h.al hi.al r
      constructor
      · intro r' hr' l hl
        obtain ⟨h1, h2⟩ := mem_relRole _ _ _ hr'
        rw [mem_holds_rels]
        refine ⟨hi.sub r' h1 l hl, ?_⟩
        rw [← hnode]
        exact hi.disj r' h1 _ hin h2 l hl
      · intro r1 h1 r2 h2
        exact hi.disj r1 (mem_relRole _ _ _ h1).1 r2 (mem_relRole _ _ _ h2).1
      · exact hi.al
    | alias x y =>
      simp only [transEv, hStep, Held.alias, holds, List.foldl_nil]
      refine ⟨trivial, ?_⟩
      have hxy : ρ.node x = ρ.node y := hal x y (by simp)
      have hpre : ∀ r', r' ∈ union [] (a.h.held.map (fun r => if r = x then y else r)) →
          ∃ r'', r'' ∈ a.h.held ∧ r' = (if r'' = x then y else r'') ∧ ρ.node r' = ρ.node r'' := by
        intro r' hr'
        rw [mem_union_nil] at hr'
        obtain ⟨r'', hm, rfl⟩ := List.mem_map.1 hr'
        refine ⟨r'', hm, rfl, ?_⟩
        split
        · rename_i he; rw [he]; exact hxy.symm
        · rfl
      constructor
      · intro r' hr' l hl
        obtain ⟨r'', hm, _, hn⟩ := hpre r' hr'
        rw [hn] at hl
        exact hi.sub r'' hm l hl
      · intro r1 h1 r2 h2 hne l hl1 hl2
        obtain ⟨r1', hm1, he1, hn1⟩ := hpre r1 h1
        obtain ⟨r2', hm2, he2, hn2⟩ := hpre r2 h2
        rw [hn1] at hl1
        rw [hn2] at hl2
        have : r1' ≠ r2' := by
          intro he; apply hne; rw [he1, he2, he]
        exact hi.disj r1' hm1 r2' hm2 this l hl1 hl2
      · intro p hp
        simp only [Al.set, List.mem_cons, List.mem_filter] at hp
        rcases hp with rfl | hp
        · exact hxy
        · exact hi.al p hp.1
    | «mut» r f =>
      simp only [transEv, hStep, holds, List.foldl_cons, List.foldl_nil, holdStep]
      refine ⟨⟨?_, trivial⟩, hi⟩
      intro x hx
      simp only [Act.fp, Asg.fp, List.mem_flatMap] at hx
      obtain ⟨n, hn, hx⟩ := hx
      rw [hρ.resGuard n f x hx]
      have hc : covers a.h.held (a.h.al.resolve r) = true := by
        simp only [gdStep] at hga1
        split at hga1
        · assumption
        · cases hga1
      rw [← resolve_node ρ a.h.al hi.al r] at hn
      exact covers_sound guard ρ hρ a.h H hi _ hc n hn
    | call r m q =>
      simp only [transEv]
      by_cases hck : checked needs exempt m q = true
      · rw [if_pos hck]
        simp only [hStep, holds, List.foldl_cons, List.foldl_nil, holdStep]
        refine ⟨⟨?_, trivial⟩, hi⟩
        intro x hx
        simp only [Act.fp, Asg.fp, List.mem_flatMap] at hx
        obtain ⟨n, hn, hx⟩ := hx
        rw [hρ.resGuard n m x hx]
        have hc : covers a.h.held (a.h.al.resolve r) = true := by
          simp only [gdStep] at hga1
          unfold checked at hck
          split at hga1
          · cases hga1
          · rename_i hcond
            rw [hck] at hcond
            simpa using hcond
        rw [← resolve_node ρ a.h.al hi.al r] at hn
        exact covers_sound guard ρ hρ a.h H hi _ hc n hn
      · rw [if_neg hck]
        simp only [hStep, holds, List.foldl_cons, List.foldl_nil, holdStep]
        exact ⟨⟨fun x hx => (by cases hx), trivial⟩, hi⟩
    | qacq q =>
      simp only [transEv, hStep]
      refine ⟨selfGuardedFrom_acqs guard _ _, ?_⟩
      constructor
      · intro r' hr' l hl
        rw [mem_holds_acqs]
        exact Or.inr (hi.sub r' hr' l hl)
      · exact hi.disj
      · exact hi.al
    | qrel q =>
      simp only [transEv, hStep]
      refine ⟨selfGuardedFrom_rels guard _ _, ?_⟩
      constructor
      · intro r' hr' l hl
        rw [mem_holds_rels]
        exact ⟨hi.sub r' hr' l hl, hρ.sorts r' q l hl⟩
      · exact hi.disj
      · exact hi.al
    | cancel r => simp only [transEv, hStep, holds, List.foldl_nil]; exact ⟨trivial, hi⟩
    | chk k => simp only [transEv, hStep, holds, List.foldl_nil]; exact ⟨trivial, hi⟩
    | rais k => simp only [transEv, hStep, holds, List.foldl_nil]; exact ⟨trivial, hi⟩

/-- the roles held by contract name pairwise different locks -/
def PreDisjoint (ρ : Asg) (pre : List Role) : Prop :=
  ∀ r1, r1 ∈ pre → ∀ r2, r2 ∈ pre → r1 ≠ r2 → ∀ l, l ∈ ρ.node r1 → l ∉ ρ.node r2

/-- **(2)** if the skeleton passes the guard monitor (and the lock-discipline monitor), every path translates
    into a transaction in which every effect on a resource of node `n` occurs while the transaction itself
    holds `lock n` — provided the transaction never re-acquires a lock it holds (which every lock-exclusive
    schedule guarantees, `noReacq_of_lockExcl`) -/
theorem path_guarded_core (guard : Res → Lock) (ρ : Asg) (hρ : ρ.WF guard) (needs exempt : String → Bool)
    (F : Nat → List Res → St V → St V) (pre : List Role) (s : Stmt)
    (hg : guardedFrom needs exempt pre s = true) (hd : lockDiscipline pre s = true)
    (tr : List Ev) (e : Exit) (hp : paths s tr e) (hal : AliasOK ρ tr) (hpre : PreDisjoint ρ pre)
    (hnr : noReacq (transOp ρ (checked needs exempt) F pre tr)) :
    selfGuarded guard (transOp ρ (checked needs exempt) F pre tr) := by
  have hga := allOuts_sound (gdStep needs exempt) (gdInit pre) (fun a => !a.viol) s hg tr e hp
  simp only [Bool.not_eq_true'] at hga
  have hdc := lockDiscipline_sound pre s hd tr e hp
  unfold selfGuarded transOp
  unfold noReacq transOp at hnr
  rw [noReacqFrom_append, noReacqFrom_append] at hnr
  rw [selfGuardedFrom_append, selfGuardedFrom_append]
  refine ⟨selfGuardedFrom_acqs guard _ _, ?_, selfGuardedFrom_rels guard _ _⟩
  apply gd_selfGuarded guard ρ hρ needs exempt F tr (gdInit pre) (gdInit pre) _ 0 rfl ?_ hal hga hdc hnr.2.1
  constructor
  · intro r hr l hl
    rw [mem_holds_acqs]
    exact Or.inl (List.mem_flatMap.2 ⟨r, hr, hl⟩)
  · exact hpre
  · intro p hp; cases hp

end SqVerif.SkelTwoPL

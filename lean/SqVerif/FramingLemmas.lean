import SqVerif.Framing
/-
Helper lemmas for C10.  The one idea: a size function that is *stable* (once
the bytes read so far determine the size, more bytes do not change it) makes
the first frame of a stream a function of the stream, not of how it was cut.
-/
namespace SqVerif.Framing

/-! ### integers -/

theorem rdLE_le32 (n : Nat) (h : n < 4294967296) : rdLE (le32 n) = n := by
  simp only [le32, rdLE]; omega

theorem rdBE_be32 (n : Nat) (h : n < 4294967296) : rdBE (be32 n) = n := by
  simp only [be32, rdBE, List.foldl]; omega

@[simp] theorem le32_length (n : Nat) : (le32 n).length = 4 := rfl
@[simp] theorem be32_length (n : Nat) : (be32 n).length = 4 := rfl

/-! ### stable size functions, good frames -/

/-- once determined, the size is not changed by more bytes -/
def Stable (sizeOf : Bytes → Option Nat) : Prop :=
  ∀ q x n, sizeOf q = some n → sizeOf (q ++ x) = some n

/-- `f` is exactly one acceptable message -/
structure Good (sizeOf : Bytes → Option Nat) (ok : Bytes → Bool) (f : Bytes) : Prop where
  size : sizeOf f = some f.length
  pos : 0 < f.length
  ok : ok f = true

/-- the buffer holds no whole message (what every receiver's buffer looks like between reads) -/
def Settled (sizeOf : Bytes → Option Nat) (ok : Bytes → Bool) (buf : Bytes) : Prop :=
  parseOne sizeOf ok buf = .incomplete

variable {sizeOf : Bytes → Option Nat} {ok : Bytes → Bool}

theorem parse_good_append (hs : Stable sizeOf) {f : Bytes} (hf : Good sizeOf ok f) (rest : Bytes) :
    parseOne sizeOf ok (f ++ rest) = .frame f rest := by
  unfold parseOne
  rw [hs f rest _ hf.size]
  have hpos := hf.pos
  have h1 : ¬ (f ++ rest).length < f.length := by rw [List.length_append]; omega
  have ht : List.take f.length (f ++ rest) = f := List.take_left' rfl
  have hd : List.drop f.length (f ++ rest) = rest := List.drop_left' rfl
  have h2 : ¬ (f.length = 0 ∨ ok f = false) := by
    intro h
    rcases h with h | h
    · omega
    · rw [hf.ok] at h; cases h
  simp only [h1, ht, hd, h2, if_false]

theorem parse_prefix_incomplete (hs : Stable sizeOf) {f : Bytes} (hf : Good sizeOf ok f) (q x : Bytes)
    (hq : q ++ x = f) (hlt : q.length < f.length) : Settled sizeOf ok q := by
  unfold Settled parseOne
  split
  · rfl
  · rename_i n hn
    have := hs q x n hn
    rw [hq, hf.size] at this
    cases this
    simp [hlt]

theorem parse_append_frame (hs : Stable sizeOf) {buf f rest : Bytes}
    (h : parseOne sizeOf ok buf = .frame f rest) (x : Bytes) :
    parseOne sizeOf ok (buf ++ x) = .frame f (rest ++ x) := by
  obtain ⟨n, h0, hle, hsz, hok, hf, hr⟩ := parseOne_frame_shape h
  subst hf hr
  unfold parseOne
  rw [hs buf x n hsz]
  have h1 : ¬ (buf ++ x).length < n := by rw [List.length_append]; omega
  have ht : List.take n (buf ++ x) = List.take n buf := List.take_append_of_le_length hle
  have h2 : ¬ (n = 0 ∨ ok (List.take n buf) = false) := by
    intro h
    rcases h with h | h
    · omega
    · rw [hok] at h; cases h
  simp only [h1, ht, h2, if_false, List.drop_append_of_le_length hle]

theorem parse_append_malformed (hs : Stable sizeOf) {buf : Bytes}
    (h : parseOne sizeOf ok buf = .malformed) (x : Bytes) :
    parseOne sizeOf ok (buf ++ x) = .malformed := by
  unfold parseOne at h
  split at h
  · cases h
  · rename_i n hn
    split at h
    · cases h
    · rename_i hle
      split at h
      · rename_i hbad
        unfold parseOne
        rw [hs buf x n hn]
        have hle' : n ≤ buf.length := Nat.le_of_not_lt hle
        have h1 : ¬ (buf ++ x).length < n := by rw [List.length_append]; omega
        have ht : List.take n (buf ++ x) = List.take n buf := List.take_append_of_le_length hle'
        simp only [h1, if_false, ht, hbad, if_true]
      · cases h

/-! ### the push loop -/

theorem drain_incomplete {buf : Bytes} (h : parseOne sizeOf ok buf = .incomplete) :
    drain sizeOf ok buf = ⟨[], buf, false⟩ := by
  rw [drain]; split <;> simp_all

theorem drain_malformed {buf : Bytes} (h : parseOne sizeOf ok buf = .malformed) :
    drain sizeOf ok buf = ⟨[], buf, true⟩ := by
  rw [drain]; split <;> simp_all

theorem drain_frame {buf f rest : Bytes} (h : parseOne sizeOf ok buf = .frame f rest) :
    drain sizeOf ok buf =
      ⟨f :: (drain sizeOf ok rest).frames, (drain sizeOf ok rest).rest, (drain sizeOf ok rest).err⟩ := by
  rw [drain]; split <;> simp_all

/-- what the loop leaves behind is settled (no error) or still malformed (error) -/
theorem drain_rest (buf : Bytes) :
    ((drain sizeOf ok buf).err = false → Settled sizeOf ok (drain sizeOf ok buf).rest) ∧
    ((drain sizeOf ok buf).err = true → parseOne sizeOf ok (drain sizeOf ok buf).rest = .malformed) := by
  induction hn : buf.length using Nat.strongRecOn generalizing buf with
  | _ n ih =>
    cases hp : parseOne sizeOf ok buf with
    | incomplete => rw [drain_incomplete hp]; simp [Settled, hp]
    | malformed => rw [drain_malformed hp]; simp [hp]
    | frame f rest =>
      rw [drain_frame hp]
      have hlt := parseOne_frame_length hp
      exact ih rest.length (by omega) rest rfl

/-- feeding more bytes after a drain = draining everything at once -/
theorem drain_append (hs : Stable sizeOf) (buf x : Bytes) :
    drain sizeOf ok (buf ++ x) =
      (let r := drain sizeOf ok buf
       if r.err then ⟨r.frames, r.rest ++ x, true⟩
       else
         let r' := drain sizeOf ok (r.rest ++ x)
         ⟨r.frames ++ r'.frames, r'.rest, r'.err⟩) := by
  induction hn : buf.length using Nat.strongRecOn generalizing buf with
  | _ n ih =>
    cases hp : parseOne sizeOf ok buf with
    | incomplete => rw [drain_incomplete hp]; simp
    | malformed =>
      rw [drain_malformed hp, drain_malformed (parse_append_malformed hs hp x)]; simp
    | frame f rest =>
      rw [drain_frame hp, drain_frame (parse_append_frame hs hp x)]
      have hlt := parseOne_frame_length hp
      rw [ih rest.length (by omega) rest rfl]
      cases he : (drain sizeOf ok rest).err <;> simp [he]

theorem feed_malformed {l : Bytes} (h : parseOne sizeOf ok l = .malformed) (hs : Stable sizeOf)
    (cs : List Bytes) :
    (feed sizeOf ok l cs).frames = [] ∧ (feed sizeOf ok l cs).rest = l ++ cs.flatten := by
  induction cs generalizing l with
  | nil => simp [feed]
  | cons c cs ih =>
    have hm := parse_append_malformed hs h c
    simp only [feed, drain_malformed hm]
    obtain ⟨h1, h2⟩ := ih hm
    simp [h1, h2]

/-- the reads of a connection, however cut, amount to one drain of the whole stream -/
theorem feed_eq_drain (hs : Stable sizeOf) (cs : List Bytes) (buf : Bytes) (hb : Settled sizeOf ok buf) :
    feed sizeOf ok buf cs = drain sizeOf ok (buf ++ cs.flatten) := by
  induction cs generalizing buf with
  | nil => simp [feed, drain_incomplete hb]
  | cons c cs ih =>
    have hd := drain_append (ok := ok) hs (buf ++ c) cs.flatten
    simp only [List.flatten_cons, ← List.append_assoc]
    rw [hd]
    simp only [feed]
    have hr := drain_rest (sizeOf := sizeOf) (ok := ok) (buf ++ c)
    cases he : (drain sizeOf ok (buf ++ c)).err with
    | false =>
      rw [ih _ (hr.1 he)]
      simp
    | true =>
      obtain ⟨h1, h2⟩ := feed_malformed (hr.2 he) hs cs
      simp only [Bool.true_or, if_true]
      rw [show feed sizeOf ok (drain sizeOf ok (buf ++ c)).rest cs
            = ⟨(feed sizeOf ok (drain sizeOf ok (buf ++ c)).rest cs).frames,
               (feed sizeOf ok (drain sizeOf ok (buf ++ c)).rest cs).rest,
               (feed sizeOf ok (drain sizeOf ok (buf ++ c)).rest cs).err⟩ from rfl]
      simp [h1, h2]

/-- a stream of good frames followed by a settled tail drains to exactly those frames -/
theorem drain_goods (hs : Stable sizeOf) (fs : List Bytes) (hfs : ∀ f ∈ fs, Good sizeOf ok f)
    (tail : Bytes) (ht : Settled sizeOf ok tail) :
    drain sizeOf ok (fs.flatten ++ tail) = ⟨fs, tail, false⟩ := by
  induction fs with
  | nil => simpa using drain_incomplete ht
  | cons f fs ih =>
    have hp := parse_good_append (ok := ok) hs (hfs f (by simp)) (fs.flatten ++ tail)
    simp only [List.flatten_cons, List.append_assoc]
    rw [drain_frame hp, ih (fun g hg => hfs g (by simp [hg]))]

/-- generic framing theorem: every cutting of `frames ++ (a strict prefix of a further frame)` -/
theorem feed_goods (hs : Stable sizeOf) (fs : List Bytes) (hfs : ∀ f ∈ fs, Good sizeOf ok f)
    (tail : Bytes) (ht : Settled sizeOf ok tail) (hnil : Settled sizeOf ok [])
    (cs : List Bytes) (hcs : cs.flatten = fs.flatten ++ tail) :
    feed sizeOf ok [] cs = ⟨fs, tail, false⟩ := by
  rw [feed_eq_drain hs cs [] hnil, List.nil_append, hcs, drain_goods hs fs hfs tail ht]

/-! ### the pull loop -/

theorem granted_pos (maxsize avail : Nat) (c : Option Nat) : 1 ≤ granted maxsize avail c := by
  unfold granted; split <;> exact Nat.le_max_left _ _

theorem pullOne_of_frame {maxsize : Nat} {buf f rest : Bytes} (h : parseOne sizeOf ok buf = .frame f rest)
    (wire : Bytes) (ch : List Nat) : pullOne sizeOf ok maxsize buf wire ch = .frame f rest wire ch := by
  rw [pullOne, h]

theorem pullOne_blocked {maxsize : Nat} {buf : Bytes} (h : parseOne sizeOf ok buf = .incomplete)
    (ch : List Nat) : pullOne sizeOf ok maxsize buf [] ch = .blocked buf ch := by
  rw [pullOne, h]; simp

theorem pullOne_step {maxsize : Nat} {buf wire : Bytes} (h : parseOne sizeOf ok buf = .incomplete)
    (hw : wire ≠ []) (hm : maxsize ≠ 0) (ch : List Nat) :
    pullOne sizeOf ok maxsize buf wire ch =
      pullOne sizeOf ok maxsize (buf ++ wire.take (granted maxsize wire.length ch.head?))
        (wire.drop (granted maxsize wire.length ch.head?)) ch.tail := by
  rw [pullOne, h]; simp [hw, hm]

/-- if the unread stream (buffer + wire) starts with a good frame, one pull returns exactly it and
leaves exactly the rest, whatever prefixes the reads return -/
theorem pullOne_spec (hs : Stable sizeOf) {maxsize : Nat} (hm : maxsize ≠ 0) {f : Bytes}
    (hf : Good sizeOf ok f) (rest buf wire : Bytes) (ch : List Nat) (h : buf ++ wire = f ++ rest) :
    ∃ b w c, pullOne sizeOf ok maxsize buf wire ch = .frame f b w c ∧ b ++ w = rest := by
  induction hn : wire.length using Nat.strongRecOn generalizing buf wire ch with
  | _ n ih =>
    by_cases hlen : f.length ≤ buf.length
    · -- the buffer already holds the frame
      have hbf : buf = f ++ buf.drop f.length := by
        have h1 : (buf ++ wire).take f.length = f := by rw [h]; simp
        rw [List.take_append_of_le_length hlen] at h1
        conv => lhs; rw [← List.take_append_drop f.length buf, h1]
      have hp : parseOne sizeOf ok buf = .frame f (buf.drop f.length) := by
        conv => lhs; rw [hbf]
        exact parse_good_append hs hf _
      refine ⟨buf.drop f.length, wire, ch, pullOne_of_frame hp wire ch, ?_⟩
      have h2 : (buf ++ wire).drop f.length = rest := by rw [h]; simp
      rw [List.drop_append_of_le_length hlen] at h2
      exact h2
    · -- a strict prefix of the frame: read more
      have hlt : buf.length < f.length := Nat.lt_of_not_le hlen
      have hpre : buf ++ (f.drop buf.length) = f := by
        have h1 : (buf ++ wire).take buf.length = (f ++ rest).take buf.length := by rw [h]
        rw [List.take_left' rfl, List.take_append_of_le_length (Nat.le_of_lt hlt)] at h1
        have h2 := List.take_append_drop buf.length f
        rw [← h1] at h2
        exact h2
      have hinc := parse_prefix_incomplete hs hf buf _ hpre hlt
      have hw : wire ≠ [] := by
        intro hw
        subst hw
        have : (buf ++ []).length = (f ++ rest).length := by rw [h]
        simp at this; omega
      rw [pullOne_step hinc hw hm]
      have hpos := granted_pos maxsize wire.length ch.head?
      have hwl : 0 < wire.length := List.length_pos_iff.mpr hw
      apply ih (wire.drop (granted maxsize wire.length ch.head?)).length
        (by simp only [List.length_drop]; omega) _ _ _ _ rfl
      rw [List.append_assoc, List.take_append_drop, h]

theorem pullUntil_of_frame {maxsize : Nat} {stop : Bytes → Bool} {buf wire : Bytes} {ch : List Nat}
    {f b w : Bytes} {c : List Nat} (h : pullOne sizeOf ok maxsize buf wire ch = .frame f b w c) :
    pullUntil sizeOf ok maxsize stop buf wire ch =
      if stop f then .ok [f] b w c else (pullUntil sizeOf ok maxsize stop b w c).cons f := by
  rw [pullUntil]; split <;> simp_all

/-- one call that stops at the first frame satisfying `stop` processes exactly the frames up to
it and leaves exactly the rest of the stream -/
theorem pullUntil_spec (hs : Stable sizeOf) {maxsize : Nat} (hm : maxsize ≠ 0) (stop : Bytes → Bool)
    (pre : List Bytes) (hpre : ∀ f ∈ pre, Good sizeOf ok f ∧ stop f = false)
    {d : Bytes} (hd : Good sizeOf ok d) (hstop : stop d = true)
    (rest buf wire : Bytes) (ch : List Nat) (h : buf ++ wire = (pre ++ [d]).flatten ++ rest) :
    ∃ b w c, pullUntil sizeOf ok maxsize stop buf wire ch = .ok (pre ++ [d]) b w c ∧ b ++ w = rest := by
  induction pre generalizing buf wire ch with
  | nil =>
    simp only [List.nil_append, List.flatten_cons, List.flatten_nil, List.append_nil] at h
    obtain ⟨b, w, c, hp, hbw⟩ := pullOne_spec hs hm hd rest buf wire ch h
    exact ⟨b, w, c, by rw [pullUntil_of_frame hp, hstop]; simp, hbw⟩
  | cons f pre ih =>
    obtain ⟨hgf, hnf⟩ := hpre f (by simp)
    simp only [List.cons_append, List.flatten_cons, List.append_assoc] at h
    obtain ⟨b, w, c, hp, hbw⟩ := pullOne_spec hs hm hgf _ buf wire ch h
    obtain ⟨b', w', c', hp', hbw'⟩ := ih (fun g hg => hpre g (by simp [hg])) b w c
      (by rw [hbw])
    refine ⟨b', w', c', ?_, hbw'⟩
    rw [pullUntil_of_frame hp, hnf, hp']
    simp [PullRes.cons]

/-! ### instance 1: host messages -/

theorem srvSize_stable : Stable srvSize := by
  intro q x n h
  unfold srvSize at h ⊢
  split at h
  · cases h
  · rename_i hq
    have hq' : hdrLen ≤ q.length := Nat.le_of_not_lt hq
    have h8 : hdrLen = 8 := rfl
    have : ¬ (q ++ x).length < hdrLen := by simp; omega
    simp only [this, if_false]
    rw [List.drop_append_of_le_length (by omega), List.take_append_of_le_length (by simp; omega)]
    exact h

theorem encode_length (m : Msg) : (encode m).length = hdrLen + m.payload.length := by
  simp [encode, hdrLen]; omega

theorem srvSize_encode (m : Msg) (hl : hdrLen + m.payload.length < 4294967296) :
    srvSize (encode m) = some (encode m).length := by
  have hlen := encode_length m
  unfold srvSize
  have : ¬ (encode m).length < hdrLen := by omega
  simp only [this, if_false]
  have : (List.drop 4 (encode m)).take 4 = le32 (hdrLen + m.payload.length) := by
    simp only [encode, List.append_assoc]
    rw [List.drop_left' (le32_length _), List.take_left' (le32_length _)]
  rw [this, rdLE_le32 _ hl, hlen]

theorem msgOf_encode (m : Msg) (hid : m.id < 4294967296) : msgOf (encode m) = m := by
  have h1 : (encode m).take 4 = le32 m.id := by
    simp only [encode, List.append_assoc]
    exact List.take_left' (le32_length _)
  have h2 : (encode m).drop hdrLen = m.payload := by
    simp only [encode]
    exact List.drop_left' (by simp [hdrLen])
  cases m
  simp only [msgOf, h1, h2, rdLE_le32 _ hid]

theorem good_encode {m : Msg} (h : m.WF ok) : Good srvSize ok (encode m) :=
  ⟨srvSize_encode m h.len_lt, by rw [encode_length]; simp only [hdrLen]; omega, h.accepted⟩

theorem srv_settled_nil : Settled srvSize ok [] := by
  simp [Settled, parseOne, srvSize, hdrLen]

/-! ### the node: several connections -/

theorem handle_bufs (async : Bytes → Bool) (c : Nat) (s : Node) (f : Bytes) :
    (Node.handle async c s f).bufs = s.bufs := by
  unfold Node.handle; split <;> rfl

theorem handle_handled (async : Bytes → Bool) (c : Nat) (s : Node) (f : Bytes) :
    (Node.handle async c s f).handled = s.handled ++ [(c, f)] := by
  unfold Node.handle; split <;> rfl

theorem foldl_handle_bufs (async : Bytes → Bool) (c : Nat) (fs : List Bytes) (s : Node) :
    (fs.foldl (Node.handle async c) s).bufs = s.bufs := by
  induction fs generalizing s with
  | nil => rfl
  | cons f fs ih => rw [List.foldl_cons, ih, handle_bufs]

theorem foldl_handle_handled (async : Bytes → Bool) (c : Nat) (fs : List Bytes) (s : Node) :
    (fs.foldl (Node.handle async c) s).handled = s.handled ++ fs.map (fun f => (c, f)) := by
  induction fs generalizing s with
  | nil => simp
  | cons f fs ih => rw [List.foldl_cons, ih, handle_handled]; simp

/-- what happens on connection `c` depends on the reads of connection `c` only -/
theorem run_projection (async : Bytes → Bool) (evs : List Ev) (s : Node) (c : Nat) (b : Bytes)
    (hb : s.bufs[c]? = some b) :
    (run ok async s evs).handledOn c = s.handledOn c ++ (feed srvSize ok b (dataFor c evs)).frames ∧
    (run ok async s evs).bufs[c]? = some (feed srvSize ok b (dataFor c evs)).rest := by
  induction evs generalizing s b with
  | nil => simp [run, dataFor, feed, hb]
  | cons e evs ih =>
    have hc : c < s.bufs.length := by
      rcases Nat.lt_or_ge c s.bufs.length with h | h
      · exact h
      · rw [List.getElem?_eq_none h] at hb; cases hb
    simp only [run, List.foldl_cons]
    cases e with
    | connect =>
      have hb' : (step ok async s .connect).bufs[c]? = some b := by
        simp only [step]; rw [List.getElem?_append_left hc]; exact hb
      have := ih (step ok async s .connect) b hb'
      simpa [run, dataFor, step, Node.handledOn] using this
    | complete k =>
      have hst : (step ok async s (.complete k)).bufs = s.bufs ∧
          (step ok async s (.complete k)).handled = s.handled := by
        simp only [step]; split
        · exact ⟨rfl, rfl⟩
        · exact ⟨rfl, rfl⟩
      have hb' : (step ok async s (.complete k)).bufs[c]? = some b := by rw [hst.1]; exact hb
      have := ih (step ok async s (.complete k)) b hb'
      simpa [run, dataFor, Node.handledOn, hst.2] using this
    | data c' chunk =>
      by_cases hcc : c' = c
      · subst hcc
        have hbufs : (step ok async s (.data c' chunk)).bufs = s.bufs.set c' (drain srvSize ok (b ++ chunk)).rest := by
          simp only [step, hb]; rw [foldl_handle_bufs]
        have hhand : (step ok async s (.data c' chunk)).handled =
            s.handled ++ (drain srvSize ok (b ++ chunk)).frames.map (fun f => (c', f)) := by
          simp only [step, hb]; rw [foldl_handle_handled]
        have hb' : (step ok async s (.data c' chunk)).bufs[c']? = some (drain srvSize ok (b ++ chunk)).rest := by
          rw [hbufs]; simp [hc]
        obtain ⟨h1, h2⟩ := ih (step ok async s (.data c' chunk)) _ hb'
        simp only [run] at h1 h2
        refine ⟨?_, ?_⟩
        · rw [h1]
          simp only [Node.handledOn, hhand, dataFor, if_true, feed, List.filter_append, List.map_append,
            List.append_assoc]
          congr 1
          congr 1
          simp [List.filter_map, Function.comp_def]
        · rw [h2]; simp [dataFor, feed]
      · have hst : (step ok async s (.data c' chunk)).bufs[c]? = some b ∧
            (step ok async s (.data c' chunk)).handledOn c = s.handledOn c := by
          simp only [step]
          split
          · exact ⟨hb, rfl⟩
          · rename_i b' hb2
            refine ⟨?_, ?_⟩
            · rw [foldl_handle_bufs]; simp only
              rw [List.getElem?_set_ne hcc]; exact hb
            · simp only [Node.handledOn]
              rw [foldl_handle_handled]
              simp only [List.filter_append, List.map_append]
              have : List.filter (fun x => x.1 == c)
                  (List.map (fun f => (c', f)) (drain srvSize ok (b' ++ chunk)).frames) = [] := by
                simp [List.filter_eq_nil_iff, hcc]
              rw [this]; simp
        obtain ⟨h1, h2⟩ := ih (step ok async s (.data c' chunk)) b hst.1
        simp only [run] at h1 h2
        refine ⟨?_, ?_⟩
        · rw [h1, hst.2]; simp [dataFor, hcc]
        · rw [h2]; simp [dataFor, hcc]

/-- every Done is written to the connection its message arrived on -/
def Routed (s : Node) : Prop := ∀ w ∈ s.written, w.1 = w.2.1

theorem handle_routed (async : Bytes → Bool) (c : Nat) (s : Node) (f : Bytes) (h : Routed s) :
    Routed (Node.handle async c s f) := by
  unfold Node.handle
  split
  · exact h
  · intro w hw
    simp only [List.mem_append, List.mem_singleton] at hw
    rcases hw with hw | hw
    · exact h w hw
    · subst hw; rfl

theorem foldl_handle_routed (async : Bytes → Bool) (c : Nat) (fs : List Bytes) (s : Node) (h : Routed s) :
    Routed (fs.foldl (Node.handle async c) s) := by
  induction fs generalizing s with
  | nil => exact h
  | cons f fs ih => exact ih _ (handle_routed async c s f h)

theorem step_routed (async : Bytes → Bool) (s : Node) (e : Ev) (h : Routed s) : Routed (step ok async s e) := by
  cases e with
  | connect => exact h
  | data c chunk =>
    simp only [step]
    split
    · exact h
    · exact foldl_handle_routed async c _ _ h
  | complete k =>
    simp only [step]
    split
    · exact h
    · intro w hw
      simp only [List.mem_append, List.mem_singleton] at hw
      rcases hw with hw | hw
      · exact h w hw
      · subst hw; rfl

theorem run_routed (async : Bytes → Bool) (evs : List Ev) (s : Node) (h : Routed s) :
    Routed (run ok async s evs) := by
  induction evs generalizing s with
  | nil => exact h
  | cons e evs ih => exact ih _ (step_routed async s e h)

/-- bookkeeping: Dones written + handlers still suspended = messages handled, per (connection, id) -/
def Balanced (s : Node) : Prop :=
  ∀ c i, s.written.countP (fun w => w.1 == c && w.2.2 == i) +
         s.pending.countP (fun p => p.1 == c && (msgOf p.2).id == i) =
         s.handled.countP (fun p => p.1 == c && (msgOf p.2).id == i)

theorem handle_balanced (async : Bytes → Bool) (c : Nat) (s : Node) (f : Bytes) (h : Balanced s) :
    Balanced (Node.handle async c s f) := by
  intro c' i
  have := h c' i
  unfold Node.handle
  split <;> simp only [List.countP_append, List.countP_cons, List.countP_nil] <;> omega

theorem foldl_handle_balanced (async : Bytes → Bool) (c : Nat) (fs : List Bytes) (s : Node)
    (h : Balanced s) : Balanced (fs.foldl (Node.handle async c) s) := by
  induction fs generalizing s with
  | nil => exact h
  | cons f fs ih => exact ih _ (handle_balanced async c s f h)

theorem countP_eraseIdx {α : Type} (p : α → Bool) (l : List α) (k : Nat) (x : α) (h : l[k]? = some x) :
    (l.eraseIdx k).countP p + (if p x then 1 else 0) = l.countP p := by
  induction l generalizing k with
  | nil => simp at h
  | cons a l ih =>
    cases k with
    | zero =>
      simp only [List.getElem?_cons_zero, Option.some.injEq] at h
      subst h
      simp only [List.eraseIdx_cons_zero, List.countP_cons]
    | succ k =>
      simp only [List.getElem?_cons_succ] at h
      have := ih k h
      simp only [List.eraseIdx_cons_succ, List.countP_cons]
      omega

theorem step_balanced (async : Bytes → Bool) (s : Node) (e : Ev) (h : Balanced s) :
    Balanced (step ok async s e) := by
  cases e with
  | connect => exact h
  | data c chunk =>
    simp only [step]
    split
    · exact h
    · exact foldl_handle_balanced async c _ _ h
  | complete k =>
    simp only [step]
    split
    · exact h
    · rename_i c f hk
      intro c' i
      have h1 := h c' i
      have h2 := countP_eraseIdx (fun p => p.1 == c' && (msgOf p.2).id == i) s.pending k (c, f) hk
      simp only [List.countP_append, List.countP_cons, List.countP_nil] at h2 ⊢
      omega

theorem run_balanced (async : Bytes → Bool) (evs : List Ev) (s : Node) (h : Balanced s) :
    Balanced (run ok async s evs) := by
  induction evs generalizing s with
  | nil => exact h
  | cons e evs ih => exact ih _ (step_balanced async s e h)

/-- connections are numbered in the order of connecting; nothing is handled for one that does not exist yet -/
def InRange (s : Node) : Prop := ∀ p ∈ s.handled, p.1 < s.bufs.length

theorem step_inRange (async : Bytes → Bool) (s : Node) (e : Ev) (h : InRange s) : InRange (step ok async s e) := by
  cases e with
  | connect =>
    intro p hp
    have := h p hp
    simp only [step, List.length_append, List.length_singleton]
    omega
  | data c chunk =>
    simp only [step]
    split
    · exact h
    · rename_i b hb
      have hc : c < s.bufs.length := by
        rcases Nat.lt_or_ge c s.bufs.length with h' | h'
        · exact h'
        · rw [List.getElem?_eq_none h'] at hb; cases hb
      intro p hp
      rw [foldl_handle_handled] at hp
      rw [foldl_handle_bufs]
      simp only [List.length_set]
      simp only [List.mem_append, List.mem_map] at hp
      rcases hp with hp | ⟨f, _, rfl⟩
      · exact h p hp
      · exact hc
  | complete k =>
    simp only [step]
    split
    · exact h
    · exact h

theorem run_inRange (async : Bytes → Bool) (evs : List Ev) (s : Node) (h : InRange s) :
    InRange (run ok async s evs) := by
  induction evs generalizing s with
  | nil => exact h
  | cons e evs ih => exact ih _ (step_inRange async s e h)

theorem run_append (async : Bytes → Bool) (s : Node) (e1 e2 : List Ev) :
    run ok async s (e1 ++ e2) = run ok async (run ok async s e1) e2 := by
  simp [run, List.foldl_append]

/-- a connection that has just been opened: empty buffer, nothing handled -/
theorem fresh_connection (async : Bytes → Bool) (s : Node) (h : InRange s) :
    (step ok async s .connect).bufs[s.bufs.length]? = some [] ∧
    (step ok async s .connect).handledOn s.bufs.length = [] := by
  refine ⟨by simp [step], ?_⟩
  simp only [step, Node.handledOn, List.map_eq_nil_iff, List.filter_eq_nil_iff]
  intro p hp
  have := h p hp
  simp only [beq_iff_eq]
  omega

def PullRes.okFrames : PullRes → Option (List Bytes)
  | .ok fs _ _ _ => some fs
  | _ => none

/-- when no handler ever suspends: nothing pending, and the Dones are the handled messages in order -/
def SyncInv (s : Node) : Prop :=
  s.pending = [] ∧ s.written = s.handled.map (fun p => (p.1, p.1, (msgOf p.2).id))

theorem handle_sync (c : Nat) (s : Node) (f : Bytes) (h : SyncInv s) :
    SyncInv (Node.handle (fun _ => false) c s f) := by
  obtain ⟨h1, h2⟩ := h
  simp only [Node.handle, Bool.false_eq_true, if_false]
  exact ⟨h1, by simp [h2]⟩

theorem foldl_handle_sync (c : Nat) (fs : List Bytes) (s : Node) (h : SyncInv s) :
    SyncInv (fs.foldl (Node.handle (fun _ => false) c) s) := by
  induction fs generalizing s with
  | nil => exact h
  | cons f fs ih => exact ih _ (handle_sync c s f h)

theorem step_sync (s : Node) (e : Ev) (h : SyncInv s) : SyncInv (step ok (fun _ => false) s e) := by
  cases e with
  | connect => exact h
  | data c chunk =>
    simp only [step]
    split
    · exact h
    · exact foldl_handle_sync c _ _ h
  | complete k =>
    simp only [step, h.1, List.getElem?_nil]
    exact h

theorem run_sync (evs : List Ev) (s : Node) (h : SyncInv s) : SyncInv (run ok (fun _ => false) s evs) := by
  induction evs generalizing s with
  | nil => exact h
  | cons e evs ih => exact ih _ (step_sync s e h)

/-! ### instance 2: return messages -/

theorem retSize_stable {z : RetSizes} (hz : z.WF) : Stable (retSize z) := by
  intro q x n h
  cases q with
  | nil => simp [retSize] at h
  | cons t q =>
    match t, h with
    | 0, h => simpa [retSize] using h
    | 1, h => simpa [retSize] using h
    | 3, h => simpa [retSize] using h
    | (t + 4), h => simp [retSize] at h
    | 2, h =>
      simp only [retSize, List.cons_append] at h ⊢
      split at h
      · cases h
      · rename_i hl
        have hl' : z.arrHdr ≤ (2 :: q).length := Nat.le_of_not_lt hl
        have hlo := hz.len_in_hdr
        have : ¬ (2 :: (q ++ x)).length < z.arrHdr := by
          simp only [List.length_cons, List.length_append] at hl' ⊢; omega
        simp only [this, if_false]
        rw [← List.cons_append, List.drop_append_of_le_length (by omega),
          List.take_append_of_le_length (by simp only [List.length_drop]; omega)]
        exact h

theorem retSize_pos {z : RetSizes} {f : Bytes} (h : retSize z f = some f.length) :
    0 < f.length := by
  cases f with
  | nil => simp [retSize] at h
  | cons t q => simp

/-! ### instance 3: application sockets -/

theorem sockSize_stable : Stable sockSize := by
  intro q x n h
  unfold sockSize at h ⊢
  split at h
  · cases h
  · rename_i hq
    have hq' : 4 ≤ q.length := Nat.le_of_not_lt hq
    have : ¬ (q ++ x).length < 4 := by simp; omega
    simp only [this, if_false]
    rw [List.take_append_of_le_length hq']
    exact h

theorem good_sockFrame (m : Bytes) (hl : m.length < 4294967296) :
    Good sockSize (fun _ => true) (sockFrame m) := by
  refine ⟨?_, by rw [sockFrame, List.length_append, be32_length]; omega, rfl⟩
  unfold sockSize
  have : ¬ (sockFrame m).length < 4 := by simp [sockFrame]
  simp only [this, if_false]
  have : (sockFrame m).take 4 = be32 m.length := List.take_left' (be32_length _)
  rw [this, rdBE_be32 _ hl]
  simp [sockFrame]

theorem sockFrame_drop (m : Bytes) : (sockFrame m).drop 4 = m := List.drop_left' (be32_length _)

/-- receiver's buffer + wire = the frames of the messages sent and not yet received -/
def SockInv (s : SockSt) (q : List Bytes) : Prop := s.buf ++ s.wire = (q.map sockFrame).flatten

/-- admissible operations: message lengths fit the 4-byte prefix, reads ask for at least one byte -/
def SockOp.Adm : SockOp → Prop
  | .send m => m.length < 4294967296
  | .recv maxsize => maxsize ≠ 0

theorem sockRun_refines (ops : List SockOp) (hops : ∀ op ∈ ops, op.Adm) (s : SockSt) (q : List Bytes)
    (hq : ∀ m ∈ q, m.length < 4294967296) (hinv : SockInv s q) :
    sockRun s ops = queueRun q ops := by
  induction ops generalizing s q with
  | nil => rfl
  | cons op ops ih =>
    have hrest : ∀ o ∈ ops, o.Adm := fun o ho => hops o (by simp [ho])
    cases op with
    | send m =>
      have hm : m.length < 4294967296 := hops (.send m) (by simp)
      simp only [sockRun, sockStep, queueRun]
      apply ih hrest
      · intro m' hm'
        simp only [List.mem_append, List.mem_singleton] at hm'
        rcases hm' with h | h
        · exact hq m' h
        · subst h; exact hm
      · simp only [SockInv] at hinv ⊢
        rw [← List.append_assoc, hinv]; simp
    | recv maxsize =>
      have hm : maxsize ≠ 0 := hops (.recv maxsize) (by simp)
      cases q with
      | nil =>
        simp only [SockInv, List.map_nil, List.flatten_nil, List.append_eq_nil_iff] at hinv
        have hp : parseOne sockSize (fun _ => true) s.buf = .incomplete := by
          rw [hinv.1]; simp [parseOne, sockSize]
        have hb : pullOne sockSize (fun _ => true) maxsize s.buf s.wire s.choices = .blocked s.buf s.choices := by
          rw [hinv.2]; exact pullOne_blocked hp _
        simp only [sockRun, sockStep, hb, queueRun]
        congr 1
        apply ih hrest _ _ (by simp)
        simp [SockInv, hinv.1]
      | cons m q' =>
        have hgm := good_sockFrame m (hq m (by simp))
        simp only [SockInv, List.map_cons, List.flatten_cons] at hinv
        obtain ⟨b, w, c, hp, hbw⟩ := pullOne_spec sockSize_stable hm hgm _ s.buf s.wire s.choices hinv
        simp only [sockRun, sockStep, hp, queueRun, sockFrame_drop]
        congr 1
        apply ih hrest _ _ (fun m' hm' => hq m' (by simp [hm']))
        exact hbw

end SqVerif.Framing

import SqVerif.Settings
import SqVerif.Gen.Defaults
import SqVerif.Drive.Util
/- driver for the settings model (default table = `Gen.Defaults.defaults`).
   in : `init <file> | <file>`      store file, user file; <file> = `absent` | `present k v k v ...`
        `set k v` | `setbad k` | `reset` | `reload` | `restart`      (the writing process)
        `read <file> | <file>`      a fresh process on the given files (stateless)
   out: init / op → `<outcome> W <dict> ; S <file> ; R <outcome> <dict>`
          (W = memory of the writer, S = store, R = a fresh process started now)
        read     → `R <outcome> <dict> ; S <file>`
        <dict> = `k=v k=v` sorted by key, `-` when empty; <file> = `absent` | <dict>;
        <outcome> = `ok` | `KeyError` | `TypeError`; anything else → `bad-op` -/
namespace SqVerif.Drive.Settings
open SqVerif.Settings SqVerif.Drive

def D : Store := SqVerif.Gen.Defaults.defaults

def showDict (s : Store) : String :=
  match sortBy (fun a b => a.1 < b.1) s with
  | [] => "-"
  | l => " ".intercalate (l.map fun p => p.1 ++ "=" ++ p.2)

def showFile : Option Store → String
  | none => "absent"
  | some s => showDict (norm s)     -- as a JSON parser reads the file (a repeated key keeps its last value)

def showOutcome : Outcome → String
  | .ok => "ok"
  | .keyError => "KeyError"
  | .typeError => "TypeError"

def parsePairs : List String → Option Store
  | [] => some []
  | k :: v :: t => (parsePairs t).map ((k, v) :: ·)
  | [_] => none

/-- `absent` ↦ `some none`, `present k v ..` ↦ `some (some ..)` (the items as listed: a repeated key is kept) -/
def parseFile : List String → Option (Option Store)
  | ["absent"] => some none
  | "present" :: t => (parsePairs t).map some
  | _ => none

def splitBar (ws : List String) : List (List String) :=
  ws.foldr (fun w acc => if w == "|" then [] :: acc else
    match acc with | [] => [[w]] | h :: t => (w :: h) :: t) [[]]

structure St where
  user : Option Store
  w : World

def observe (u : Option Store) (r : World × Outcome) : String :=
  let rd := boot D u r.1.store
  showOutcome r.2 ++ " W " ++ showDict r.1.mem ++ " ; S " ++ showFile r.1.store
    ++ " ; R " ++ showOutcome rd.2 ++ " " ++ showDict rd.1.mem

def parseOp : List String → Option Op
  | ["set", k, v] => some (.set k v)
  | ["setbad", k] => some (.setBad k)
  | ["reset"] => some .reset
  | ["reload"] => some .reload
  | ["restart"] => some .restart
  | _ => none

def handle (st : Option St) (line : String) : Option St × String :=
  match splitBar (words line) with
  | ["init" :: sf, uf] =>
    match parseFile sf, parseFile uf with
    | some s0, some u =>
      let r := boot D u s0
      (some { user := u, w := r.1 }, observe u r)
    | _, _ => (st, "bad-op")
  | ["read" :: sf, uf] =>
    match parseFile sf, parseFile uf with
    | some s0, some u =>
      let r := boot D u s0
      (st, "R " ++ showOutcome r.2 ++ " " ++ showDict r.1.mem ++ " ; S " ++ showFile r.1.store)
    | _, _ => (st, "bad-op")
  | [ws] =>
    match st, parseOp ws with
    | some s, some op =>
      let r := step D s.user s.w op
      (some { s with w := r.1 }, observe s.user r)
    | _, _ => (st, "bad-op")
  | _ => (st, "bad-op")

end SqVerif.Drive.Settings

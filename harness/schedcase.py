"""schedcase -- schedule exploration of concurrently issued operations on the
REAL virtual-node code (properties C03 and C04; DESIGN section 4, "Tie (b)").

A *case* is a JSON value

    {"name": placement name, "nodes": [...], "max_qubits": n, "host_order": [...],
     "prefix": [op, ...]              sequential program that builds the placement
     "conc":   [[client tag, op], ..] the concurrently issued operations; the ops of
                                      one client tag form a chain (next one issued
                                      when the previous one has completed)
     "coin":   {"default": 0|1, "by": {label: [bits]}}   k-th RANDOM outcome of a
                                      measurement of logical qubit `label`
     "backoff": [floats]}             scripted draws of `_lock_nodes`' back-off

with ops over LOGICAL qubit labels (a label follows its qubit through sends):

    ["new", node, label]          ["g1", label, "H"|"X"|...]
    ["g2", control, target, "cnot"|"cphase"]
    ["meas", label, 0|1 (in place)]      ["send", label, target node]

A client tag is a node name ("Alice": the first client connection of that
node) or "Alice#2" (a second client connection of the same node).

A *schedule spec* (JSON) names a policy of `make_policy`; every decision is made
per OPERATION: every pending PB message and every pending timer is attributed to
the concurrent operation that caused it (exact: all processing is synchronous
inside one delivery / one timer firing, and nothing in the code under test
resumes one operation from inside another one).

    {"kind": "fifo"}                                   round robin over connections
    {"kind": "phases", "phases": [[op, n], ...], "tail": [op, ...], "rev": bool}
         delay injection: deliver n messages of op, then the next phase ...; a
         phase also ends when its op is blocked or finished; afterwards the ops
         run in `tail` priority.  [[q, k], [p, j]] + tail [q, p]  ==  "hold the
         (k+1)-th message of q until p has had j deliveries".
    {"kind": "timer", "base": spec, "at": [steps], "mode": "one"|"lock_nodes"}
         base, but at the given global step numbers a pending timer is fired
         instead of a message ("lock_nodes": timers are fired until a time-out
         timer of `_lock_nodes` has fired) -- timer-versus-message races
    {"kind": "pct", "seed": s, "depth": d, "len": n}   PCT priorities over the ops
    {"kind": "rand", "seed": s, "tp": p}               uniform choice, timer with prob. p
    {"kind": "replay", "actions": [...]}               exact replay of a recorded run

Monitors (wrapped from outside, they change no behaviour): twisted's
`DeferredLock.acquire/release` (who takes / releases which node lock: a release
by an operation that does not own the lock is the root-cause signature of F15),
each node's `virtQubits` list (which function mutates it without that node's
lock), `simulatedQubit.remote_measure_inplace` (which logical qubit a coin is
drawn for).

`run_schedule(case, spec)` executes prefix + concurrent phase + settle on a fresh
`SimNet` and returns a record (outcomes, completion, lock flags at idle, views,
well-formedness problems, monitor events, the recorded action list).
`serial_refs(case)` executes every permutation of the concurrent operations that
respects the clients' own orders SEQUENTIALLY on the real code (fresh network
each).  `judge_c03` / `judge_c04` are the oracles; `classify` gives the key.

Nothing here depends on the Lean model.
"""
import bisect
import collections
import hashlib
import itertools
import json
import multiprocessing
import os
import random
import time

from . import core
from . import simnet as S

NODES = ["Alice", "Bob", "Charlie"]
BUDGET = 600.0            # virtual seconds an operation set may take (C04)
STALL = float(os.environ.get("VERIF_STALL", "60"))              # virtual seconds without progress after which a run is given up as hanging (see Stall)
STALL_LIVE = float(os.environ.get("VERIF_STALL_LIVE", "90"))   # ... when locks are taken and given back all the time (livelock)
BACKOFF_DISTINCT = [2.5, 1.75, 3.25, 2.0, 3.75, 1.25, 2.75, 1.5, 3.5, 2.25, 3.0, 1.375, 2.625, 3.875, 1.625, 2.875]
BACKOFF_EQUAL = [2.0, 2.0, 2.0, 2.0] + BACKOFF_DISTINCT
BEHIND_CONCURRENT = os.environ.get("VERIF_BEHIND_CONCURRENT", "1") == "1"    # family "behind a completed gate": also issue op 2 WITH the gate


def jkey(x):
    return json.dumps(x, sort_keys=True, default=str)


def jhash(x):
    return hashlib.md5(jkey(x).encode()).hexdigest()


def node_of(tag):
    return tag.split("#")[0]


class Stall(Exception):
    """raised by the Explorer (through `SimNet.run` / `settle`): NO PROGRESS -- nothing can be delivered, only timers
    fire (lock pollers, `_lock_nodes` time-outs and their retries), a lock is held, and
      how = "same": no operation has completed while one and the same acquisition of a lock has been held for STALL
                    virtual seconds (a lock that is never given back: everybody polls it for ever), or
      how = "live": no operation has completed for STALL_LIVE virtual seconds although locks are taken and given back
                    all the time (operations time out on each other / on a lost lock and retry for ever).
    Nothing in the code under test waits that long for anything but a lock (polls: 1 s, back-off: 1-4 s, connection
    retries: 0.5 s; the longest such period seen in a run that DOES complete: 14 s in 630 000 thorough-tier schedules,
    counted on every run under "~completed although no operation completed for ..."), so the run is judged as the
    hang the 600 s budget would report -- but after 60 / 90 s: every cancelled `get_global_lock` leaves a poller behind
    that fires once per second for ever, so the cost of a hanging schedule grows quadratically with the virtual time
    it is given (a change that makes many schedules hang used to exhaust the wall budget without a verdict)."""

    def __init__(self, lock, owner, since, now, how="same"):
        self.lock, self.owner, self.since, self.now, self.how = lock, owner, since, now, how
        if how == "same":
            text = "no progress for %.0f virtual s: %s has been held by one and the same acquisition (operation %s) since " \
                   "t=%.2f s, no operation completed since, nothing is deliverable, only timers fire" % (now - since, lock, owner, since)
        else:
            text = "no progress for %.0f virtual s: no operation has completed since t=%.2f s although nothing is deliverable and " \
                   "only timers fire (lock time-outs, retries, pollers); locks are taken and given back all the time (now held: " \
                   "%s by operation %s)" % (now - since, since, lock, owner)
        Exception.__init__(self, text)


# ---------------------------------------------------------------------------
# patches from outside (class attributes; nothing under /repo is edited)
# ---------------------------------------------------------------------------

_PATCHED = False
_CUR = None        # the live Exec


def _patch(ns):
    """(1) `simulatedQubit.remote_measure_inplace` / `remote_measure` note which
    simulated-qubit object is being measured, so that the scripted coin can be
    chosen per LOGICAL qubit; (2) twisted's `DeferredLock.acquire/release`
    report to the live Exec's lock monitor.  Both wrappers call the original
    and change nothing else."""
    global _PATCHED
    if _PATCHED:
        return
    _PATCHED = True
    Qc = ns.Q.simulatedQubit

    def wrap_meas(name):
        orig = getattr(Qc, name)

        def f(self, *a, **k):
            ex = _CUR
            if ex is None:
                return orig(self, *a, **k)
            ex._measuring.append(self)
            try:
                return orig(self, *a, **k)
            finally:
                ex._measuring.pop()
        f.__name__ = orig.__name__
        f.__wrapped__ = orig
        setattr(Qc, name, f)
    wrap_meas("remote_measure_inplace")
    wrap_meas("remote_measure")
    from twisted.internet.defer import DeferredLock
    o_acq, o_rel = DeferredLock.acquire, DeferredLock.release

    def acquire(self):
        ex = _CUR
        if ex is not None:
            ex.on_acquire(self)
        return o_acq(self)

    def release(self):
        ex = _CUR
        if ex is not None:
            ex.on_release(self)
        return o_rel(self)
    DeferredLock.acquire = acquire
    DeferredLock.release = release


# ---------------------------------------------------------------------------
# small stabilizer calculus (canonical generators of the joint state)
# ---------------------------------------------------------------------------

# product of two single-qubit Hermitian Paulis (x, z): exponent of i
_PH = {}
for _a in ((0, 0), (1, 0), (1, 1), (0, 1)):
    for _b in ((0, 0), (1, 0), (1, 1), (0, 1)):
        _PH[(_a, _b)] = 0
for _a, _b in (((1, 0), (1, 1)), ((1, 1), (0, 1)), ((0, 1), (1, 0))):      # XY=iZ YZ=iX ZX=iY
    _PH[(_a, _b)] = 1
    _PH[(_b, _a)] = 3


def _mul(r1, r2):
    """product of two commuting signed Pauli rows (xs, zs, neg)"""
    x1, z1, s1 = r1
    x2, z2, s2 = r2
    e = 2 * (s1 + s2)
    for i in range(len(x1)):
        e += _PH[((x1[i], z1[i]), (x2[i], z2[i]))]
    e %= 4
    return ([a ^ b for a, b in zip(x1, x2)], [a ^ b for a, b in zip(z1, z2)], 1 if e == 2 else (0 if e == 0 else 9))


def canon_group(n, rows):
    """reduced row echelon form over the columns x_0..x_(n-1) z_0..z_(n-1): one
    canonical generator list per stabilizer group.  rows: (xs, zs, neg)."""
    rows = [(list(x), list(z), s) for x, z, s in rows]
    h = 0
    for k in range(2 * n):
        def bit(r):
            return r[0][k] if k < n else r[1][k - n]
        piv = next((i for i in range(h, len(rows)) if bit(rows[i])), None)
        if piv is None:
            continue
        rows[h], rows[piv] = rows[piv], rows[h]
        for i in range(len(rows)):
            if i != h and bit(rows[i]):
                rows[i] = _mul(rows[i], rows[h])
        h += 1
        if h == len(rows):
            break
    letters = {(0, 0): "I", (1, 0): "X", (1, 1): "Y", (0, 1): "Z"}
    return [("-" if s == 1 else ("?" if s == 9 else "+")) + "".join(letters[(x[i], z[i])] for i in range(n))
            for x, z, s in rows]


# ---------------------------------------------------------------------------
# policies
# ---------------------------------------------------------------------------

class _Pick:
    """round robin over connection ids among the offered messages"""

    def __init__(self, rev=False):
        self.last, self.rev = (10 ** 9 if rev else -1), rev

    def __call__(self, msgs):
        cids = sorted(m[0] for m in msgs)
        if self.rev:
            c = next((c for c in reversed(cids) if c < self.last), cids[-1])
        else:
            c = next((c for c in cids if c > self.last), cids[0])
        self.last = c
        return c


class FifoPolicy:
    def __init__(self, rev=False):
        self.pick = _Pick(rev)

    def choose(self, exp, msgs, tim):
        return ("d", self.pick(msgs)) if msgs else ("t", 0)


class PhasesPolicy:
    def __init__(self, phases, tail, rev=False):
        self.phases, self.tail = [tuple(p) for p in phases], list(tail)
        self.i, self.count = 0, 0
        self.pick = _Pick(rev)
        self.early = []           # phases that ended before their count (op blocked / finished)
        self.done_at = []         # ops already complete at the end of each phase

    def finish(self):
        """the run ended: phases that were not exhausted ended early"""
        while self.i < len(self.phases):
            if self.count < self.phases[self.i][1]:
                self.early.append((self.i, self.count))
            self.i += 1
            self.count = 0

    def choose(self, exp, msgs, tim):
        while self.i < len(self.phases):
            op, n = self.phases[self.i]
            mine = [m for m in msgs if m[2] == op]
            if self.count < n and mine:
                self.count += 1
                return ("d", self.pick(mine))
            if self.count < n:
                self.early.append((self.i, self.count))
            self.done_at.append(sorted(exp.ex.done))
            self.i += 1
            self.count = 0
        for op in self.tail:
            mine = [m for m in msgs if m[2] == op]
            if mine:
                return ("d", self.pick(mine))
        if msgs:
            return ("d", self.pick(msgs))
        return ("t", 0)


class TimerPolicy:
    def __init__(self, base, at, mode="one"):
        self.base, self.at, self.mode = base, set(at), mode
        self.firing = False

    def choose(self, exp, msgs, tim):
        if self.firing:
            if tim and msgs and not any("_lock_nodes" in d for d in exp.fired_since(self.mark)):
                return ("t", 0)
            self.firing = False
        if exp.step in self.at and tim and msgs:
            if self.mode == "lock_nodes":
                if any("_lock_nodes" in t[1] for t in tim):
                    self.firing, self.mark = True, exp.step
                    return ("t", 0)
            else:
                return ("t", 0)
        return self.base.choose(exp, msgs, tim)


class PCTPolicy:
    def __init__(self, seed, depth=2, est_len=60, nops=4, tp=0.0):
        self.rng = random.Random(seed)
        self.prio = {}
        self.change = set(self.rng.randrange(est_len) for _ in range(max(0, depth - 1)))
        self.low = 0.0
        self.pick = _Pick()
        self.tp = tp

    def choose(self, exp, msgs, tim):
        if not msgs:
            return ("t", 0)
        if tim and self.tp and self.rng.random() < self.tp:
            return ("t", 0)
        for m in msgs:
            if m[2] not in self.prio:
                self.prio[m[2]] = 1.0 + self.rng.random()
        op = max({m[2] for m in msgs}, key=lambda o: (self.prio[o], str(o)))
        if exp.step in self.change:
            self.low -= 1.0
            self.prio[op] = self.low
        return ("d", self.pick([m for m in msgs if m[2] == op]))


class RandPolicy:
    def __init__(self, seed, tp=0.0):
        self.rng, self.tp = random.Random(seed), tp

    def choose(self, exp, msgs, tim):
        if msgs and tim and self.tp and self.rng.random() < self.tp:
            return ("t", 0)
        if msgs:
            return ("d", msgs[self.rng.randrange(len(msgs))][0])
        return ("t", 0)


class ReplayPolicy:
    def __init__(self, actions):
        self.actions, self.pos = [tuple(a) for a in actions], 0
        self.fifo = FifoPolicy()
        self.diverged = None

    def choose(self, exp, msgs, tim):
        if self.pos < len(self.actions) and self.diverged is None:
            a = self.actions[self.pos]
            ok = (a[0] == "d" and a[1] in [m[0] for m in msgs]) or (a[0] == "t" and tim)
            if ok:
                self.pos += 1
                return a
            self.diverged = "action %d %r impossible" % (self.pos, a)
        return self.fifo.choose(exp, msgs, tim)


class HoldPolicy:
    """"slow grant": FIFO, except that ONE message is withheld -- and with it everything behind it on the same directed
    connection -- until a time-out timer of `_lock_nodes` has fired: the `nth` call of `method` (`get_global_lock`) on
    the directed connection `conn` ("Alice->Bob": a lock request of `_lock_nodes`), what = "request", or the answer to
    that call on "Alice<-Bob", what = "reply" (the request is delivered, the lock granted, the grant is on the wire).
    While it is held everything else is delivered (FIFO); timers fire only when nothing else can be delivered.  As
    soon as the time-out has fired the message is released and the run goes on FIFO (linger: first everything the
    time-out path sends on OTHER connections is delivered, then the held message).  `early` (as PhasesPolicy): the
    message never appeared / had to be released before any time-out."""

    def __init__(self, conn, what="reply", nth=0, linger=False, method="get_global_lock", rev=False):
        a, b = conn.split("->")
        self.conn, self.back, self.what, self.nth, self.linger, self.method = conn, "%s<-%s" % (a, b), what, nth, linger, method
        self.base = FifoPolicy(rev)
        self.state = 0            # 0 looking for the request, 1 waiting for its answer, 2 holding, 3 done
        self.seen = set()
        self.count = 0
        self.reqid = self.held = self.mark = None
        self.held_text = None
        self.early = []

    def finish(self):
        if self.state != 3:
            self.early.append((0, self.state))

    def choose(self, exp, msgs, tim):
        net = exp.net
        if self.state == 0:
            for cid, label, _op in msgs:
                if label != self.conn:
                    continue
                ser = net._pipes[cid].head()[0]
                if ser in self.seen:
                    continue
                self.seen.add(ser)
                h = net.head(cid) or ""
                if h.startswith("call:%s#" % self.method):
                    self.count += 1
                    if self.count - 1 == self.nth:
                        if self.what == "request":
                            self.state, self.held, self.mark, self.held_text = 2, cid, exp.step, label + " " + h
                            break
                        self.state, self.reqid = 1, h.split("#", 1)[1]
                        return ("d", cid)
        if self.state == 1:
            for cid, label, _op in msgs:
                if label == self.back and net.head(cid) in ("answer#" + self.reqid, "error#" + self.reqid):
                    self.state, self.held, self.mark, self.held_text = 2, cid, exp.step, label + " " + net.head(cid)
                    break
        if self.state == 2:
            rest = [m for m in msgs if m[0] != self.held]
            timed_out = any("_lock_nodes" in d for d in exp.fired_since(self.mark))
            if timed_out and not (self.linger and rest):
                self.state = 3
                return ("d", self.held)
            if rest:
                return self.base.choose(exp, rest, tim)
            if tim:
                return ("t", 0)
            self.state = 3
            self.early.append((0, 2))
            return ("d", self.held)
        return self.base.choose(exp, msgs, tim)


class HeldConnPolicy:
    """"operation behind a completed gate": FIFO, except that EVERYTHING on the directed connections `conns`
    ("Bob->Charlie": the calls Bob makes at Charlie) is withheld for as long as anything else can be delivered; when
    nothing else is deliverable up to `patience` pending timers are fired (pollers of an operation that waits for a
    lock), then the held messages are released and the run goes on FIFO.  `behind`: the step at which operation
    `until` had completed while messages were still being held (None: it never did -- it waits for them, as every
    call of the unchanged code is awaited -- the schedule is then a sequential one)."""

    def __init__(self, conns, until=0, patience=3, rev=False):
        self.conns, self.until, self.patience = set(conns), until, patience
        self.base = FifoPolicy(rev)
        self.state, self.fired, self.behind, self.nheld = 0, 0, None, 0
        self.early = []

    def finish(self):
        if self.behind is None:
            self.early.append((0, self.nheld))

    def choose(self, exp, msgs, tim):
        if self.state == 0:
            held = [m for m in msgs if m[1] in self.conns]
            rest = [m for m in msgs if m[1] not in self.conns]
            self.nheld = max(self.nheld, len(held))
            if held and self.behind is None and self.until in exp.ex.done:
                self.behind = exp.step
            if rest:
                return self.base.choose(exp, rest, tim)
            if held and tim and self.fired < self.patience:
                self.fired += 1
                return ("t", 0)
            self.state = 1
        return self.base.choose(exp, msgs, tim)


def make_policy(spec):
    k = spec["kind"]
    if k == "holdconn":
        return HeldConnPolicy(spec["conns"], spec.get("until", 0), spec.get("patience", 3), spec.get("rev", False))
    if k == "hold":
        return HoldPolicy(spec["conn"], spec.get("what", "reply"), spec.get("nth", 0), spec.get("linger", False),
                          spec.get("method", "get_global_lock"), spec.get("rev", False))
    if k == "fifo":
        return FifoPolicy(spec.get("rev", False))
    if k == "phases":
        return PhasesPolicy(spec["phases"], spec.get("tail", []), spec.get("rev", False))
    if k == "timer":
        return TimerPolicy(make_policy(spec["base"]), spec["at"], spec.get("mode", "one"))
    if k == "pct":
        return PCTPolicy(spec["seed"], spec.get("depth", 2), spec.get("len", 60), tp=spec.get("tp", 0.0))
    if k == "rand":
        return RandPolicy(spec["seed"], spec.get("tp", 0.0))
    if k == "replay":
        return ReplayPolicy(spec["actions"])
    raise ValueError("unknown schedule spec %r" % (spec,))


def spec_kind(spec):
    k = spec["kind"]
    if k == "timer":
        return "timer-race" + ("/lock_nodes" if spec.get("mode") == "lock_nodes" else "") + "+" + spec_kind(spec["base"])
    if k == "phases":
        return "delay%d" % max(1, len(spec["phases"]) // 2)
    if k == "hold":
        return "slow-grant/%s%s" % (spec.get("what", "reply"), "+linger" if spec.get("linger") else "")
    if k == "holdconn":
        return "held-connection/%d" % len(spec["conns"])
    return k


# ---------------------------------------------------------------------------
# the scheduler handed to SimNet.run: attribution + policy + recording
# ---------------------------------------------------------------------------

class Explorer:
    """callable (net, pending, timers) -> action.  Attributes every message
    (by serial number) and every timer (by DelayedCall object) to the op whose
    processing created it; `cur` is the op of the action being executed."""

    def __init__(self, ex, policy):
        self.ex, self.net, self.policy = ex, ex.net, policy
        self.starts, self.ops_of = [], []          # serial ranges -> op
        self.mark = self.net._serial
        self.call_op = {}                          # id(DelayedCall) -> (call, op)
        for c in self.net.clock.calls:
            self.call_op[id(c)] = (c, None)
        self.cur = None
        self.step = 0
        self.actions = []
        self.track_updates = any(op[0] == "g2" for _t, op in ex.case.get("conc", []))
        self.steps_of = collections.Counter()      # deliveries per op
        self.timer_steps = []                      # steps at which a message was chosen while a timer was pending
        self.fired = []                            # (step, description, op) of fired timers
        self.timeouts = []                         # (op, step): `_lock_nodes` time-outs that took the time-out path
        self._pending_to = None
        self.open_updates = {}                     # (caller, callee, request id) -> op: delivered `update_virtual_merge` calls not answered yet

    def absorb(self):
        net = self.net
        if net._serial > self.mark:
            self.starts.append(self.mark + 1)
            self.ops_of.append(self.cur)
            self.mark = net._serial
            if self._pending_to is not None:
                self.timeouts.append(self._pending_to)
        elif self._pending_to is not None and self.ex.nlock_events != self._pending_ev:
            self.timeouts.append(self._pending_to)
        self._pending_to = None
        for c in net.clock.calls:
            if id(c) not in self.call_op:
                self.call_op[id(c)] = (c, self.cur)

    def op_of_serial(self, ser):
        i = bisect.bisect_right(self.starts, ser) - 1
        return self.ops_of[i] if i >= 0 else None

    def attributed(self, op, fn):
        self.absorb()
        prev, self.cur = self.cur, op
        try:
            return fn()
        finally:
            self.absorb()
            self.cur = prev

    def fired_since(self, step):
        return [d for s, d, _ in self.fired if s >= step]

    def __call__(self, net, pending, timers):
        self.absorb()
        pipes = net._pipes
        msgs = [(cid, label, self.op_of_serial(pipes[cid].head()[0])) for cid, label in pending]
        calls = net._calls() if timers else []
        tim = [(t, d, self.call_op.get(id(c), (None, None))[1]) for (t, d), c in zip(timers, calls)]
        act = self.policy.choose(self, msgs, tim)
        if act[0] == "d":
            self.cur = next(m[2] for m in msgs if m[0] == act[1])
            self.steps_of[self.cur] += 1
            if self.track_updates:
                lab = net.label(act[1])
                if "<-" in lab:
                    if self.open_updates:
                        h = net.head(act[1]) or ""
                        if h.startswith(("answer#", "error#")):
                            self.open_updates.pop(tuple(lab.split("<-")) + (h.split("#", 1)[1],), None)
                elif "->" in lab:
                    h = net.head(act[1]) or ""
                    if h.startswith("call:update_virtual_merge#"):
                        self.open_updates[tuple(lab.split("->")) + (h.split("#", 1)[1],)] = self.cur
            if tim:
                self.timer_steps.append(self.step)
        else:
            t, d, op = tim[act[1]]
            if not msgs:
                st = self.ex.stalled(t)
                if st is not None:
                    raise Stall(*st)
            self.cur = op
            self.fired.append((self.step, d, op))
            if "_lock_nodes" in d:
                self._pending_to = (op, self.step)
                self._pending_ev = self.ex.nlock_events
        self.actions.append(list(act))
        self.step += 1
        return act


# ---------------------------------------------------------------------------
# execution of one case on a fresh network
# ---------------------------------------------------------------------------

class _VList(list):
    """a node's `virtQubits` list that reports append / remove to the Exec (which operation mutates the list, from
    which function, and who holds that node's lock at that moment); behaves like the list it replaces"""

    def append(self, x):
        self._ex.on_mut(self._node)
        list.append(self, x)

    def remove(self, x):
        self._ex.on_mut(self._node)
        list.remove(self, x)


class Exec:
    def __init__(self, case):
        global _CUR
        _CUR = None                      # generators of the previous network may be finalised while this one is built
        self.case = case
        names = case.get("nodes", NODES)
        self.net = S.SimNet(names, max_qubits=case.get("max_qubits", 5), max_regs=case.get("max_regs", 100),
                            rng=random.Random(0), host_order=case.get("host_order"), bringup=case.get("bringup"))
        self.bringup = case.get("bringup") is not None
        _patch(self.net._ns)
        net = self.net
        self.tags = list(names) + sorted({t for t, _ in case.get("conc", []) if t not in names})
        self.clients = {t: net.client(node_of(t)) for t in self.tags}
        self.objs = collections.defaultdict(list)      # label -> virtualQubit objects (oldest first)
        self.obj_label = {}                            # id(virtualQubit) -> label
        self.sim_label = {}                            # id(simulatedQubit) -> label (cache)
        self._keep = []
        self.refs = {}
        self.frozen = {}
        self._measuring = []
        self.draws = collections.Counter()
        self.coin_trace = []
        coin = case.get("coin", {})
        self.coin_default, self.coin_by = coin.get("default", 0), coin.get("by", {})
        net.set_coins(self._coin)
        net.set_backoff(list(case.get("backoff", BACKOFF_DISTINCT)))
        # monitors: node locks; mutations of the per-node handle lists
        self.unguarded = []                            # [node, call site, op, owner of the node lock at that moment]
        for n, nd in net.nodes.items():
            v = _VList(nd.virtQubits)
            v._ex, v._node = self, n
            nd.virtQubits = v
        self.lock_name = {id(nd._lock): "node:" + n for n, nd in net.nodes.items()}
        self.owner = {}                                # lock name -> op ctx of the holder
        self.acq_at = {}                               # id(lock) -> (virtual time of the acquisition that holds it now, name, lock)
        self.last_done_at = 0.0                        # virtual time of the latest completion of a concurrent op
        self.hold_gap = 0.0                            # longest time one acquisition was seen held without any completion (same conditions)
        self.idle_gap = 0.0                            # longest time without a completion seen with a lock held and only timers firing
        self.conc_mark = 0                             # len(lock_events) when the concurrent phase began
        self.waiters = collections.defaultdict(list)
        self.lock_events = []                          # [kind, lock, ctx, owner]
        self.nlock_events = 0
        self.foreign = []                              # [lock, releaser, owner]
        self.exp = None
        self.results = {}
        self.done = set()
        self.completion_time = {}
        self.unawaited = []                            # [op, connection, call]: calls an op had made that were undelivered when it returned
        _CUR = self

    # -- scripted coins ------------------------------------------------------

    def label_of_sim(self, sq):
        net = self.net
        for lab, objs in self.objs.items():
            for o in objs:
                if net.resolve(o.simQubit) is sq:
                    self.sim_label[id(sq)] = lab
                    self._keep.append(sq)
                    return lab
        return self.sim_label.get(id(sq), "?")

    def _coin(self, a, b):
        sq = self._measuring[-1] if self._measuring else None
        lab = self.label_of_sim(sq) if sq is not None else "?"
        k = self.draws[lab]
        self.draws[lab] += 1
        seq = self.coin_by.get(lab, [])
        v = seq[k] if k < len(seq) else self.coin_default
        self.coin_trace.append([lab, k, v])
        return v

    # -- lock monitor ----------------------------------------------------------

    def _lname(self, lock):
        n = self.lock_name.get(id(lock))
        if n is None:
            for nm, nd in self.net.nodes.items():
                for q in nd.simQubits:
                    if q._lock is lock:
                        return "q:%s:%d" % (nm, q.simNum)
            return None                  # a qubit being created, or a lock of a retired network
        return n

    def _tag(self, op):
        conc = self.case.get("conc", [])
        return conc[op][0] if isinstance(op, int) and op < len(conc) else None

    def _ctx(self):
        return self.exp.cur if self.exp is not None else None

    def on_mut(self, node):
        ctx = self._ctx()
        if ctx is None:
            return
        own = self.owner.get("node:" + node)
        if own != ctx:
            import sys
            self.unguarded.append([node, sys._getframe(2).f_code.co_name, ctx, own])

    def on_acquire(self, lock):
        name = self._lname(lock)
        if name is None:
            return
        self.nlock_events += 1
        if lock.locked:
            self.waiters[name].append(self._ctx())
            return
        self.owner[name] = self._ctx()
        self.acq_at[id(lock)] = (self.net.clock.seconds(), name, lock)
        if name.startswith("node:"):
            self.lock_events.append(["acq", name, self._ctx(), None])

    def on_release(self, lock):
        self.acq_at.pop(id(lock), None)
        name = self._lname(lock)
        if name is None:
            return
        self.nlock_events += 1
        own, ctx = self.owner.get(name), self._ctx()
        if name.startswith("node:"):
            self.lock_events.append(["rel", name, ctx, own])
            if lock.locked and own != ctx and self._tag(own) != self._tag(ctx):
                self.foreign.append([name, ctx, own])
        if self.waiters[name]:
            self.owner[name] = self.waiters[name].pop(0)
            self.acq_at[id(lock)] = (self.net.clock.seconds(), name, lock)
        else:
            self.owner.pop(name, None)

    def stalled(self, now):
        """arguments of Stall if the oldest acquisition still holding a lock is STALL virtual seconds old and no
        operation has completed for as long ("same"), or a lock is held and no operation has completed for STALL_LIVE
        virtual seconds ("live"); None otherwise.  Asked when a timer is about to fire because nothing is deliverable"""
        held = [(t, name) for t, name, lock in self.acq_at.values() if lock.locked]
        if not held:
            return None
        gap = now - self.last_done_at
        if gap > self.idle_gap:
            self.idle_gap = gap
        t, name = min(held)
        since = max(t, self.last_done_at)
        if now - since > self.hold_gap:
            self.hold_gap = now - since
        if now - since >= STALL:
            return name, self.owner.get(name), since, now, "same"
        if gap >= STALL_LIVE:
            return name, self.owner.get(name), self.last_done_at, now, "live"
        return None

    # -- labels, references --------------------------------------------------------

    def _bind(self, label, obj):
        if obj is None:
            return
        if id(obj) not in self.obj_label:
            self.obj_label[id(obj)] = label
            self._keep.append(obj)
            self.objs[label].append(obj)

    def where(self, label):
        """(node, virtualQubit object) of the newest handle of `label` that is in a node's list, else None"""
        for o in reversed(self.objs.get(label, [])):
            nd = self.net.nodes.get(o.virtNode.name)
            if nd is not None and any(x is o for x in nd.virtQubits):
                return o.virtNode.name, o
        return None

    def ref(self, tag, label):
        """RemoteReference of client `tag` to the current handle of `label` (fetched by virtual number; FIFO)"""
        w = self.where(label)
        if w is None or w[0] != node_of(tag):
            raise ValueError("label %s is not at %s" % (label, node_of(tag)))
        key = (tag, id(w[1]))
        if key not in self.refs:
            r = self.net.run(self.clients[tag].callRemote("get_virtual_ref", w[1].num))
            if self.net.resolve(r) is not w[1]:
                raise RuntimeError("get_virtual_ref(%d) at %s did not return the handle of %s" % (w[1].num, tag, label))
            self.refs[key] = r
        return self.refs[key]

    def holder_tag(self, op):
        """the primary client of the node that holds the qubit(s) of a prefix op"""
        if op[0] == "new":
            return op[1]
        w = self.where(op[1])
        if w is None:
            raise ValueError("label %s is nowhere" % op[1])
        return w[0]

    def prepare(self, tag, op):
        """fetch -- and freeze -- the references an op will need: issuing it is then exactly one
        callRemote, through the handle the client obtained BEFORE the concurrent phase"""
        for lab in (op[1:2] if op[0] in ("g1", "meas", "send") else op[1:3] if op[0] == "g2" else []):
            if (tag, lab) not in self.frozen:
                self.frozen[(tag, lab)] = self.ref(tag, lab)

    def _r(self, tag, label):
        r = self.frozen.get((tag, label))
        return r if r is not None else self.ref(tag, label)

    def issue(self, tag, op):
        """one callRemote; returns the Deferred"""
        c = self.clients[tag]
        k = op[0]
        if k == "new":
            return c.callRemote("new_qubit")
        # harness-only client operations (directed witnesses): a client that takes a node lock through the public
        # PB method, keeps it for a while on the fake clock, releases it
        if k == "lock":
            return c.callRemote("get_global_lock")
        if k == "unlock":
            return c.callRemote("release_global_lock")
        if k == "sleep":
            from twisted.internet.task import deferLater
            return deferLater(self.net.clock, float(op[1]), lambda: None)
        if k == "g1":
            return self._r(tag, op[1]).callRemote("apply_" + op[2])
        if k == "g2":
            return self._r(tag, op[1]).callRemote(op[3] + "_onto", self._r(tag, op[2]))
        if k == "meas":
            return self._r(tag, op[1]).callRemote("measure", bool(op[2]))
        if k == "send":
            return c.callRemote("send_qubit", self._r(tag, op[1]), op[2])
        raise ValueError("unknown op %r" % (op,))

    def absorb_result(self, tag, op, r):
        """normalise the result of an op and follow the logical qubit"""
        ec = S.error_class(r)
        if ec:
            return "err:" + ec
        net = self.net
        if op[0] == "new":
            o = net.resolve(r)
            if o is None or not hasattr(o, "virtNode"):
                return "val:%r" % (type(r).__name__,)
            self._bind(op[2], o)
            return "new:%d" % o.num
        if op[0] == "send" and isinstance(r, int) and not isinstance(r, bool):
            nd = net.nodes.get(op[2])
            if nd is not None:
                for v in nd.virtQubits:
                    if v.num == r and id(v) not in self.obj_label:
                        self._bind(op[1], v)
                        break
            return "num:%d" % r
        if isinstance(r, (int, bool, type(None), str)):
            return "val:%r" % (r,)
        return "val:<%s>" % type(r).__name__

    # -- phases --------------------------------------------------------------

    def prefix(self):
        net = self.net
        for op in self.case.get("prefix", []):
            tag = self.holder_tag(op)
            self.prepare(tag, op)
            r = net.run(self.issue(tag, op))
            out = self.absorb_result(tag, op, r)
            if out.startswith("err:") or out in ("val:None", "val:False") and op[0] in ("send",):
                raise core.MachineryError(
                    "placement %s cannot be built: sequential op %r fails with %s %s -- a SEQUENTIAL defect (C01/C05 "
                    "territory); C03/C04 explore concurrency on top of working sequential operations" % (
                        self.case.get("name"), op, out, S.error_text(r)[:160]))
        net.settle()
        for lab in list(self.objs):
            w = self.where(lab)
            if w is not None:
                sq = net.resolve(w[1].simQubit)
                if sq is not None:
                    self.sim_label[id(sq)] = lab
                    self._keep.append(sq)

    def pre_state(self):
        """static description of the placement: label -> {holder, sim, reg}; reg -> holder nodes"""
        net = self.net
        info, regs = {}, collections.defaultdict(list)
        for lab in sorted(self.objs):
            w = self.where(lab)
            if w is None:
                continue
            v = w[1]
            sq = net.resolve(v.simQubit)
            reg = "%s/%s" % (v.simNode.name, getattr(getattr(sq, "register", None), "num", "?"))
            idx = next(i for i, x in enumerate(net.nodes[w[0]].virtQubits) if x is v)
            info[lab] = {"holder": w[0], "sim": v.simNode.name, "reg": reg, "num": v.num, "index": idx}
            regs[reg].append(w[0])
        out = {"labels": info, "regs": {r: sorted(h) for r, h in regs.items()}}
        if self.bringup:
            out["missing"] = ["%s->%s" % e for e in net.missing_connections()]
        return out

    def run_serial(self, order):
        """the concurrent ops one after the other in the given order (FIFO, settle after each)"""
        net = self.net
        conc = self.case["conc"]
        for tag, op in conc:
            self.prepare(tag, op)
        hung = None
        for i in order:
            tag, op = conc[i]
            try:
                r = net.run(self.issue(tag, op), max_virtual_time=BUDGET)
            except S.Hang as h:
                hung = {"op": i, "reason": h.reason, "locks": h.locks}
                break
            self.results[i] = self.absorb_result(tag, op, r)
            net.settle()
        return hung

    def run_conc(self, policy):
        """issue the first op of every client, let `policy` schedule; returns hang info or None"""
        from twisted.internet.defer import Deferred
        net = self.net
        conc = self.case["conc"]
        for tag, op in conc:
            self.prepare(tag, op)
        self.exp = exp = Explorer(self, policy)
        chains = collections.OrderedDict()
        chain_of = (lambda tag: "*") if self.case.get("chain") else (lambda tag: tag)   # "chain": ONE chain over all clients
        for i, (tag, _op) in enumerate(conc):
            chains.setdefault(chain_of(tag), []).append(i)
        fin = [Deferred() for _ in conc]
        t0 = net.clock.seconds()
        self.last_done_at = t0
        self.conc_mark = len(self.lock_events)
        self.missing_at_issue = ["%s->%s" % e for e in net.missing_connections()] if self.bringup else []

        def start(i):
            tag, op = conc[i]

            def go():
                d = self.issue(tag, op)
                d.addBoth(finished, i)
            exp.attributed(i, go)

        def finished(r, i):
            tag, op = conc[i]
            self.results[i] = self.absorb_result(tag, op, r)
            self.done.add(i)
            self.completion_time[i] = net.clock.seconds() - t0
            self.last_done_at = net.clock.seconds()
            if conc[i][1][0] == "g2":
                # observation only: bookkeeping calls of this gate (handle re-pointing at other nodes) still on the wire
                for cid, lab, head in net.pending(detail=True):
                    if head and head.startswith("call:update_virtual_merge#") and exp.op_of_serial(net._pipes[cid].head()[0]) == i:
                        self.unawaited.append([i, lab, "update_virtual_merge not delivered"])
                for (a, b, _rid), o in sorted(exp.open_updates.items()):
                    if o == i:
                        self.unawaited.append([i, "%s->%s" % (a, b), "update_virtual_merge delivered, not answered"])
            ch = chains[chain_of(tag)]
            k = ch.index(i)
            if k + 1 < len(ch):
                start(ch[k + 1])
            fin[i].callback(None)
            return None
        for _key, ch in chains.items():
            start(ch[0])
        hung = None
        while True:
            try:
                net.run(fin, scheduler=exp, max_virtual_time=max(0.0, BUDGET - (net.clock.seconds() - t0)))
            except S.Hang as h:
                if self.bringup and h.reason.startswith("dead") and net.retry_deadlines():
                    # bring-up mode: every operation waits, without a timer of its own, for a connection that is not
                    # up yet -- the node's (background) connection retry is the only thing that can happen
                    exp.attributed(None, net.fire_next_retry)
                    continue
                hung = {"unfired": h.unfired, "reason": h.reason, "locks": h.locks, "virtual_time": net.clock.seconds() - t0,
                        "timers": [t[1] for t in h.timers][:6]}
            except Stall as st:
                hung = {"unfired": [i for i in range(len(conc)) if i not in self.done], "reason": str(st),
                        "locks": net.lock_flags(), "virtual_time": net.clock.seconds() - t0,
                        "timers": [t[1] for t in net.timers()][:6], "stalled": [st.lock, st.owner, st.since]}
            break
        exp.absorb()
        self.gaps_conc = (self.idle_gap, self.hold_gap)
        self.n_conc_actions = len(exp.actions)
        return hung

    def settle(self):
        """FIFO until quiescent (attribution continues); False if timers re-arm for ever"""
        if self.exp is not None:
            self.exp.policy = FifoPolicy()
            try:
                # (bring-up mode: SimNet.settle leaves timers alone by default; quiescence needs them fired)
                ok = self.net.settle(scheduler=self.exp, max_virtual_time=BUDGET, fire_timers=True)
            except Stall:
                ok = False            # timers re-arm for ever around a lock that is never released
            self.exp.absorb()
            return ok
        return self.net.settle(max_virtual_time=BUDGET, fire_timers=True)

    # -- observation ---------------------------------------------------------

    def observe(self):
        net = self.net
        snap = net.snapshot()
        joint = net.joint_state()
        lab_at = {}                                     # (node, num) -> label
        exact, abstract = {}, {}
        for n in sorted(net.nodes):
            nd, sn = net.nodes[n], snap[n]
            virt = []
            for v, e in zip(nd.virtQubits, sn["virt"]):
                lab = self.obj_label.get(id(v), "?")
                lab_at.setdefault((n, v.num), lab)
                e = dict(e)
                e["label"] = lab
                virt.append(e)
            exact[n] = {"virt": virt, "sim": sn["sim"], "regs": sn["regs"], "numRegs": sn["numRegs"],
                        "next_reg_num": sn["next_reg_num"], "recv": sn["recv"], "recv_epr": sn["recv_epr"]}
            abstract[n] = {"virt": sorted([e["label"], e["simNode"], e["active"], e["sim"][0], e["sim_live"]] for e in virt),
                           "nsim": len(sn["sim"]), "numRegs": sn["numRegs"], "regs": []}
        cols, rows_in = [], []
        broken = []
        for r in joint:
            names = []
            for p in range(r["n"]):
                h = r["holders"][p] if p < len(r["holders"]) else None
                names.append(lab_at.get((h[0], h[1]), "?%s:%s" % (h[0], h[1])) if h else "~%s:%s:%d" % (r["node"], r["reg"], p))
            if r["node"] in abstract:
                abstract[r["node"]]["regs"].append(sorted(names))
            if r["anomalies"]:
                broken.append("%s/%s: %s" % (r["node"], r["reg"], "; ".join(r["anomalies"])))
            if any(len(s) != 2 * r["n"] + 1 for s in r["state"]) or len(r["state"]) != r["n"]:
                broken.append("%s/%s: %d generators %r for %d qubits" % (r["node"], r["reg"], len(r["state"]),
                                                                          r["state"][:2], r["n"]))
                continue
            base = len(cols)
            cols.extend(names)
            rows_in.append((base, r["n"], r["state"]))
        for n in abstract:
            abstract[n]["regs"].sort()
        # global tableau, columns sorted by name
        uniq = []
        seen = collections.Counter()
        for c in cols:
            seen[c] += 1
            uniq.append(c if seen[c] == 1 else "%s'%d" % (c, seen[c]))
        order = sorted(range(len(uniq)), key=lambda i: uniq[i])
        pos = {old: new for new, old in enumerate(order)}
        N = len(uniq)
        rows = []
        for base, n, state in rows_in:
            for s in state:
                x, z = [0] * N, [0] * N
                for p in range(n):
                    x[pos[base + p]] = int(s[p])
                    z[pos[base + p]] = int(s[n + p])
                rows.append((x, z, int(s[2 * n])))
        phys = {"qubits": [uniq[i] for i in order], "gens": canon_group(N, rows), "broken": broken}
        return {"outcomes": [self.results.get(i) for i in range(len(self.case["conc"]))],
                "exact": exact, "abstract": abstract, "phys": phys, "wf": wf_problems(net, snap, joint),
                "locks_free": net.all_locks_free(), "locks": net.lock_flags()}


def wf_problems(net, snap, joint):
    """bookkeeping integrity at quiescence (independent of any model): short
    problem strings, [] if well formed."""
    out = []
    for n in sorted(snap):
        sn = snap[n]
        nums = [v["num"] for v in sn["virt"]]
        if len(set(nums)) != len(nums):
            out.append("dup-virt-num@%s" % n)
        if len(nums) > sn["maxQubits"]:
            out.append("over-capacity@%s" % n)
        for v in sn["virt"]:
            if v["active"] != 1:
                out.append("inactive-handle-listed@%s" % n)
            if v["sim"][0] is None:
                out.append("handle-names-nothing@%s" % n)
                continue
            if not v["sim_live"]:
                out.append("handle-names-dead-simulator@%s->%s" % (n, v["sim"][0]))
            if v["sim"][0] != v["simNode"]:
                out.append("simNode-field-wrong@%s" % n)
            if v["remote"] != (v["simNode"] != n):
                out.append("reference-kind-wrong@%s" % n)
        sims = sn["sim"]
        if len({s["simNum"] for s in sims}) != len(sims):
            out.append("dup-simNum@%s" % n)
        for s in sims:
            if not s["active"]:
                out.append("inactive-sim-listed@%s" % n)
            if not s["reg_live"]:
                out.append("sim-in-unknown-register@%s" % n)
        if sn["numRegs"] != len(sn["regs"]):
            out.append("numRegs-mismatch@%s" % n)
        per_reg = collections.Counter(s["reg"] for s in sims)
        for k, r in sn["regs"].items():
            if r["active"] != per_reg.get(int(k), 0):
                out.append("register-size-mismatch@%s" % n)
            if r["active"] == 0:
                out.append("empty-register@%s" % n)
    # every live simulated qubit is named by exactly one listed handle
    cnt = collections.Counter()
    for n in sorted(snap):
        for v in snap[n]["virt"]:
            if v["sim_live"]:
                cnt[(v["sim"][0], v["simobj"])] += 1
    for n in sorted(snap):
        for s in snap[n]["sim"]:
            c = cnt.get((n, s["obj"]), 0)
            if c == 0:
                out.append("orphan-sim@%s" % n)
            elif c > 1:
                out.append("sim-named-by-%d-handles@%s" % (c, n))
    for r in joint:
        if r["anomalies"]:
            out.append("register-anomaly@%s" % r["node"])
    return sorted(set(out))


# ---------------------------------------------------------------------------
# one schedule / the serial references
# ---------------------------------------------------------------------------

_GC_RUNS = [0]


def _gc_safe_point():
    """Cyclic garbage (the abandoned generators of a hung schedule, whose `finally` blocks release locks of their
    OLD network) is collected only here, between two schedules -- never in the middle of one, where the finalisers
    would run inside whatever operation happens to be executing and depend on the allocator's timing."""
    import gc
    if gc.isenabled():
        gc.disable()
    _GC_RUNS[0] += 1
    if _GC_RUNS[0] % 40 == 0:
        gc.collect()


def run_schedule(case, spec):
    _gc_safe_point()
    ex = Exec(case)
    ex.prefix()
    t_pre = len(ex.net.trace)
    pol = make_policy(spec)
    hung = ex.run_conc(pol)
    if hasattr(pol, "finish"):
        pol.finish()
    exp = ex.exp
    settled = ex.settle()
    obs = ex.observe()
    rec = {
        "completed": hung is None, "hang": hung, "settled": settled,
        "actions": exp.actions[:ex.n_conc_actions], "nactions": ex.n_conc_actions,
        "steps_of": {str(k): v for k, v in exp.steps_of.items()},
        "timer_steps": [s for s in exp.timer_steps if s < ex.n_conc_actions],
        "fired": [[s, d.split(":")[-1], o] for s, d, o in exp.fired],
        "timeouts": [list(t) for t in exp.timeouts],
        "foreign": ex.foreign, "unguarded": ex.unguarded, "coin_trace": ex.coin_trace, "backoff_log": list(ex.net.backoff_log),
        "virtual_time": max(ex.completion_time.values()) if ex.completion_time else None,
        "obs": obs, "prefix_actions": t_pre, "early": list(getattr(pol, "early", [])),
        "done_at": list(getattr(pol, "done_at", [])),
        "lock_owner": {k: v for k, v in ex.owner.items()}, "done": sorted(ex.done),
        "bringup": {"missing_at_issue": ex.missing_at_issue, "issued_at": case["bringup"].get("at"),
                    "connection_attempts": [[round(t, 3), a, b, ok] for t, a, b, ok in ex.net.connection_log]} if ex.bringup else None,
        "lock_takers": lock_takers(ex), "idle_gap": ex.gaps_conc[0], "hold_gap": ex.gaps_conc[1],
        "unawaited": ex.unawaited, "behind": getattr(pol, "behind", None),
    }
    return rec


def lock_takers(ex):
    """node lock -> the operations (indices; -1 = unattributed) that acquired it during the concurrent phase"""
    out = collections.defaultdict(set)
    for kind, name, ctx, _own in ex.lock_events[ex.conc_mark:]:
        if kind == "acq":
            out[name].add(ctx if isinstance(ctx, int) else -1)
    return {k: sorted(v) for k, v in out.items()}


def uncontended_leak(rec):
    """True iff a node lock is stuck (held when the run was given up / at idle) and NO stuck node lock was ever taken
    by more than one operation during the concurrent phase: whatever leaked it, it was not a race between two
    operations for that lock (the open findings lock-nodes-timeout:* need such a race: the cancelled request is
    still polling because ANOTHER operation holds the lock)"""
    flags = rec["hang"]["locks"] if rec.get("hang") else rec["obs"]["locks"]
    stuck = ["node:" + n for n, f in flags.items() if f["node"]]
    takers = rec.get("lock_takers", {})
    return bool(stuck) and all(len(takers.get(l, [])) <= 1 for l in stuck)


def orders(conc):
    """permutations of the op indices that keep every client's own order"""
    idx = list(range(len(conc)))
    out = []
    for p in itertools.permutations(idx):
        ok = True
        last = {}
        for i in p:
            t = conc[i][0]
            if last.get(t, -1) > i:
                ok = False
                break
            last[t] = i
        if ok:
            out.append(list(p))
    return out


_REF_CACHE = {}


def serial_refs(case):
    """[(order, obs or None, hang or None)] -- the REAL code, sequentially"""
    key = jkey({k: case.get(k) for k in ("nodes", "max_qubits", "host_order", "prefix", "conc", "coin", "bringup", "chain")})
    if key in _REF_CACHE:
        return _REF_CACHE[key]
    out = []
    # "chain": each operation is issued when the previous one has RETURNED -- the only admissible order is the issue order
    for order in ([list(range(len(case["conc"])))] if case.get("chain") else orders(case["conc"])):
        ex = Exec(case)
        ex.prefix()
        hung = ex.run_serial(order)
        ex.net.settle(max_virtual_time=BUDGET)
        out.append((order, None if hung else ex.observe(), hung))
    if len(_REF_CACHE) > 64:
        _REF_CACHE.clear()
    _REF_CACHE[key] = out
    return out


def first_diff(a, b, path=""):
    """path and values of the first difference of two JSON values"""
    if type(a) != type(b):
        return "%s: %r vs %r" % (path or ".", a, b)
    if isinstance(a, dict):
        for k in sorted(set(a) | set(b)):
            if k not in a or k not in b:
                return "%s.%s: %s" % (path, k, "missing in serial" if k in a else "missing in concurrent")
            d = first_diff(a[k], b[k], "%s.%s" % (path, k))
            if d:
                return d
        return None
    if isinstance(a, list):
        if len(a) != len(b):
            return "%s: length %d vs %d (%s | %s)" % (path or ".", len(a), len(b), jkey(a)[:120], jkey(b)[:120])
        for i, (x, y) in enumerate(zip(a, b)):
            d = first_diff(x, y, "%s[%d]" % (path, i))
            if d:
                return d
        return None
    return None if a == b else "%s: %r vs %r" % (path or ".", a, b)


def judge_c03(rec, refs):
    """serializability of a COMPLETED, settled schedule.  Returns
    (ok, level, order, what): level 'exact' (outcomes + whole snapshot + joint
    state equal some serial order), 'abstract' (outcomes, holders per logical
    qubit, registers as sets of logical qubits, joint state equal; internal
    numbering differs), or None with `what` describing the nearest order."""
    obs = rec["obs"]
    best = None
    for order, ref, hung in refs:
        if ref is None:
            continue
        if obs["outcomes"] == ref["outcomes"] and obs["phys"] == ref["phys"]:
            if obs["exact"] == ref["exact"]:
                return True, "exact", order, ""
            if obs["abstract"] == ref["abstract"]:
                best = (True, "abstract", order, first_diff(obs["exact"], ref["exact"]))
    if best:
        return best
    why = []
    for order, ref, hung in refs:
        if ref is None:
            why.append("order %s hangs when run alone" % order)
            continue
        d = first_diff({"outcomes": obs["outcomes"], "phys": obs["phys"], "abstract": obs["abstract"]},
                       {"outcomes": ref["outcomes"], "phys": ref["phys"], "abstract": ref["abstract"]})
        why.append("vs order %s: %s" % (order, d))
    return False, None, None, "; ".join(why)


def judge_c04(rec):
    """completion within the budget and no lock held at idle.  [] if fine,
    else [(symptom, what)]"""
    out = []
    if not rec["completed"]:
        h = rec["hang"]
        held = {n: f for n, f in h["locks"].items() if f["node"] or f["qubits"]}
        out.append(("hang", "operation(s) %s never completed (%s; locks held: %s; pending timers: %s)" % (
            h["unfired"], h["reason"], jkey(held), sorted(set(h["timers"])))))
        return out
    if not rec["settled"]:
        out.append(("not-quiescent", "all operations completed but timers re-arm for ever; lock flags %s" % jkey(
            {n: f for n, f in rec["obs"]["locks"].items() if f["node"] or f["qubits"] or f["waiting"]})))
    elif not rec["obs"]["locks_free"]:
        out.append(("lock-held-at-idle", "network idle, every operation completed, but locks stay held: %s" % jkey(
            {n: f for n, f in rec["obs"]["locks"].items() if f["node"] or f["qubits"] or f["waiting"]})))
    return out


# ---------------------------------------------------------------------------
# static description of ops on a placement; keys
# ---------------------------------------------------------------------------

def op_desc(ps, tag, op):
    """kind (coarse), variant (fine), issuer, labels, regs, footprint (nodes
    whose lock the op takes), moved (registers it moves), touched (nodes whose
    virtQubits list it mutates or whose handles it re-points), chain (nodes in
    the order a send takes their locks)"""
    n = node_of(tag)
    L, R = ps["labels"], ps["regs"]
    k = op[0]
    d = {"op": op, "tag": tag, "node": n, "labels": [], "regs": [], "foot": {n}, "moved": [], "touched": set(),
         "chain": None, "target": None}
    if k == "new":
        d.update(kind="new", variant="new", touched={n})
        return d
    labs = [op[1]] if k != "g2" else [op[1], op[2]]
    d["labels"] = labs
    if any(l not in L for l in labs):
        d.update(kind=k, variant=k + ":unplaced")
        return d
    d["regs"] = sorted({L[l]["reg"] for l in labs})
    sims = [L[l]["sim"] for l in labs]
    if k == "g1":
        d.update(kind="g1", variant="g1:" + ("L" if sims[0] == n else "R"), foot={sims[0]})
    elif k == "meas":
        kind = "measI" if op[2] else "measD"
        d.update(kind=kind, variant=kind + ":" + ("L" if sims[0] == n else "R"), foot={sims[0]},
                 touched=set() if op[2] else {n})
    elif k == "send":
        t = op[2]
        where = "self" if t == n else ("L" if sims[0] == n else ("R" if sims[0] == t else "T"))
        chain = [n] + ([sims[0]] if where == "T" else []) + [t]
        d.update(kind="send", variant="send:" + where, foot=set(chain), touched={n, t}, chain=chain, target=t)
    elif k == "g2":
        sc, st = sims
        same_reg = L[labs[0]]["reg"] == L[labs[1]]["reg"]
        if labs[0] == labs[1]:
            case = "same-qubit"
        elif sc == st:
            case = ("LL" if sc == n else "RR1") + ("s" if same_reg else "")
        elif sc == n:
            case, d["moved"] = "LR", [L[labs[1]]["reg"]]
        elif st == n:
            case, d["moved"] = "RL", [L[labs[0]]["reg"]]
        else:
            case, d["moved"] = "RR2", [L[labs[0]]["reg"], L[labs[1]]["reg"]]
        touched = set()
        for r in d["moved"]:
            touched |= set(R.get(r, []))
        d.update(kind="g2", variant="g2:" + case, foot={n, sc, st}, touched=touched)
    return d


_RANK = {"same-handle": 0, "same-reg": 1, "third-party": 2, "crossing": 3, "same-node": 4, "disjoint": 5}


def pair_relation(a, b):
    for x, y in ((a, b), (b, a)):
        if set(x["labels"]) & set(y["labels"]):
            return "same-handle"
    if set(a["regs"]) & set(b["regs"]):
        return "same-reg"
    for x, y in ((a, b), (b, a)):
        third = x["touched"] - {x["node"]}
        if x["moved"] and (y["node"] in third and y["kind"] in ("measD", "send", "new") or y["target"] in third):
            return "third-party"
    if a["node"] != b["node"] and a["node"] in b["foot"] and b["node"] in a["foot"] \
            and len(a["foot"]) > 1 and len(b["foot"]) > 1:
        return "crossing"
    if a["foot"] & b["foot"]:
        return "same-node"
    return "disjoint"


def relation(ds, focus=None):
    """(strongest relation that holds between two of the ops -- one of them in `focus` if given --, the ops
    that stand in it)"""
    best, who = "disjoint", set()
    for i, j in itertools.combinations(range(len(ds)), 2):
        if focus is not None and i not in focus and j not in focus:
            continue
        r = pair_relation(ds[i], ds[j])
        if _RANK[r] < _RANK[best]:
            best, who = r, {i, j}
        elif r == best:
            who |= {i, j}
    if not who:
        who = set(focus) if focus else set(range(len(ds)))
    return best, sorted(who)


def _roles(seqs):
    """rename node names by first appearance: A, B, C"""
    m = {}
    out = []
    for s in seqs:
        o = []
        for n in s:
            if n not in m:
                m[n] = "ABCDEFGH"[len(m)]
            o.append(m[n])
        out.append(o)
    return out


def send_cycle_key(ds, unfinished):
    """a send takes locks in the order own node -> (third-node simulator) -> receiver and never times out: the
    class of the wait-for cycle among the (unfinished) sends, or None"""
    sends = [d for i, d in enumerate(ds) if d["kind"] == "send" and (unfinished is None or i in unfinished)]
    if not sends:
        return None
    if any(d["target"] == d["node"] for d in sends):
        return "self-send"
    edges = collections.defaultdict(set)
    for d in sends:
        for x, y in zip(d["chain"], d["chain"][1:]):
            edges[x].add(y)

    def reach(a, b, seen):
        if a == b:
            return True
        seen.add(a)
        return any(reach(c, b, seen) for c in edges[a] if c not in seen)
    cyc = [d for d in sends if any(reach(y, x, set()) for x, y in zip(d["chain"], d["chain"][1:]))]
    if not cyc:
        return None
    if any(len(d["chain"]) > 2 for d in cyc):
        return "send-lock-cycle:third-simulator"
    # shortest cycle among plain sender -> receiver edges
    e2 = {(d["chain"][0], d["chain"][1]) for d in cyc}
    if any((y, x) in e2 for x, y in e2):
        return "crossing-sends:A->B||B->A"
    return "cyclic-sends:A->B||B->C||C->A"


def classify(prop, ds, rec, symptom):
    """stable key of a violation: (op kinds, placement relation, racing call site / symptom).  Root causes the
    lock monitor observes directly come first; then the named classes; otherwise
    `<op variants>:<relation>:<symptom>` over the ops that stand in the strongest relation."""
    unfinished = set(rec["hang"]["unfired"]) if rec.get("hang") else None
    if rec.get("unawaited"):
        # a two-qubit gate RETURNED to its client while its handle re-pointing call to another node was still on the wire
        # or unanswered (observed directly on the network)
        return "gate-returned-before-update_virtual_merge-answered:" + symptom
    if prop == "C04" and symptom in ("hang", "not-quiescent") and not rec["timeouts"]:
        k = send_cycle_key(ds, unfinished) or send_cycle_key(ds, None)
        if k:
            return k
    if rec["foreign"] and rec["timeouts"]:
        return "lock-nodes-timeout:foreign-release"
    if rec["foreign"]:
        # a node lock released by an operation that does not hold it although NO `_lock_nodes` time-out was ever taken:
        # not the open time-out finding (whose root cause is the time-out path's release of locks it was never granted)
        return "foreign-release-without-lock-nodes-timeout"
    if rec["timeouts"] and prop == "C04":
        if uncontended_leak(rec):
            # the time-out path itself loses a lock: nobody else ever asked for it
            return "lock-nodes-timeout:lock-lost-without-contention"
        return "lock-nodes-timeout:cancelled-request-leak"
    rel, who = relation(ds, unfinished)
    if prop == "C04" and rec.get("hang") and rel == "same-handle" and rec["hang"]["timers"] \
            and all("simulatedQubit.lock" in t for t in rec["hang"]["timers"]) \
            and not any(f["qubits"] for f in rec["hang"]["locks"].values()):
        # the operation polls the lock of a simulated-qubit object that no node lists any more (a merge moved the
        # register away and leaves the old objects locked); it reached that object through a handle that a
        # concurrent send / measurement of the SAME handle had already given away
        return "same-handle:stale-handle-waits-on-dead-qubit-lock"
    if rel == "same-handle":
        return "same-handle:%s%s" % ("||".join(sorted(ds[i]["kind"] for i in who)), "" if prop == "C03" else ":" + symptom)
    if prop == "C03" and rel == "third-party":
        return "merge-vs-third-party-list-mutation:update_virtual_merge"
    return "%s:%s:%s" % ("||".join(sorted(ds[i]["variant"] for i in who)), rel, symptom)


def classify_set(prop, ds, rec, symptom):
    """key for a set of ops.  For 3-4 ops: the generic key of the whole set plus, as candidates, the keys its pairs
    would get -- the caller attributes the failure to a pair-level key that is already established (known finding or
    found by the exhaustive pair exploration of the same run) and only otherwise reports the set's own key."""
    key = classify(prop, ds, rec, symptom)
    if len(ds) <= 2 or key.startswith(("lock-nodes-timeout", "crossing-sends", "self-send", "cyclic-sends", "send-lock-cycle")):
        return key
    cands = []
    pairs = sorted(itertools.combinations(range(len(ds)), 2), key=lambda ij: _RANK[pair_relation(ds[ij[0]], ds[ij[1]])])
    if prop == "C04" and rec.get("hang"):
        # victims hang because a lock is never released: if its last taker (lock monitor) has COMPLETED, that op
        # leaked it -- name the failure after the leaking op's pair, as the pair exploration does
        leakers = {o for o in rec.get("lock_owner", {}).values() if o in rec.get("done", [])}
        r2 = dict(rec, hang=None)
        for i, j in pairs:
            if i in leakers or j in leakers:
                k = classify(prop, [ds[i], ds[j]], r2, "lock-held-at-idle")
                if k not in cands:
                    cands.append(k)
    for i, j in pairs:
        if rec.get("hang") and i not in rec["hang"]["unfired"] and j not in rec["hang"]["unfired"]:
            continue
        r2 = dict(rec)
        if rec.get("hang"):
            r2["hang"] = dict(rec["hang"], unfired=[x for x, y in enumerate((i, j)) if y in rec["hang"]["unfired"]])
        k = classify(prop, [ds[i], ds[j]], r2, symptom)
        if k not in cands:
            cands.append(k)
    return "MULTI\t" + "\t".join([key] + cands)


def c03_symptom(rec, ok, what):
    return "not-wf" if ok else "no-serialisation"


# ---------------------------------------------------------------------------
# placements (sequential prefixes) and concurrent op sets
# ---------------------------------------------------------------------------

A, B, C = NODES


def placements():
    """name -> (prefix, size class).  Size class 0 = smallest (quick tier)."""
    P = collections.OrderedDict()
    P["local"] = ([["new", A, "a0"], ["new", A, "a1"], ["new", B, "b0"], ["new", C, "c0"],
                   ["g1", "a0", "H"], ["g1", "b0", "H"], ["g1", "a1", "X"]], 0)
    # A holds y (simulated at B), B holds x (simulated at A): merges in crossing directions
    P["cross"] = ([["new", A, "x"], ["g1", "x", "H"], ["send", "x", B], ["new", B, "y"], ["send", "y", A],
                   ["new", A, "a0"], ["new", B, "b0"], ["g1", "a0", "H"], ["g1", "b0", "X"]], 0)
    # one register simulated at A whose qubits are held by A, B and C (third parties of any merge of it)
    P["shared"] = ([["new", C, "c0"], ["new", A, "r0"], ["new", A, "r1"], ["new", A, "r2"], ["g1", "r0", "H"],
                    ["g2", "r0", "r1", "cnot"], ["g2", "r0", "r2", "cnot"], ["send", "r1", B], ["send", "r2", C],
                    ["new", B, "b0"], ["g1", "b0", "H"], ["g1", "c0", "H"]], 0)
    # qubits simulated at a third node
    P["third"] = ([["new", C, "u"], ["g1", "u", "H"], ["send", "u", A], ["new", C, "v"], ["send", "v", B],
                   ["new", A, "a0"], ["new", B, "b0"], ["new", C, "c0"], ["g1", "a0", "H"]], 1)
    # the F12 placement: C holds [c0 (local), r1, r2], r1 r2 in a register simulated at A that B's handle r0 shares
    P["f12"] = ([["new", C, "c0"], ["new", A, "r0"], ["new", A, "r1"], ["new", A, "r2"], ["g1", "r0", "H"],
                 ["g2", "r0", "r1", "cnot"], ["g2", "r0", "r2", "cnot"], ["send", "r0", B], ["send", "r1", C],
                 ["send", "r2", C], ["new", B, "b0"], ["g1", "b0", "H"], ["new", A, "a0"]], 1)
    # two registers at A and B, each with a holder at C; both remote from C's point of view
    P["both-remote"] = ([["new", A, "p0"], ["new", A, "p1"], ["g1", "p0", "H"], ["g2", "p0", "p1", "cnot"],
                         ["send", "p1", C], ["new", B, "q0"], ["new", B, "q1"], ["g1", "q0", "H"],
                         ["g2", "q0", "q1", "cnot"], ["send", "q1", C], ["new", C, "c0"]], 1)
    # two qubits of C simulated at A in different registers, and two in the same
    P["remote-pair"] = ([["new", A, "s0"], ["new", A, "s1"], ["g1", "s0", "H"], ["send", "s0", C], ["send", "s1", C],
                         ["new", A, "a0"], ["new", B, "b0"], ["new", C, "c0"]], 1)
    # the other half of F12 (4 nodes): C's list starts with d0, simulated at a FOURTH node, so that C's destructive
    # measurement of d0 holds only Dave's lock while B's merge (locks Alice, Bob) walks C's list
    P["f12-4"] = ([["new", "Dave", "d0"], ["send", "d0", C], ["new", A, "r0"], ["new", A, "r1"], ["new", A, "r2"],
                   ["g1", "r0", "H"], ["g2", "r0", "r1", "cnot"], ["g2", "r0", "r2", "cnot"], ["send", "r0", B],
                   ["send", "r1", C], ["send", "r2", C], ["new", B, "b0"], ["g1", "b0", "H"]], 2)
    return P


def capacity_case():
    """max_qubits = 2: creations and arrivals race for the last slot"""
    return {"name": "capacity", "nodes": NODES, "max_qubits": 2,
            "prefix": [["new", A, "a0"], ["new", B, "b0"], ["new", B, "b1"], ["new", C, "c0"], ["g1", "a0", "H"]]}


def all_ops(ps, nodes=NODES, self_send=True, second_clients=()):
    """every operation instance on a placement: (tag, op)"""
    L = ps["labels"]
    ops = []
    for n in nodes:
        ops.append((n, ["new", n, "n" + n[0].lower()]))
    for lab in sorted(L):
        h = L[lab]["holder"]
        ops.append((h, ["g1", lab, "H"]))
        ops.append((h, ["meas", lab, 1]))
        ops.append((h, ["meas", lab, 0]))
        for t in nodes:
            if t != h or self_send:
                ops.append((h, ["send", lab, t]))
        for lab2 in sorted(L):
            if lab2 != lab and L[lab2]["holder"] == h:
                ops.append((h, ["g2", lab, lab2, "cnot"]))
    return ops


def pair_signature(ps, x, y, fine=True):
    """canonical form of a pair of op instances up to renaming of nodes / labels / registers (fine: the position
    of each handle in its node's list is part of the class)"""
    best = None
    for a, b in ((x, y), (y, x)):
        nm, lm, rm = {}, {}, {}

        def N(n):
            return nm.setdefault(n, "N%d" % len(nm))

        def Lb(l):
            return lm.setdefault(l, "q%d" % len(lm))

        def Rg(r):
            return rm.setdefault(r, "r%d" % len(rm))
        parts = []
        for tag, op in (a, b):
            d = op_desc(ps, tag, op)
            item = [d["variant"], N(d["node"])]
            for l in d["labels"]:
                info = ps["labels"].get(l)
                if info:
                    item.append([Lb(l), N(info["holder"]), N(info["sim"]), Rg(info["reg"]), info.get("index", 0) if fine else 0,
                                 sorted(N(h) for h in ps["regs"][info["reg"]])])
            if d["target"]:
                item.append(N(d["target"]))
            parts.append(item)
        s = jkey(parts)
        if best is None or s < best:
            best = s
    return best


def with_tags(ops):
    """[(node, op)] -> [[tag, op]]: the i-th op issued at a node gets that node's i-th client connection;
    created qubits get distinct labels"""
    seen = collections.Counter()
    out = []
    for node, op in ops:
        node = node_of(node)
        seen[node] += 1
        tag = node if seen[node] == 1 else "%s#%d" % (node, seen[node])
        op = list(op)
        if op[0] == "new" and seen[node] > 1:
            op[2] = "%s%d" % (op[2], seen[node])
        out.append([tag, op])
    return out


def coins_for(labels, rng):
    return {"default": rng.randrange(2), "by": {l: [rng.randrange(2), rng.randrange(2)] for l in sorted(labels)}}


# ---------------------------------------------------------------------------
# tasks (executed in worker processes)
# ---------------------------------------------------------------------------

class Out:
    """what a task returns (plain data)"""

    def __init__(self):
        self.counts = collections.Counter()
        self.n = self.completed = self.judged = self.abstract_only = 0
        self.hashes = set()
        self.viol = {}              # key -> [size, what, replay, count]
        self.samples = []
        self.notes = []
        self.wall = 0.0
        self.deliveries = 0

    def violation(self, key, size, what, replay):
        cur = self.viol.get(key)
        if cur is None:
            self.viol[key] = [size, what, replay, 1]
        else:
            cur[3] += 1
            if size < cur[0]:
                cur[0], cur[1], cur[2] = size, what, replay


def spec_size(spec):
    if spec["kind"] == "phases":
        return sum(n for _, n in spec["phases"]) + len(spec["phases"])
    if spec["kind"] == "timer":
        return 5 + len(spec["at"]) + min(spec["at"] or [0]) + spec_size(spec["base"])
    if spec["kind"] == "fifo":
        return 0
    if spec["kind"] == "holdconn":
        return 2 + len(spec["conns"]) + (1 if spec.get("rev") else 0)
    if spec["kind"] == "hold":
        return 2 + (1 if spec.get("linger") else 0) + (1 if spec.get("rev") else 0) + spec.get("nth", 0)
    return 1000


def judge_into(out, prop, case, ds, spec, rec, refs, label):
    """judge one executed schedule for `prop`, record counts and violations"""
    out.n += 1
    out.deliveries += rec["nactions"] + rec["prefix_actions"]
    h = jhash([case["conc"], case.get("host_order"), case.get("backoff", [0])[:2], rec["actions"]] +
              ([case["bringup"]] if case.get("bringup") else []) + (["chain"] if case.get("chain") else []))
    new = h not in out.hashes
    out.hashes.add(h)
    out.counts["%s|%s" % (label, spec_kind(spec))] += 1
    if rec["completed"]:
        out.completed += 1
        if os.environ.get("VERIF_SCHED_GAPS") and rec.get("idle_gap", 0.0) >= 10:
            with open(os.environ["VERIF_SCHED_GAPS"], "a") as f:
                f.write(jkey({"case": case, "spec": spec, "idle_gap": rec["idle_gap"], "hold_gap": rec["hold_gap"],
                              "vt": rec["virtual_time"], "timeouts": len(rec["timeouts"]), "label": label}) + "\n")
        for what, g in (("with locks held", rec.get("idle_gap", 0.0)), ("with ONE lock acquisition held", rec.get("hold_gap", 0.0))):
            if g >= 10:
                out.counts["~completed although no operation completed for %s virtual s %s (only timers firing)" % (
                    ">= 100" if g >= 100 else ">= 60" if g >= 60 else ">= 30" if g >= 30 else ">= 20" if g >= 20 else ">= 10", what)] += 1
    if rec["timeouts"]:
        out.counts["~lock_nodes time-out path taken"] += 1
    if rec["foreign"]:
        out.counts["~foreign release observed by the lock monitor"] += 1
    if not new:
        out.counts["~duplicate schedule (same action list)|" + spec_kind(spec)] += 1
        return
    fails = []
    if prop == "C04":
        out.judged += 1
        for sym, what in judge_c04(rec):
            fails.append((classify_set("C04", ds, rec, sym), sym, what))
    else:
        if not rec["completed"] or not rec["settled"]:
            out.counts["~not judged for C03: did not complete (C04's domain)"] += 1
            return
        out.judged += 1
        ok, level, order, what = judge_c03(rec, refs)
        if ok and level == "abstract":
            out.abstract_only += 1
            out.counts["~matches a serial order only up to internal numbering"] += 1
            if len(out.notes) < 3:
                out.notes.append("numbering-only difference: %s under %s: %s" % (jkey(case["conc"]), jkey(spec), what))
        wf = rec["obs"]["wf"]
        if wf and ok:
            # not well formed although it equals a serial run: then the serial run is not well formed either
            ref = next(r for o, r, hg in refs if o == order)
            if ref["wf"] == wf:
                out.counts["~serial reference itself not well formed (sequential defect, not C03)"] += 1
                wf = []
        if not ok or wf:
            sym = c03_symptom(rec, ok, what)
            text = ("no order of the operations, run one after the other, gives these outcomes/state: %s" % what) if not ok \
                else "equals serial order %s but the bookkeeping is not well formed" % (order,)
            if rec["obs"]["wf"]:
                text += "; not well formed at quiescence: %s" % ",".join(rec["obs"]["wf"])
            fails.append((classify_set("C03", ds, rec, sym), sym, "outcomes %s; %s" % (rec["obs"]["outcomes"], text)))
    for key, sym, what in fails:
        kinds = " || ".join("%s@%s %s" % (d["variant"], d["tag"], jkey(d["op"])) for d in ds)
        if rec.get("bringup"):
            b = rec["bringup"]
            kinds += "; issued during bring-up while %s not up yet (came up at %s)" % (
                ", ".join(b["missing_at_issue"]) or "nothing",
                ", ".join("%s->%s t=%.2f s" % (a, t_, tm) for tm, a, t_, ok in b["connection_attempts"]
                          if ok and "%s->%s" % (a, t_) in b["missing_at_issue"]) or "never")
        replay = {"case": case, "spec": spec, "actions": rec["actions"], "symptom": sym,
                  "observed": {"outcomes": rec["obs"]["outcomes"], "wf": rec["obs"]["wf"], "completed": rec["completed"],
                               "locks_at_idle": {n: f for n, f in rec["obs"]["locks"].items()
                                                 if f["node"] or f["qubits"] or f["waiting"]},
                               "lock_nodes_timeouts": rec["timeouts"], "foreign_releases": rec["foreign"],
                               "calls_undelivered_when_gate_returned": rec.get("unawaited") or [],
                               "bringup": rec.get("bringup"), "gave_up": (rec.get("hang") or {}).get("reason"),
                               "list_mutations_without_node_lock": rec["unguarded"][:6],
                               "backoff_draws": rec["backoff_log"], "coins": rec["coin_trace"]}}
        size = (len(case["conc"]), len(case["prefix"]), spec_size(spec), len(rec["actions"]))
        out.violation(key, size, "[%s] %s" % (kinds, what), replay)


def run_grid(go, solo, bound, rng, cap2):
    """delay injection for two ops: op q is held after its k-th delivery until op p has had j deliveries, for all
    (k, j) and both roles.  Rows / columns that would repeat a schedule already run (the held op was blocked or
    finished before its k-th message; p was blocked or finished before its j-th) are not run again."""
    for p, q in ((0, 1), (1, 0)):
        P, Q = solo[p], solo[q]
        k = 0
        while k <= 3 * Q + 10:
            stop = False
            j = 1
            while j <= 3 * P + 10:
                rec = go({"kind": "phases", "phases": [[q, k], [p, j]], "tail": [q, p]})
                e0 = [c for i, c in rec["early"] if i == 0]
                e1 = [c for i, c in rec["early"] if i == 1]
                if e0 or (rec["done_at"] and q in rec["done_at"][0]):
                    stop = True            # q could not be held later than this: larger k repeat this row
                    break
                if e1:
                    break
                j += 1
            if stop:
                break
            k += 1
    if bound >= 2:
        extra = []
        for p, q in ((0, 1), (1, 0)):
            P, Q = solo[p], solo[q]
            for k1 in range(0, Q):
                for j1 in range(1, P):
                    for k2 in range(1, Q - k1 + 1):
                        for j2 in range(1, P - j1 + 1):
                            extra.append({"kind": "phases", "phases": [[q, k1], [p, j1], [q, k2], [p, j2]], "tail": [q, p]})
        if len(extra) > cap2:
            extra = rng.sample(extra, cap2)
        for spec in extra:
            go(spec)


def run_task(task):
    t0 = time.time()
    out = Out()
    try:
        _run_task(task, out)
    except Exception:                 # a harness failure must not look like a pass
        import traceback
        out.notes.append("HARNESS-ERROR in task %s: %s" % (jkey(task.get("conc"))[:200], traceback.format_exc()[-600:]))
        out.counts["~harness errors"] += 1
    out.wall = time.time() - t0
    return out


def _run_slow_grant(task, out):
    """directed family "slow grant" (ONE two-qubit gate, no contention): for each remote node whose lock
    `_lock_nodes` requests, the request / the reply (lock granted, grant on the wire) is held past the back-off
    time-out (scripted: the smallest and the largest draw), then the network is fast again"""
    prop, ps, label = task["prop"], task["ps"], task["label"]
    base = dict(task["case"])
    base["conc"] = task["conc"]
    ds = [op_desc(ps, tag, op) for tag, op in base["conc"]]
    d = ds[0]
    remote = sorted(d["foot"] - {d["node"]})
    nodes = base.get("nodes", NODES)
    for host_order in (None, list(reversed(nodes))):
        for draw in (1.0, 4.0):
            case = dict(base)
            if host_order:
                case["host_order"] = host_order
            case["backoff"] = [draw] + BACKOFF_DISTINCT
            refs = serial_refs(case) if prop == "C03" else None
            lab = "%s%s|first back-off draw %.0f s" % (label, "|rev-host-order" if host_order else "", draw)
            for peer in remote:
                for what in ("reply", "request"):
                    for nth in ((0, 1) if task.get("deep") else (0,)):
                        for linger in (False, True):
                            spec = {"kind": "hold", "conn": "%s->%s" % (d["node"], peer), "what": what, "nth": nth,
                                    "linger": linger}
                            rec = run_schedule(case, spec)
                            judge_into(out, prop, case, ds, spec, rec, refs, lab)
                            if rec["early"]:
                                out.counts["~slow grant: the held message never appeared / no time-out fired while it was held"] += 1
    if len(out.samples) < 1:
        out.samples.append({"placement": base.get("name"), "conc": base["conc"], "schedules": out.n, "family": "slow-grant"})


def _run_conn_wait(task, out):
    """directed family "operations waiting for one missing connection" (partial bring-up): the operations are
    issued while a directed connection they all need is still being retried; it comes up while they wait"""
    prop, ps, label = task["prop"], task["ps"], task["label"]
    rng = random.Random(task["seed"])
    case = dict(task["case"])
    case["conc"] = task["conc"]
    case["backoff"] = BACKOFF_DISTINCT
    ds = [op_desc(ps, tag, op) for tag, op in case["conc"]]
    nops = len(case["conc"])
    refs = serial_refs(case) if prop == "C03" else None

    def go(spec):
        rec = run_schedule(case, spec)
        judge_into(out, prop, case, ds, spec, rec, refs, label)
        return rec
    fifo = go({"kind": "fifo"})
    go({"kind": "fifo", "rev": True})
    others = lambda i: [j for j in range(nops) if j != i]
    for i in range(nops):
        # op i gets k messages ahead, then the others run as far as they can (they reach their wait first)
        for k in range(0, task.get("hold", 4)):
            rec = go({"kind": "phases", "phases": [[i, k]], "tail": others(i) + [i]})
            if [c for ph, c in rec["early"] if ph == 0]:
                break
    specs = []
    ts = fifo["timer_steps"]
    for s_ in (rng.sample(ts, task.get("timers", 6)) if len(ts) > task.get("timers", 6) else ts):
        specs.append({"kind": "timer", "base": {"kind": "fifo"}, "at": [s_], "mode": "one"})
    for s_ in range(task.get("pct", 4)):
        specs.append({"kind": "pct", "seed": rng.randrange(1 << 30), "depth": 1 + s_ % 3, "len": 40, "tp": 0.05 if s_ % 4 == 3 else 0.0})
    for spec in specs:
        go(spec)
    if len(out.samples) < 1:
        out.samples.append({"placement": case.get("name"), "conc": case["conc"], "schedules": out.n, "family": "conn-wait",
                            "bringup": case.get("bringup")})


def _run_behind_gate(task, out):
    """directed family "operation behind a completed gate": op 0 is a two-qubit gate that pulls a register one of whose
    qubits is held by a THIRD node T (neither the gate's node nor the old simulator); everything the new simulator
    (variant: the old one; both) sends to T is held while anything else can be delivered (HeldConnPolicy).  op 1 is an
    operation of T's client on T's handle of that register, (chain) issued when the gate has RETURNED -- the only
    admissible serial order is then gate; op 1 -- or (no chain) issued together with the gate.  On the unchanged code
    the gate awaits T's answer, so it cannot return while the call is held: the chained schedule is a sequential one."""
    prop, ps, label = task["prop"], task["ps"], task["label"]
    base = dict(task["case"])
    base["conc"] = task["conc"]
    ds = [op_desc(ps, tag, op) for tag, op in base["conc"]]
    nodes = base.get("nodes", NODES)
    for chain in ((True, False) if task.get("concurrent") else (True,)):
        for host_order in (None, list(reversed(nodes))):
            case = dict(base)
            if chain:
                case["chain"] = True
            if host_order:
                case["host_order"] = host_order
            case["backoff"] = BACKOFF_DISTINCT
            refs = serial_refs(case) if prop == "C03" else None
            lab = "%s|%s%s" % (label, "issued when the gate has returned" if chain else "issued with the gate",
                               "|rev-host-order" if host_order else "")
            for conns in task["conns"]:
                spec = {"kind": "holdconn", "conns": conns, "until": 0, "patience": 3}
                rec = run_schedule(case, spec)
                judge_into(out, prop, case, ds, spec, rec, refs, lab)
                if rec["behind"] is not None:
                    out.counts["~the gate returned while calls to the third node were still held"] += 1
                elif chain:
                    out.counts["~the gate waits for the held call (the schedule is a sequential one)"] += 1
    if len(out.samples) < 1:
        out.samples.append({"placement": base.get("name"), "conc": base["conc"], "schedules": out.n, "family": "behind-gate"})


def _run_task(task, out):
    if task.get("family") == "behind-gate":
        return _run_behind_gate(task, out)
    if task.get("family") == "slow-grant":
        return _run_slow_grant(task, out)
    if task.get("family") == "conn-wait":
        return _run_conn_wait(task, out)
    prop, ps, label = task["prop"], task["ps"], task["label"]
    rng = random.Random(task["seed"])
    base = dict(task["case"])
    base["conc"] = task["conc"]
    ds = [op_desc(ps, tag, op) for tag, op in base["conc"]]
    nops = len(base["conc"])
    has_g2 = any(d["kind"] == "g2" and len(d["foot"]) > 1 for d in ds)
    variants = [(None, BACKOFF_DISTINCT, "")]
    if has_g2 and task.get("host_orders", True):
        variants.append((list(reversed(base.get("nodes", NODES))), BACKOFF_DISTINCT, "|rev-host-order"))
    if has_g2 and task.get("equal_backoff", False):
        variants.append((None, BACKOFF_EQUAL, "|equal-backoff"))
    for host_order, backoff, vtag in variants:
        case = dict(base)
        if host_order:
            case["host_order"] = host_order
        case["backoff"] = backoff
        refs = serial_refs(case) if prop == "C03" else None
        if refs is not None and all(r is None for _, r, _ in refs):
            out.counts["~every serial order hangs (C04's domain)"] += 1
        lab = label + vtag

        def go(spec):
            rec = run_schedule(case, spec)
            judge_into(out, prop, case, ds, spec, rec, refs, lab)
            return rec
        fifo = go({"kind": "fifo"})
        go({"kind": "fifo", "rev": True})
        specs = []
        if nops == 2 and task.get("grid", 1) and not vtag.startswith("|equal"):
            solo = []
            for i in range(2):
                c1 = dict(case)
                c1["conc"] = [case["conc"][i]]
                r1 = run_schedule(c1, {"kind": "fifo"})
                solo.append(max(int(r1["steps_of"].get("0", 0)), int(fifo["steps_of"].get(str(i), 0))) if r1["completed"]
                            else max(2, int(fifo["steps_of"].get(str(i), 2))))

            def go_grid(spec):
                rec = go(spec)
                if task.get("timer_on_grid") and has_g2 and rec["timer_steps"] and rng.random() < 0.1:
                    go({"kind": "timer", "base": spec, "at": [rng.choice(rec["timer_steps"])], "mode": "lock_nodes"})
                return rec
            run_grid(go_grid, solo, task.get("grid", 1) if not vtag else 1, rng, task.get("cap2", 40))
        if task.get("timer", True):
            ts = fifo["timer_steps"]
            for s in ts:
                specs.append({"kind": "timer", "base": {"kind": "fifo"}, "at": [s], "mode": "one"})
                if has_g2:
                    specs.append({"kind": "timer", "base": {"kind": "fifo"}, "at": [s], "mode": "lock_nodes"})
            if task.get("timer2", False) and not vtag:
                two = list(itertools.combinations(ts, 2))
                for s1, s2 in (rng.sample(two, 12) if len(two) > 12 else two):
                    specs.append({"kind": "timer", "base": {"kind": "fifo"}, "at": [s1, s2], "mode": "one"})
        for s in range(task.get("pct", 0)):
            specs.append({"kind": "pct", "seed": rng.randrange(1 << 30), "depth": 1 + s % 3, "len": 40,
                          "tp": 0.05 if s % 4 == 3 else 0.0})
        for s in range(task.get("rand", 0)):
            specs.append({"kind": "rand", "seed": rng.randrange(1 << 30), "tp": 0.1 if s % 2 else 0.0})
        cap = task.get("cap")
        if cap and len(specs) > cap:
            specs = rng.sample(specs, cap)
        for spec in specs:
            go(spec)
    if len(out.samples) < 1:
        out.samples.append({"placement": base.get("name"), "conc": base["conc"], "schedules": out.n})


# ---------------------------------------------------------------------------
# planning
# ---------------------------------------------------------------------------

def placement_state(case):
    ex = Exec(dict(case, conc=[]))
    ex.prefix()
    return ex.pre_state()


def conn_wait_cases():
    """partial bring-up (`SimNet(..., bringup=spec)`: the nodes start one after the other, a connect attempt towards a
    peer that does not listen yet is refused and retried every conn_retry_time = 0.5 s by the node itself): the
    placement is built and the operations are issued while directed connections are still missing.
    -> [(case, [(node, op)])]; every listed operation needs -- itself or through the node it calls -- a missing
    connection and waits for it in `get_connection`; no prefix operation needs one."""
    prefix = [["new", A, "a0"], ["new", A, "a1"], ["new", A, "a2"], ["new", C, "u"], ["send", "u", A],
              ["new", A, "v"], ["send", "v", C], ["new", B, "b0"], ["new", C, "c0"], ["g1", "a0", "H"], ["g1", "u", "H"]]
    ops = [(A, ["send", "a0", B]),            # sender waits before taking any lock
           (A, ["send", "a1", B]),
           (A, ["send", "u", B]),             # u is simulated at Charlie
           (A, ["g2", "a2", "u", "cnot"]),    # merge at Alice; the update broadcast needs Bob (locks of Alice, Charlie held)
           (B, ["send", "b0", A]),            # arrival: Alice's add_qubit needs her connection to Bob (Bob's lock held)
           (C, ["send", "v", B]),             # v is simulated at Alice: her transfer_qubit needs Bob (locks of Charlie, Alice held)
           (C, ["g2", "c0", "v", "cnot"])]    # merge at Charlie; the update broadcast needs Bob
    out = []
    # Alice 0, Charlie 0.1, Bob 0.55; program at 0.6: only Alice -> Bob is missing (her retry at 0.5 was refused; up at 1.0)
    out.append(({"name": "bringup:A->B", "nodes": NODES, "max_qubits": 5, "prefix": prefix,
                 "bringup": {"start": {A: 0.0, C: 0.1, B: 0.55}, "at": 0.6}}, ops))
    # Charlie 0, Alice 0.1, Bob 0.75; program at 0.75: Charlie -> Bob (up at 1.0) and Alice -> Bob (up at 1.1) are missing
    out.append(({"name": "bringup:late-Bob", "nodes": NODES, "max_qubits": 5, "prefix": prefix,
                 "bringup": {"start": {C: 0.0, A: 0.1, B: 0.75}, "at": 0.75}}, ops + [(C, ["send", "c0", B])]))
    return out


def trio_cases():
    """three qubits simulated at Bob, two of them held by Alice (in different registers / in one register), the third by
    Charlie: a two-qubit gate of Alice on her two handles names ONE remote node twice (control's and target's simulator)
    while Charlie's operation needs the same node's lock for a different handle"""
    out = []
    for name, ent in (("trio", []), ("trio-same-reg", [["g1", "t0", "H"], ["g2", "t0", "t1", "cnot"]])):
        out.append({"name": name, "nodes": NODES, "max_qubits": 5,
                    "prefix": [["new", B, "t0"], ["new", B, "t1"], ["new", B, "t2"], ["g1", "t2", "X"]] + ent +
                              [["send", "t0", A], ["send", "t1", A], ["send", "t2", C], ["new", C, "c0"], ["g1", "c0", "H"]]})
    return out


def family_tasks(prop, thorough, rng, placed):
    """the directed families (run first, never skipped for time).  placed: [(case, ps, ops)] of the placements"""
    tasks = []
    seen = set()
    # ---- slow grant: ONE two-qubit gate that needs a remote node lock -----------------------------------------
    placed = list(placed)
    have = {c["name"] for c, _, _ in placed}
    for name, (prefix, size) in placements().items():
        if name not in have and size <= 1:          # every merge case of a two-qubit gate, in the quick tier too
            case = {"name": name, "nodes": NODES, "max_qubits": 5, "prefix": prefix}
            ps = placement_state(case)
            placed.append((dict(case, coin=coins_for(ps["labels"], rng)), ps, all_ops(ps, case["nodes"], self_send=False)))
    for case, ps, ops in placed:
        for x in ops:
            if x[1][0] != "g2":
                continue
            d = op_desc(ps, x[0], x[1])
            if len(d["foot"]) < 2:
                continue
            sig = pair_signature(ps, x, x, thorough)
            if sig in seen:
                continue
            seen.add(sig)
            tasks.append({"prop": prop, "case": case, "ps": ps, "conc": with_tags([x]), "seed": rng.randrange(1 << 30),
                          "label": "slow grant|%s|%s" % (d["variant"], case["name"]), "family": "slow-grant",
                          "deep": thorough, "cost": 10 ** 6})
    # ---- operation behind a completed gate: every merge with a third-node holder ------------------------------------
    for case, ps, ops in placed:
        L, R = ps["labels"], ps["regs"]
        for x in ops:
            if x[1][0] != "g2":
                continue
            d = op_desc(ps, x[0], x[1])
            for reg in d["moved"]:
                old = reg.split("/")[0]
                for third in sorted(set(R.get(reg, [])) - d["foot"]):
                    mine = [l for l in sorted(L) if L[l]["reg"] == reg and L[l]["holder"] == third]
                    for y in ops:
                        if node_of(y[0]) != third or y[1][0] == "new" or not (set(mine) & set(y[1][1:3] if y[1][0] == "g2" else y[1][1:2])):
                            continue
                        sig = "behind|" + pair_signature(ps, x, x, thorough) + "|" + pair_signature(ps, y, y, thorough) + "|" + \
                            jkey([L[l]["index"] for l in mine])
                        if sig in seen:
                            continue
                        seen.add(sig)
                        conc = with_tags([x, y])
                        d2 = op_desc(ps, conc[1][0], conc[1][1])
                        conns = [["%s->%s" % (d["node"], third)], ["%s->%s" % (old, third)],
                                 ["%s->%s" % (d["node"], third), "%s->%s" % (old, third)]]
                        tasks.append({"prop": prop, "case": case, "ps": ps, "conc": conc, "seed": rng.randrange(1 << 30),
                                      "label": "behind a completed gate|%s then %s|%s" % (d["variant"], d2["variant"], case["name"]),
                                      "family": "behind-gate", "conns": conns, "concurrent": BEHIND_CONCURRENT, "cost": 10 ** 6})
    # ---- one remote node twice in a gate's lock list || a third party's operation simulated at that node -------------------
    for case in (trio_cases() if thorough else trio_cases()[:1]):
        ps = placement_state(case)
        case = dict(case, coin=coins_for(ps["labels"], rng))
        ops = all_ops(ps, case["nodes"], self_send=False)
        L = ps["labels"]
        for x in ops:
            d = op_desc(ps, x[0], x[1])
            if not d["variant"].startswith("g2:RR1") or x[1][1] > x[1][2]:
                continue
            sim = L[x[1][1]]["sim"]
            for y in ops:
                d2 = op_desc(ps, y[0], y[1])
                if d2["node"] in (d["node"], sim) or sim not in d2["foot"] or set(d2["labels"]) & set(d["labels"]):
                    continue
                if d2["kind"] == "g2" and not thorough:
                    continue                 # (two contending gates: the time-out paths dominate the cost)
                conc = with_tags([x, y])
                tasks.append({"prop": prop, "case": case, "ps": ps, "conc": conc, "seed": rng.randrange(1 << 30),
                              "label": "one remote node twice in the gate's lock list|%s || %s|%s" % (d["variant"], d2["variant"], case["name"]),
                              "grid": 2 if thorough else 1, "cap2": 40, "timer": True, "timer2": False, "timer_on_grid": False,
                              "equal_backoff": False, "host_orders": thorough, "pct": 0, "rand": 0, "cost": 10 ** 6 - 1})
    # ---- concurrent operations waiting for one missing connection --------------------------------------------------
    for case, ops in conn_wait_cases():
        ps = placement_state(case)
        if set(ps.get("missing", [])) == set():
            raise core.MachineryError("bring-up placement %s: no connection is missing when the operations are issued" % case["name"])
        case = dict(case, coin=coins_for(ps["labels"], rng))
        sets = [list(c) for c in itertools.combinations(ops, 2)]
        triples = [list(c) for c in itertools.combinations(ops, 3)]
        sets += triples if thorough else rng.sample(triples, min(len(triples), 10))
        for chosen in sets:
            labs = [l for _, o in chosen for l in (o[1:3] if o[0] == "g2" else o[1:2])]
            if len(set(labs)) != len(labs):
                continue                     # different handles only
            conc = with_tags(chosen)
            ds = [op_desc(ps, t, o) for t, o in conc]
            tasks.append({"prop": prop, "case": case, "ps": ps, "conc": conc, "seed": rng.randrange(1 << 30),
                          "label": "waiting for a missing connection|%s|%s|%s" % (
                              " || ".join(sorted(d["variant"] for d in ds)), relation(ds)[0], case["name"]),
                          "family": "conn-wait", "hold": 6 if thorough else 4, "timers": 12 if thorough else 6,
                          "pct": 12 if thorough else 4, "cost": 10 ** 6})
    return tasks


def plan(prop, thorough, rng, scale=1.0):
    """the list of tasks of one check run"""
    tasks = []
    seen = set()
    cases = []
    placed = []
    frng = random.Random(jhash([str(x) for x in rng.getstate()[1][:8]]))     # (the families draw nothing from `rng`)
    for name, (prefix, size) in placements().items():
        if size == 0 or (thorough and size == 1):
            cases.append(({"name": name, "nodes": NODES, "max_qubits": 5, "prefix": prefix}, None))
    cases.append((capacity_case(), ("new", "send", "meas")))
    for case, only in cases:
        ps = placement_state(case)
        case = dict(case, coin=coins_for(ps["labels"], rng))
        ops = [x for x in all_ops(ps, case["nodes"]) if only is None or x[1][0] in only]
        if only:
            ops = [x for x in ops if not (x[1][0] == "meas" and x[1][2] == 1)]
        selfsend = [x for x in ops if x[1][0] == "send" and x[1][2] == node_of(x[0])]
        ops = [x for x in ops if x not in selfsend]
        placed.append((case, ps, ops))
        # single operations (C04: "operations addressed to the issuing node itself"; timer races of one op)
        for x in ops + selfsend:
            sig = "solo|" + pair_signature(ps, x, x, thorough)
            if sig in seen:
                continue
            seen.add(sig)
            d = op_desc(ps, x[0], x[1])
            if prop == "C03" and x in selfsend:
                continue
            tasks.append({"prop": prop, "case": case, "ps": ps, "conc": with_tags([x]), "seed": rng.randrange(1 << 30),
                          "label": "1op %s|%s" % (d["variant"], case["name"]), "grid": 0, "timer": True, "timer2": thorough,
                          "cost": 10})
        # pairs
        for x, y in itertools.combinations_with_replacement(ops, 2):
            sig = pair_signature(ps, x, y, thorough)
            if sig in seen:
                continue
            seen.add(sig)
            conc = with_tags([x, y])
            ds = [op_desc(ps, t, o) for t, o in conc]
            label = "%s|%s|%s" % (" || ".join(sorted(d["variant"] for d in ds)), relation(ds)[0], case["name"])
            g2 = sum(d["kind"] == "g2" for d in ds)
            tasks.append({"prop": prop, "case": case, "ps": ps, "conc": conc, "seed": rng.randrange(1 << 30),
                          "label": label, "grid": 2 if thorough else 1, "cap2": int(40 * scale), "timer": True,
                          "timer2": thorough, "timer_on_grid": thorough, "equal_backoff": g2 > 0,
                          "host_orders": True, "pct": 0, "rand": 4 if thorough else 0,
                          "cost": 60 + 400 * g2})
        # 3-4 operations, sampled
        nsets = int((250 if thorough else 40) * scale)
        for _ in range(nsets):
            k = rng.choice((3, 3, 4))
            # bias towards conflicts: pick a seed op, then ops sharing a node of its footprint
            first = rng.choice(ops)
            d0 = op_desc(ps, first[0], first[1])
            near = [x for x in ops if op_desc(ps, x[0], x[1])["foot"] & d0["foot"]]
            chosen = [first]
            while len(chosen) < k:
                x = rng.choice(near if near and rng.random() < 0.7 else ops)
                if sum(1 for c in chosen if node_of(c[0]) == node_of(x[0])) >= 2:
                    continue
                chosen.append(x)
            conc = with_tags(chosen)
            if rng.random() < 0.3:          # one client issues two of them in a row
                tags = [t for t, _ in conc]
                i, j = sorted(rng.sample(range(len(conc)), 2))
                if node_of(tags[i]) == node_of(tags[j]):
                    conc[j][0] = conc[i][0]
            ds = [op_desc(ps, t, o) for t, o in conc]
            tasks.append({"prop": prop, "case": case, "ps": ps, "conc": conc, "seed": rng.randrange(1 << 30),
                          "label": "%dops|%s|%s" % (len(conc), relation(ds)[0], case["name"]), "grid": 0, "timer": True,
                          "pct": 16 if thorough else 8, "rand": 8 if thorough else 4, "cap": 40 if thorough else 16,
                          "host_orders": False, "cost": 40})
    return family_tasks(prop, thorough, frng, placed) + tasks


def run_tasks(tasks, wall_budget, procs=None):
    """-> (list of Out in task order (None = not run), wall seconds)"""
    t0 = time.time()
    if procs is None:
        procs = int(os.environ.get("VERIF_PROCS", "0")) or max(1, min(14, (os.cpu_count() or 2) - 2))
    Exec({"prefix": [], "conc": []})        # boot (scratch copy, fake reactor, imports) before forking
    order = sorted(range(len(tasks)), key=lambda i: -tasks[i].get("cost", 1))
    outs = [None] * len(tasks)
    if procs == 1 or len(tasks) < 4:
        for i in order:
            if time.time() - t0 > wall_budget:
                break
            outs[i] = run_task(tasks[i])
        return outs, time.time() - t0
    with multiprocessing.get_context("fork").Pool(procs) as pool:
        it = pool.imap_unordered(_indexed, [(i, tasks[i]) for i in order], chunksize=1)
        try:
            while True:
                left = wall_budget - (time.time() - t0)
                if left <= 0:
                    break
                try:
                    i, o = it.next(timeout=left)
                except StopIteration:
                    break
                except multiprocessing.TimeoutError:
                    break
                outs[i] = o
        finally:
            pool.terminate()
    return outs, time.time() - t0


def _indexed(a):
    return a[0], run_task(a[1])


# ---------------------------------------------------------------------------
# directed witnesses of the known findings (run on every check)
# ---------------------------------------------------------------------------

def witnesses(prop):
    """key -> [(case, spec)]: the minimal directed scenarios of each finding this module knows.  A finding entry
    in known_findings.json may carry its own "witness": {"case", "spec"}, which is run as well."""
    P = placements()
    W = collections.defaultdict(list)
    local, cross, f12, shared = P["local"][0], P["cross"][0], P["f12"][0], P["shared"][0]
    holder = {"name": "holder", "prefix": P["remote-pair"][0],
              "conc": [[A, ["lock", A]], [A, ["sleep", 2.6]], [A, ["unlock", A]], [C, ["g2", "s0", "s1", "cnot"]]]}
    xmerge = {"name": "cross", "prefix": cross, "conc": [[A, ["g2", "a0", "y", "cnot"]], [B, ["g2", "b0", "x", "cnot"]]]}
    if prop == "C04":
        W["crossing-sends:A->B||B->A"].append(({"name": "local", "prefix": local[:3], "conc": [[A, ["send", "a0", B]], [B, ["send", "b0", A]]]},
                                               {"kind": "fifo"}))
        W["self-send"].append(({"name": "local", "prefix": local[:1], "conc": [[A, ["send", "a0", A]]]}, {"kind": "fifo"}))
        W["cyclic-sends:A->B||B->C||C->A"].append((
            {"name": "local", "prefix": local[:4], "conc": [[A, ["send", "a0", B]], [B, ["send", "b0", C]], [C, ["send", "c0", A]]]},
            {"kind": "fifo"}))
        W["send-lock-cycle:third-simulator"].append((
            {"name": "cross", "prefix": cross[:7], "conc": [[A, ["send", "a0", B]], [B, ["send", "x", C]]]}, {"kind": "fifo"}))
        W["same-handle:stale-handle-waits-on-dead-qubit-lock"].append((
            {"name": "both-remote", "prefix": [["new", A, "p1"], ["send", "p1", C], ["new", B, "q0"], ["new", B, "q1"],
                                               ["g2", "q0", "q1", "cnot"], ["send", "q1", C]],
             "conc": [[B, ["send", "q0", A]], [C, ["g2", "q1", "p1", "cnot"]], ["Bob#2", ["g1", "q0", "H"]]]}, {"kind": "fifo"}))
        W["lock-nodes-timeout:foreign-release"].append((holder, {"kind": "phases", "phases": [[0, 2]], "tail": [0, 1, 2, 3]}))
        W["lock-nodes-timeout:foreign-release"].append((xmerge, {"kind": "fifo"}))
    else:
        W["merge-vs-third-party-list-mutation:update_virtual_merge"].append((
            {"name": "f12", "prefix": f12[:12], "conc": [[B, ["g2", "b0", "r0", "cnot"]], [C, ["meas", "c0", 0]]]},
            {"kind": "phases", "phases": [[1, 0], [0, 10]], "tail": [1, 0]}))
        W["merge-vs-third-party-list-mutation:update_virtual_merge"].append((
            {"name": "f12-4", "nodes": NODES + ["Dave"], "prefix": P["f12-4"][0],
             "conc": [[B, ["g2", "b0", "r0", "cnot"]], [C, ["meas", "d0", 0]]]},
            {"kind": "phases", "phases": [[1, 10], [0, 10]], "tail": [1, 0]}))
        W["same-handle:send||send"].append(({"name": "local", "prefix": local[:1], "conc": [[A, ["send", "a0", B]], ["Alice#2", ["send", "a0", B]]]},
                                            {"kind": "phases", "phases": [[1, 1], [0, 1]], "tail": [1, 0]}))
        W["same-handle:measD||send"].append(({"name": "local", "prefix": local[:1], "conc": [[A, ["meas", "a0", 0]], ["Alice#2", ["send", "a0", B]]]},
                                             {"kind": "phases", "phases": [[1, 1], [0, 1]], "tail": [1, 0]}))
        W["lock-nodes-timeout:foreign-release"].append((xmerge, {"kind": "fifo"}))
        W["same-handle:measI||send"].append((
            {"name": "both-remote", "coin": {"default": 0},
             "prefix": [["new", B, "q0"], ["new", B, "q1"], ["g1", "q0", "H"], ["g2", "q0", "q1", "cnot"], ["send", "q1", C],
                        ["new", C, "c0"]],
             "conc": [[B, ["send", "q0", A]], ["Bob#2", ["meas", "q0", 1]], [C, ["g2", "c0", "q1", "cnot"]]]}, {"kind": "fifo"}))
    for k in W:
        for case, _ in W[k]:
            case.setdefault("nodes", NODES)
    return W


def run_one(prop, case, spec):
    """execute and judge ONE schedule; -> (Out, rec)"""
    out = Out()
    ps = placement_state(case)
    ds = [op_desc(ps, t, o) if o[0] in ("new", "g1", "g2", "meas", "send") else
          {"kind": o[0], "variant": o[0], "tag": t, "op": o, "node": node_of(t), "labels": [], "regs": [], "foot": set(),
           "moved": [], "touched": set(), "chain": None, "target": None} for t, o in case["conc"]]
    plain = all(o[0] in ("new", "g1", "g2", "meas", "send") for _, o in case["conc"])
    refs = serial_refs(case) if (prop == "C03" and plain) else None
    rec = run_schedule(case, spec)
    if prop == "C03" and not plain:
        return out, rec
    judge_into(out, prop, case, ds, spec, rec, refs, "directed|" + case.get("name", "?"))
    return out, rec


def shrink(prop, key, replay, budget=160):
    """greedy: drop prefix ops, drop scripted coins, lower the hold indices -- keep what still fails with the same key"""
    case, spec = replay["case"], replay["spec"]
    tries = [0]

    def fails(c, s):
        tries[0] += 1
        if tries[0] > budget:
            return None
        try:
            o, rec = run_one(prop, c, s)
        except Exception:
            return None
        for k, v in o.viol.items():
            if resolve_key(k, {key})[0] == key:
                return v[2]
        return None
    best = fails(case, spec)
    if best is None:
        return replay
    if case.get("coin", {}).get("by"):
        for dflt in (0, 1):
            c = dict(case, coin={"default": dflt})
            r = fails(c, spec)
            if r:
                case, best = c, r
                break
    changed = True
    while changed:
        changed = False
        i = len(case["prefix"]) - 1
        while i >= 0:
            c = dict(case, prefix=case["prefix"][:i] + case["prefix"][i + 1:])
            r = fails(c, spec)
            if r:
                case, best, changed = c, r, True
            i -= 1
    if spec["kind"] == "phases":
        ph = [list(p) for p in spec["phases"]]
        for idx in range(len(ph)):
            while ph[idx][1] > 0:
                cand = [list(p) for p in ph]
                cand[idx][1] -= 1
                s = dict(spec, phases=cand)
                r = fails(case, s)
                if not r:
                    break
                ph, spec, best = cand, s, r
    return best


# ---------------------------------------------------------------------------
# the check body shared by props/c03.py and props/c04.py
# ---------------------------------------------------------------------------

def resolve_key(k, established):
    """final key of a violation reported by a worker: plain keys stay; for a 3-4 op set the first candidate that is
    an established key, else the root-cause candidate, else the key of the pair in the strongest relation"""
    if not k.startswith("MULTI\t"):
        return k, None
    parts = k.split("\t")[1:]
    k2 = next((c for c in parts[1:] if c in established), None)
    if k2 is not None:
        return k2, "attributed to an established pair-level key"
    return (parts[1] if len(parts) > 1 else parts[0]), "key no pair exploration established"


def check(ctx, prop):
    res = core.Result()
    core.scratch_repo()
    rng = ctx.rng
    t0 = time.time()
    if getattr(ctx, "replay", None):
        return replay_check(ctx, prop, res)
    known = {e["key"]: e for e in core.known_findings(prop) if e.get("status") == "open"}
    # ---- directed witnesses --------------------------------------------------
    W = witnesses(prop)
    for k, e in known.items():
        for w in ([e["witness"]] if isinstance(e.get("witness"), dict) else e.get("witness") or []):
            if (w["case"], w["spec"]) not in W[k]:
                W[k].append((w["case"], w["spec"]))
    merged = {}
    directed = set()
    nwit = 0
    for key in sorted(W):
        hit = 0
        for case, spec in W[key]:
            o, rec = run_one(prop, case, spec)
            o.viol = {resolve_key(k, set(known) | set(W))[0]: v for k, v in o.viol.items()}
            nwit += 1
            res.count("directed witness|%s" % key)
            res.case({"witness": key, "actions": rec["actions"]})
            res.traces += 1
            if key in o.viol:
                hit += 1
                if key not in merged:
                    merged[key] = o.viol[key]
                    directed.add(key)
            else:
                msg = "STALE-WITNESS: property=%s key=%s directed witness %s no longer fails (got %s)" % (
                    prop, key, jkey(case["conc"]), sorted(o.viol) or "no violation")
                res.notes.append(msg)
            for k2, v in o.viol.items():
                if k2 != key:
                    merged.setdefault(k2, v)
        if not hit and key in known:
            print("STALE-FINDING: property=%s key=%s no directed witness of this open finding fails any more" % (prop, key))
    # ---- exploration ---------------------------------------------------------------
    scale = float(os.environ.get("VERIF_SCHED_SCALE", "1"))
    tasks = plan(prop, ctx.thorough, rng, scale)
    outs, wall = run_tasks(tasks, ctx.scale(150, 1100))
    nsched = ncompleted = njudged = ndeliv = 0
    skipped = 0
    single, multi = [], []

    def merge(k, v):
        cur = merged.get(k)
        if cur is None:
            merged[k] = list(v)
        else:
            cur[3] += v[3]
            if tuple(v[0]) < tuple(cur[0]) and k not in directed:
                cur[0], cur[1], cur[2] = v[0], v[1], v[2]
    for t, o in zip(tasks, outs):
        if o is None:
            skipped += 1
            continue
        nsched += o.n
        ncompleted += o.completed
        njudged += o.judged
        ndeliv += o.deliveries
        for k, v in o.counts.items():
            res.count(k, v)
        for h in o.hashes:
            res.distinct.add(h)
        if len(res.samples) < 4 and o.samples:
            res.samples.extend(o.samples[:1])
        for n in o.notes:
            if n.startswith("HARNESS-ERROR") or len(res.notes) < 12:
                res.notes.append(n)
        for k, v in o.viol.items():
            (multi if k.startswith("MULTI\t") else single).append((k, v))
    for k, v in single:
        merge(k, v)
    established = set(merged) | set(known)
    for k, v in multi:
        k2, how = resolve_key(k, established)
        res.count("~3-4 op failure: " + how, v[3])
        merge(k2, v)
    if any(n.startswith("HARNESS-ERROR") for n in res.notes):
        raise core.MachineryError("schedule exploration: " + [n for n in res.notes if n.startswith("HARNESS-ERROR")][0][:500])
    res.evaluations += nsched
    res.traces += njudged
    final = {}
    for key in sorted(merged):
        size, what, replay, cnt = merged[key]
        if os.environ.get("VERIF_SCHED_DEBUG"):
            print("DEBUG %s x%d size=%s :: %s" % (key, cnt, size, what[:400]))
        if key not in known or os.environ.get("VERIF_SCHED_DUMP"):
            replay = shrink(prop, key, replay) or replay
        final[key] = {"what": what, "replay": replay, "count": cnt}
        res.violation(key, "%s (%d failing schedules with this key)" % (what, cnt), replay)
    if os.environ.get("VERIF_SCHED_DUMP"):
        with open(os.environ["VERIF_SCHED_DUMP"], "w") as f:
            json.dump(final, f, indent=1, default=str)
    res.rule = ("every pair of operation instances (single-qubit gate, two-qubit gate in every merge case, in-place / "
                "destructive measurement, send, creation; issued by clients of different nodes or two clients of one node; "
                "one representative per isomorphism class of (ops, holders, simulators, registers)) on placements %s: "
                "delay injection at bound %d (hold op q after k messages until op p has had j deliveries, all (j,k), both "
                "roles), FIFO in both directions, a pending timer fired before each message (and until the _lock_nodes "
                "time-out fires), both host orders, distinct and equal back-off draws; %s sets of 3-4 operations under PCT / "
                "random priorities; directed witnesses of the known findings; directed family 'slow grant': ONE two-qubit gate "
                "in every merge case that needs a remote node lock (all placements but f12-4, in both tiers), each lock request of "
                "_lock_nodes / the grant on its way back held past the back-off time-out (scripted smallest 1 s and largest 4 s "
                "draw, both host orders), then a fast network; directed family 'operations waiting for one missing "
                "connection': partial bring-up (SimNet bring-up mode: Alice->Bob, or Alice->Bob and Charlie->Bob, still "
                "refused/retrying), every pair and %s triples of sends / merging gates / arrivals on different handles that "
                "wait in get_connection for the peer, FIFO both ways, each operation ahead by 0-%d messages, timer races, PCT; "
                "directed family 'operation behind a completed gate': every two-qubit gate that moves a register with a holder at "
                "a third node (all placements but f12-4), all messages new simulator -> third node / old simulator -> third node / "
                "both held while anything else is deliverable, then each operation of the third node on its handle of that register "
                "issued when the gate has returned (serial order gate; operation) or with the gate, both host orders; directed "
                "family 'one remote node twice in the gate's lock list': placement trio (thorough: also trio-same-reg), gate on two "
                "handles simulated at one remote node || each operation of a third node on another qubit simulated there, delay "
                "injection over the whole gate; "
                "a run in which for %d virtual s (%d s if locks are taken and released all the time) nothing is deliverable, only "
                "timers fire, a lock is held and no operation completes is given up as hanging.  Oracle %s" % (
                    [n for n, (_, s) in placements().items() if s == 0 or ctx.thorough] + ["capacity"],
                    2 if ctx.thorough else 1, "sampled", "all" if ctx.thorough else "10 sampled", 5 if ctx.thorough else 3,
                    STALL, STALL_LIVE,
                    "C03: outcomes + snapshot + joint stabilizer state (per logical qubit) equal those of some sequential "
                    "execution of the same operations on the real code; bookkeeping well formed at quiescence" if prop == "C03"
                    else "C04: every client Deferred fires within %d virtual s and no node / qubit lock is held at idle" % BUDGET))
    res.notes.append("schedules explored %d (+%d directed), completed %d, judged %d, distinct action lists %d, "
                     "tasks %d (skipped for time: %d), wall %.1f s, throughput %.0f schedules/s, %.0f PB deliveries/s" % (
                         nsched, nwit, ncompleted, njudged, len(res.distinct), len(tasks), skipped, wall,
                         nsched / max(wall, 1e-9), ndeliv / max(wall, 1e-9)))
    if skipped:
        res.notes.append("wall budget reached: %d of %d tasks were not run" % (skipped, len(tasks)))
    print(res.notes[-2 if skipped else -1])
    return res


def replay_check(ctx, prop, res):
    """./check Cxx --replay file: re-execute the recorded schedule exactly and judge it"""
    inp = ctx.replay.get("input", ctx.replay)
    case = inp["case"]
    spec = {"kind": "replay", "actions": inp["actions"]} if inp.get("actions") else inp["spec"]
    o, rec = run_one(prop, case, spec)
    pol_div = None
    res.case({"replay": case["conc"]})
    res.traces += 1
    res.evaluations += 1
    known = {e["key"] for e in core.known_findings(prop) if e.get("status") == "open"}
    o.viol = {resolve_key(k, known | set(witnesses(prop)))[0]: v for k, v in o.viol.items()}
    for k, v in o.viol.items():
        v[2]["spec"] = inp.get("spec", spec)
        res.violation(k, v[1], v[2])
    print("replayed %d actions: completed=%s outcomes=%s wf=%s locks_free=%s -> %s" % (
        len(rec["actions"]), rec["completed"], rec["obs"]["outcomes"], rec["obs"]["wf"], rec["obs"]["locks_free"],
        sorted(o.viol) or "no violation"))
    res.rule = "replay of one recorded schedule"
    return res


def search(ctx, prop, res, broken):
    """targeted search when a proof obligation / skeleton no longer checks but the regular run found no failing
    schedule: every pair class of ALL placements (thorough plan, pairs and single ops only) at delay bound 1 with
    timer races, for at most 5 minutes"""
    rng = random.Random(ctx.seed + 1)
    tasks = [dict(t, grid=1, timer2=False, timer_on_grid=False, rand=2) for t in plan(prop, True, rng) if len(t["conc"]) <= 2]
    outs, wall = run_tasks(tasks, 300)
    known = {e["key"] for e in core.known_findings(prop) if e.get("status") == "open"}
    n = 0
    merged = {}
    for o in outs:
        if o is None:
            continue
        n += o.n
        for k, v in o.viol.items():
            k = resolve_key(k, known)[0]
            if k not in merged or tuple(v[0]) < tuple(merged[k][0]):
                merged[k] = v
    for k in sorted(merged):
        res.violation(k, merged[k][1], shrink(prop, k, merged[k][2]) or merged[k][2])
    res.evaluations += n
    res.notes.append("targeted search (broken: %s): %d more schedules on all placements, %d keys" % (
        [b.get("decl") for b in broken][:4], n, len(merged)))

import SqVerif.LockProtoLemmasInv
/-!
# LockProto — ranking function, stuck states, wait-for cycles

* `mu_step` / `run_bound`: every transition other than a time-out lowers `St.mu` by at least one, a time-out
  raises it by at most `maxCost ops`.
* `stuck_waits`: in a stuck state every operation in flight waits (without time-out) for a set flag.
* `not_stuck_of_rank`: if the send edges go strictly up in some rank, no reachable state is stuck unless idle.
* `exists_cycle`: a finite non-empty set in which every element has a successor contains a cycle.
-/
namespace SqVerif.LockProto

/-! ### finite combinatorics -/

theorem exists_min {α : Type} (f : α → Nat) : ∀ l : List α, l ≠ [] → ∃ x ∈ l, ∀ y ∈ l, f x ≤ f y
  | [], h => absurd rfl h
  | [a], _ => ⟨a, by simp, by intro y hy; simp at hy; subst hy; exact Nat.le_refl _⟩
  | a :: b :: t, _ => by
    obtain ⟨x, hx, hmin⟩ := exists_min f (b :: t) (by simp)
    by_cases h : f a ≤ f x
    · refine ⟨a, by simp, ?_⟩
      intro y hy
      rcases List.mem_cons.1 hy with rfl | hy
      · exact Nat.le_refl _
      · exact Nat.le_trans h (hmin y hy)
    · refine ⟨x, List.mem_cons_of_mem _ hx, ?_⟩
      intro y hy
      rcases List.mem_cons.1 hy with rfl | hy
      · exact Nat.le_of_lt (Nat.lt_of_not_le h)
      · exact hmin y hy

theorem exists_max {α : Type} (f : α → Nat) : ∀ l : List α, l ≠ [] → ∃ x ∈ l, ∀ y ∈ l, f y ≤ f x
  | [], h => absurd rfl h
  | [a], _ => ⟨a, by simp, by intro y hy; simp at hy; subst hy; exact Nat.le_refl _⟩
  | a :: b :: t, _ => by
    obtain ⟨x, hx, hmax⟩ := exists_max f (b :: t) (by simp)
    by_cases h : f x ≤ f a
    · refine ⟨a, by simp, ?_⟩
      intro y hy
      rcases List.mem_cons.1 hy with rfl | hy
      · exact Nat.le_refl _
      · exact Nat.le_trans (hmax y hy) h
    · refine ⟨x, List.mem_cons_of_mem _ hx, ?_⟩
      intro y hy
      rcases List.mem_cons.1 hy with rfl | hy
      · exact Nat.le_of_lt (Nat.lt_of_not_le h)
      · exact hmax y hy

theorem no_strict_succ {α : Type} (f : α → Nat) (l : List α) (hl : l ≠ [])
    (h : ∀ x ∈ l, ∃ y ∈ l, f x < f y) : False := by
  obtain ⟨x, hx, hmax⟩ := exists_max f l hl
  obtain ⟨y, hy, hlt⟩ := h x hx
  exact Nat.lt_irrefl _ (Nat.lt_of_lt_of_le hlt (hmax y hy))

theorem no_strict_pred {α : Type} (f : α → Nat) (l : List α) (hl : l ≠ [])
    (h : ∀ x ∈ l, ∃ y ∈ l, f y < f x) : False := by
  obtain ⟨x, hx, hmin⟩ := exists_min f l hl
  obtain ⟨y, hy, hlt⟩ := h x hx
  exact Nat.lt_irrefl _ (Nat.lt_of_lt_of_le hlt (hmin y hy))

theorem filter_length_le {α : Type} (p q : α → Bool) :
    ∀ l : List α, (∀ a ∈ l, p a = true → q a = true) → (l.filter p).length ≤ (l.filter q).length
  | [], _ => Nat.le_refl _
  | a :: t, h => by
    have ih := filter_length_le p q t (fun b hb => h b (List.mem_cons_of_mem _ hb))
    have ha := h a (by simp)
    simp only [List.filter_cons]
    cases hp : p a with
    | false =>
      cases hq : q a with
      | false => simpa using ih
      | true => simp only [Bool.false_eq_true, if_false, if_true, List.length_cons]; omega
    | true =>
      rw [ha hp]
      simpa using ih

theorem filter_length_lt {α : Type} (p q : α → Bool) :
    ∀ l : List α, (∀ a ∈ l, p a = true → q a = true) → (∃ z ∈ l, q z = true ∧ p z = false) →
      (l.filter p).length < (l.filter q).length
  | [], _, ⟨_, hz, _⟩ => by cases hz
  | a :: t, h, ⟨z, hz, hqz, hpz⟩ => by
    have hle := filter_length_le p q t (fun b hb => h b (List.mem_cons_of_mem _ hb))
    have ha := h a (by simp)
    simp only [List.filter_cons]
    rcases List.mem_cons.1 hz with rfl | hz
    · simp only [hpz, hqz, Bool.false_eq_true, if_false, if_true, List.length_cons]; omega
    · have ih := filter_length_lt p q t (fun b hb => h b (List.mem_cons_of_mem _ hb)) ⟨z, hz, hqz, hpz⟩
      cases hp : p a with
      | false =>
        cases hq : q a with
        | false => simpa using ih
        | true => simp only [Bool.false_eq_true, if_false, if_true, List.length_cons]; omega
      | true =>
        rw [ha hp]
        simpa using ih

/-- a path of length ≥ 1 -/
inductive Plus {α : Type} (R : α → α → Prop) : α → α → Prop where
  | one {a b} : R a b → Plus R a b
  | cons {a b c} : R a b → Plus R b c → Plus R a c

/-- every element of a finite non-empty set has a successor in the set ⇒ the set contains a cycle -/
theorem exists_cycle {α : Type} (R : α → α → Prop) (l : List α) (hl : l ≠ [])
    (h : ∀ x ∈ l, ∃ y ∈ l, R x y) : ∃ x ∈ l, Plus R x x := by
  classical
  apply Classical.byContradiction
  intro hno
  have hirr : ∀ x ∈ l, ¬ Plus R x x := fun x hx hp => hno ⟨x, hx, hp⟩
  let f : α → Nat := fun x => (l.filter (fun y => decide (Plus R x y))).length
  apply no_strict_pred f l hl
  intro x hx
  obtain ⟨y, hy, hxy⟩ := h x hx
  refine ⟨y, hy, ?_⟩
  apply filter_length_lt
  · intro a _ ha
    simp only [decide_eq_true_eq] at ha ⊢
    exact Plus.cons hxy ha
  · refine ⟨y, hy, ?_, ?_⟩
    · simp only [decide_eq_true_eq]; exact Plus.one hxy
    · simp only [decide_eq_false_iff_not]; exact hirr y hy

/-! ### the ranking function -/

theorem sum_map_set {α : Type} (f : α → Nat) :
    ∀ (l : List α) (i : Nat) (x a : α), l[i]? = some a → ((l.set i x).map f).sum + f a = (l.map f).sum + f x
  | [], i, x, a, h => by simp at h
  | b :: t, 0, x, a, h => by
    simp at h; subst h
    simp only [List.set_cons_zero, List.map_cons, List.sum_cons]; omega
  | b :: t, i + 1, x, a, h => by
    have h' : t[i]? = some a := by simpa using h
    have ih := sum_map_set f t i x a h'
    simp only [List.set_cons_succ, List.map_cons, List.sum_cons]; omega

theorem weight_cons (i : Instr) (r : List Instr) : weight (i :: r) = i.w + weight r := by
  simp [weight]

theorem weight_append (a b : List Instr) : weight (a ++ b) = weight a + weight b := by
  simp [weight]

theorem weight_rels (u : List Node) : weight (u.map .rel) = u.length := by
  induction u with
  | nil => rfl
  | cons a t ih => rw [List.map_cons, weight_cons, ih]; simp [Instr.w]; omega

theorem mu_le_weight (p : PSt) : p.mu ≤ weight p.rest := by
  unfold PSt.mu
  cases hr : p.rest with
  | nil => exact Nat.le_refl _
  | cons i r =>
    cases i with
    | acqT ns =>
      simp only [weight_cons, Instr.w]
      have := List.length_filter_le (fun n => decide (n ∉ p.held)) ns
      omega
    | acq n => exact Nat.le_refl _
    | work => exact Nat.le_refl _
    | rel n => exact Nat.le_refl _

/-- effect on `St.mu` of replacing the local state of operation `i` -/
theorem mu_set {s : St} {i : Nat} {p q : PSt} (hp : s.procs[i]? = some p) (L : List (Node × Owner)) :
    (St.mu ⟨s.procs.set i q, L, s.zombies⟩) + p.mu = s.mu + q.mu := by
  have := sum_map_set PSt.mu s.procs i q p hp
  simp only [St.mu]
  omega

theorem mu_step {ops : List Op} {s s' : St} {l : Label} (hI : Inv ops s) (h : Tr false s l s') :
    (l.isTimeout = false → s'.mu + 1 ≤ s.mu) ∧ (l.isTimeout = true → s'.mu ≤ s.mu + maxCost ops) := by
  cases h with
  | @acq i p n r hp hr hl =>
    refine ⟨fun _ => ?_, fun h => by cases h⟩
    have h1 := mu_set (q := ⟨r, n :: p.held⟩) hp ((n, .op i) :: s.locks)
    have h2 := mu_le_weight ⟨r, n :: p.held⟩
    have h3 : p.mu = 1 + weight r := by unfold PSt.mu; rw [hr]; simp [weight_cons, Instr.w]
    simp only at h2
    omega
  | @work i p r hp hr =>
    refine ⟨fun _ => ?_, fun h => by cases h⟩
    have h1 := mu_set (q := ⟨r, p.held⟩) hp s.locks
    have h2 := mu_le_weight ⟨r, p.held⟩
    have h3 : p.mu = 1 + weight r := by unfold PSt.mu; rw [hr]; simp [weight_cons, Instr.w]
    simp only at h2
    omega
  | @rel i p n r hp hr =>
    refine ⟨fun _ => ?_, fun h => by cases h⟩
    have h1 := mu_set (q := ⟨r, p.held.erase n⟩) hp (unlock n s.locks)
    have h2 := mu_le_weight ⟨r, p.held.erase n⟩
    have h3 : p.mu = 1 + weight r := by unfold PSt.mu; rw [hr]; simp [weight_cons, Instr.w]
    simp only at h2
    omega
  | @go i p ns r hp hr ha =>
    refine ⟨fun _ => ?_, fun h => by cases h⟩
    have h1 := mu_set (q := ⟨r, p.held⟩) hp s.locks
    have h2 := mu_le_weight ⟨r, p.held⟩
    have h3 : 1 + weight r ≤ p.mu := by unfold PSt.mu; rw [hr]; simp only; omega
    simp only at h2
    omega
  | @grant i p ns r n hp hr hn hnh hl =>
    refine ⟨fun _ => ?_, fun h => by cases h⟩
    have h1 := mu_set (q := ⟨.acqT ns :: r, n :: p.held⟩) hp ((n, .op i) :: s.locks)
    have h3 : p.mu = 1 + (ns.filter (fun x => decide (x ∉ p.held))).length + weight r := by
      unfold PSt.mu; rw [hr]
    have h4 : PSt.mu ⟨.acqT ns :: r, n :: p.held⟩ =
        1 + (ns.filter (fun x => decide (x ∉ n :: p.held))).length + weight r := rfl
    have h5 : (ns.filter (fun x => decide (x ∉ n :: p.held))).length <
        (ns.filter (fun x => decide (x ∉ p.held))).length := by
      apply filter_length_lt
      · intro a _ ha
        simp only [decide_eq_true_eq] at ha ⊢
        exact fun hh => ha (List.mem_cons_of_mem _ hh)
      · exact ⟨n, hn, by simpa using hnh, by simp⟩
    omega
  | @toI i p ns r _ hp hr hn =>
    refine ⟨fun h => (by cases h), fun _ => ?_⟩
    have h1 := mu_set
      (q := ⟨(ns.filter (fun n => decide (n ∈ p.held))).map .rel ++ .acqT ns :: r, p.held⟩) hp s.locks
    have h2 := mu_le_weight
      ⟨(ns.filter (fun n => decide (n ∈ p.held))).map .rel ++ .acqT ns :: r, p.held⟩
    simp only [weight_append, weight_rels, weight_cons, Instr.w] at h2
    have h3 : 1 + weight r ≤ p.mu := by unfold PSt.mu; rw [hr]; simp only; omega
    have h4 := List.length_filter_le (fun n => decide (n ∈ p.held)) ns
    have h5 : 2 * ns.length ≤ maxCost ops := hI.cost i p hp ns (by rw [hr]; simp)
    omega
  | toF hf _ _ _ => cases hf
  | zgrant h1 _ => rw [hI.zomb] at h1; cases h1

theorem timeouts_cons (l : Label) (ls : List Label) :
    timeouts (l :: ls) = (if l.isTimeout then 1 else 0) + timeouts ls := by
  unfold timeouts
  cases h : l.isTimeout <;> simp [h] <;> omega

theorem run_bound {ops : List Op} {s s' : St} {ls : List Label} (hr : Run false s ls s') (hI : Inv ops s) :
    ls.length + s'.mu ≤ s.mu + timeouts ls * (maxCost ops + 1) := by
  induction hr with
  | nil s => simp [timeouts]
  | @cons s s1 s2 l ls hf _ ih =>
    have htr := fire_tr hf
    have hI1 := inv_step hI htr
    have ih := ih hI1
    have hm := mu_step hI htr
    rw [timeouts_cons, List.length_cons]
    cases hl : l.isTimeout with
    | false =>
      have := hm.1 hl
      simp only [Bool.false_eq_true, if_false, Nat.zero_add]
      omega
    | true =>
      have := hm.2 hl
      simp only [if_true, Nat.add_mul, Nat.one_mul]
      omega

/-! ### stuck states -/

theorem stuck_waits {s : St} {i : Nat} {p : PSt} (hst : Stuck false s) (hp : s.procs[i]? = some p)
    (hne : p.rest ≠ []) : ∃ m r, p.rest = .acq m :: r ∧ s.lockedB m = true := by
  cases hr : p.rest with
  | nil => exact absurd hr hne
  | cons ins r =>
    cases ins with
    | acq m =>
      refine ⟨m, r, rfl, ?_⟩
      cases hl : s.lockedB m with
      | true => rfl
      | false =>
        have := tr_fire (Tr.acq (f := false) hp hr hl)
        rw [hst] at this; cases this
    | work =>
      have := tr_fire (Tr.work (f := false) hp hr)
      rw [hst] at this; cases this
    | rel n =>
      have := tr_fire (Tr.rel (f := false) hp hr)
      rw [hst] at this; cases this
    | acqT ns =>
      by_cases ha : ∀ n ∈ ns, n ∈ p.held
      · have := tr_fire (Tr.go (f := false) hp hr ha)
        rw [hst] at this; cases this
      · have := tr_fire (Tr.toI (f := false) rfl hp hr ha)
        rw [hst] at this; cases this

theorem locked_owner {ops : List Op} {s : St} (hI : Inv ops s) {m : Node} (hl : s.lockedB m = true) :
    ∃ (j : Nat) (q : PSt), (m, Owner.op j) ∈ s.locks ∧ s.procs[j]? = some q ∧ m ∈ q.held := by
  unfold St.lockedB at hl
  rw [List.any_eq_true] at hl
  obtain ⟨⟨m', o⟩, hm, he⟩ := hl
  have : m' = m := by simpa using he
  subst this
  obtain ⟨j, q, rfl, hq, hh⟩ := hI.own m' o hm
  exact ⟨j, q, hm, hq, hh⟩

theorem held_in_flight {ops : List Op} {s : St} (hI : Inv ops s) {j : Nat} {q : PSt}
    (hq : s.procs[j]? = some q) {m : Node} (hm : m ∈ q.held) : q.rest ≠ [] := by
  intro hr
  obtain ⟨o, _, hs⟩ := hI.safe j q hq
  rw [hr] at hs
  have : q.held = [] := hs
  rw [this] at hm; cases hm

/-- in a stuck state an operation that holds `h` is a send waiting, without time-out, for a set flag `m`, and
    `h → m` is one of its hold-and-wait edges -/
theorem stuck_holder {ops : List Op} {s : St} (hI : Inv ops s) (hst : Stuck false s) {j : Nat} {q : PSt}
    (hq : s.procs[j]? = some q) {h : Node} (hh : h ∈ q.held) :
    ∃ o m r, ops[j]? = some o ∧ q.rest = .acq m :: r ∧ s.lockedB m = true ∧
      ∀ x ∈ q.held, (x, m) ∈ edgesOf o := by
  obtain ⟨m, r, hr, hl⟩ := stuck_waits hst hq (held_in_flight hI hq hh)
  obtain ⟨o, ho, hs⟩ := hI.safe j q hq
  rw [hr] at hs
  exact ⟨o, m, r, ho, hr, hl, hs.1⟩

theorem idle_of_no_flight {s : St} (h : ∀ (i : Nat) (p : PSt), s.procs[i]? = some p → p.rest = []) :
    s.idle = true := by
  unfold St.idle
  rw [List.all_eq_true]
  intro p hp
  obtain ⟨i, hi⟩ := List.getElem?_of_mem hp
  simp [PSt.done, h i p hi]

theorem not_idle {s : St} (h : s.idle = false) : ∃ (i : Nat) (p : PSt), s.procs[i]? = some p ∧ p.rest ≠ [] := by
  apply Classical.byContradiction
  intro hno
  have : s.idle = true := by
    apply idle_of_no_flight
    intro i p hp
    apply Classical.byContradiction
    intro hne
    exact hno ⟨i, p, hp, hne⟩
  rw [this] at h; cases h

def headAcq (p : PSt) : Option Node :=
  match p.rest with
  | .acq m :: _ => some m
  | _ => none

theorem headAcq_some {p : PSt} {m : Node} (h : headAcq p = some m) : ∃ r, p.rest = .acq m :: r := by
  unfold headAcq at h
  cases hr : p.rest with
  | nil => simp [hr] at h
  | cons i r =>
    cases i with
    | acq n => simp [hr] at h; subst h; exact ⟨r, rfl⟩
    | work => simp [hr] at h
    | rel n => simp [hr] at h
    | acqT ns => simp [hr] at h

/-- if the send edges go strictly up in some rank, a stuck state is idle -/
theorem not_stuck_of_rank {ops : List Op} {s : St} (hI : Inv ops s) (rk : Node → Nat)
    (hrk : ∀ e ∈ sendEdges ops, rk e.1 < rk e.2) (hst : Stuck false s) : s.idle = true := by
  cases hid : s.idle with
  | true => rfl
  | false =>
    exfalso
    obtain ⟨i0, p0, hp0, hne0⟩ := not_idle hid
    obtain ⟨m0, r0, hr0, _⟩ := stuck_waits hst hp0 hne0
    let W := s.procs.filterMap headAcq
    have hW : m0 ∈ W := by
      apply List.mem_filterMap.2
      exact ⟨p0, List.mem_of_getElem? hp0, by simp [headAcq, hr0]⟩
    apply no_strict_succ rk W (List.ne_nil_of_mem hW)
    intro m hm
    obtain ⟨p, hp, hpm⟩ := List.mem_filterMap.1 hm
    obtain ⟨i, hi⟩ := List.getElem?_of_mem hp
    obtain ⟨r, hr⟩ := headAcq_some hpm
    obtain ⟨m', r', hr', hl⟩ := stuck_waits hst hi (by rw [hr]; simp)
    rw [hr] at hr'
    have hmm : m = m' := by injection hr' with h1 _; injection h1
    subst hmm
    obtain ⟨j, q, _, hq, hmq⟩ := locked_owner hI hl
    obtain ⟨o, m2, r2, ho, hr2, _, hedge⟩ := stuck_holder hI hst hq hmq
    refine ⟨m2, ?_, ?_⟩
    · apply List.mem_filterMap.2
      exact ⟨q, List.mem_of_getElem? hq, by simp [headAcq, hr2]⟩
    · exact hrk (m, m2) (edgesOf_sub (List.mem_of_getElem? ho) _ (hedge m hmq))

/-- when no operation is in flight every flag is clear -/
theorem idle_allFree {ops : List Op} {s : St} (hI : Inv ops s) (hid : s.idle = true) : s.allFree = true := by
  unfold St.allFree
  cases hL : s.locks with
  | nil => rfl
  | cons e t =>
    exfalso
    obtain ⟨n, o⟩ := e
    obtain ⟨i, p, _, hp, hn⟩ := hI.own n o (by rw [hL]; simp)
    have hne := held_in_flight hI hp hn
    unfold St.idle at hid
    rw [List.all_eq_true] at hid
    have := hid p (List.mem_of_getElem? hp)
    simp [PSt.done] at this
    exact hne this

/-! ### the checked rank -/

theorem acyclic_rank {ops : List Op} (h : sendGraphAcyclic ops = true) :
    ∃ rk : Node → Nat, ∀ e ∈ sendEdges ops, rk e.1 < rk e.2 := by
  refine ⟨ranks (sendEdges ops) (sendEdges ops).length, ?_⟩
  intro e he
  unfold sendGraphAcyclic at h
  simp only [List.all_eq_true, decide_eq_true_eq] at h
  exact h e he

/-- `stuckB` looks at every label that could be enabled -/
theorem stuckB_sound {f : Bool} {s : St} (h : stuckB f s = true) : Stuck f s := by
  intro l
  cases hf : fire f s l with
  | none => rfl
  | some s' =>
    exfalso
    unfold stuckB at h
    rw [List.all_eq_true] at h
    have hmem : l ∈ labelsOf s := by
      have htr := fire_tr hf
      unfold labelsOf
      have base : ∀ (i : Nat) (p : PSt), s.procs[i]? = some p → ∀ l',
          (l' ∈ (match (s.procs[i]?).map PSt.rest with
            | some (.acqT ns :: _) => Label.step i :: Label.timeout i :: ns.map (fun n => Label.grant i n)
            | _ => [Label.step i])) →
          l' ∈ (List.range s.procs.length).flatMap (fun i =>
            match (s.procs[i]?).map PSt.rest with
            | some (.acqT ns :: _) => Label.step i :: Label.timeout i :: ns.map (fun n => Label.grant i n)
            | _ => [Label.step i]) ++ s.zombies.map (fun z => Label.zgrant z.1 z.2) := by
        intro i p hp l' hl'
        apply List.mem_append_left
        apply List.mem_flatMap.2
        exact ⟨i, List.mem_range.2 (lt_of_get hp), hl'⟩
      cases htr with
      | @acq i p n r hp hr hl => apply base i p hp; simp [hp, hr]
      | @work i p r hp hr => apply base i p hp; simp [hp, hr]
      | @rel i p n r hp hr => apply base i p hp; simp [hp, hr]
      | @go i p ns r hp hr ha => apply base i p hp; simp [hp, hr]
      | @grant i p ns r n hp hr h1 h2 h3 => apply base i p hp; simp [hp, hr, h1]
      | @toI i p ns r _ hp hr hn => apply base i p hp; simp [hp, hr]
      | @toF i p ns r _ hp hr hn => apply base i p hp; simp [hp, hr]
      | @zgrant i n h1 h2 =>
        apply List.mem_append_right
        apply List.mem_map.2
        exact ⟨(i, n), h1, rfl⟩
    have := h l hmem
    rw [hf] at this
    cases this


/-! ### wait-for cycles -/

/-- `SendWait ops s i j`: operation `i` is a `send` that holds at least one node lock and waits, without
    time-out, for the lock of node `m`; every (held, `m`) is one of the send's hold-and-wait edges
    (self→sim, self→recv, sim→recv); the flag of `m` is set with ghost owner `j`, and `j` does hold `m` -/
def SendWait (ops : List Op) (s : St) (i j : Nat) : Prop :=
  ∃ (a : Node) (sim : Option Node) (r : Node) (p q : PSt) (m : Node) (rest' : List Instr),
    ops[i]? = some (.send a sim r) ∧ s.procs[i]? = some p ∧ p.rest = .acq m :: rest' ∧ p.held ≠ [] ∧
    (∀ h ∈ p.held, (h, m) ∈ edgesOf (.send a sim r)) ∧
    (m, Owner.op j) ∈ s.locks ∧ s.procs[j]? = some q ∧ m ∈ q.held

theorem edgesOf_send {o : Op} {e : NEdge} (h : e ∈ edgesOf o) : ∃ a sim r, o = .send a sim r := by
  cases o with
  | send a sim r => exact ⟨a, sim, r, rfl⟩
  | gate1 s => simp [edgesOf] at h
  | new n => simp [edgesOf] at h
  | addQubit n => simp [edgesOf] at h
  | gate2 ns => simp [edgesOf] at h

/-- a stuck, non-idle state of the idealised protocol contains a wait-for cycle made of sends only -/
theorem stuck_cycle {ops : List Op} {s : St} (hI : Inv ops s) (hst : Stuck false s) (hid : s.idle = false) :
    ∃ i, Plus (SendWait ops s) i i := by
  obtain ⟨i0, p0, hp0, hne0⟩ := not_idle hid
  obtain ⟨m0, r0, hr0, hl0⟩ := stuck_waits hst hp0 hne0
  obtain ⟨j0, q0, _, hq0, hm0⟩ := locked_owner hI hl0
  -- the operations that hold something
  let H := (List.range s.procs.length).filter (fun j =>
    match s.procs[j]? with
    | some q => !q.held.isEmpty
    | none => false)
  have hH : ∀ (j : Nat) (q : PSt), s.procs[j]? = some q → ∀ m, m ∈ q.held → j ∈ H := by
    intro j q hq m hm
    apply List.mem_filter.2
    refine ⟨List.mem_range.2 (lt_of_get hq), ?_⟩
    simp only [hq]
    cases hh : q.held with
    | nil => rw [hh] at hm; cases hm
    | cons a t => rfl
  have hH' : ∀ j ∈ H, ∃ (q : PSt) (m : Node), s.procs[j]? = some q ∧ m ∈ q.held := by
    intro j hj
    have := (List.mem_filter.1 hj).2
    cases hq : s.procs[j]? with
    | none => simp [hq] at this
    | some q =>
      simp only [hq] at this
      cases hh : q.held with
      | nil => simp [hh] at this
      | cons a t => exact ⟨q, a, rfl, by rw [hh]; simp⟩
  obtain ⟨x, _, hx⟩ := exists_cycle (SendWait ops s) H (List.ne_nil_of_mem (hH j0 q0 hq0 m0 hm0)) (by
    intro j hj
    obtain ⟨q, h, hq, hh⟩ := hH' j hj
    obtain ⟨o, m, r, ho, hr, hl, hedge⟩ := stuck_holder hI hst hq hh
    obtain ⟨a, sim, rc, rfl⟩ := edgesOf_send (hedge h hh)
    obtain ⟨j', q', hlock, hq', hm'⟩ := locked_owner hI hl
    refine ⟨j', hH j' q' hq' m hm', a, sim, rc, q, q', m, r, ho, hq, hr, ?_, hedge, hlock, hq', hm'⟩
    intro he; rw [he] at hh; cases hh)
  exact ⟨x, hx⟩

/-! ### acyclicity of a finite graph ⇔ a strictly increasing rank -/

def EdgeRel (E : List NEdge) (a b : Node) : Prop := (a, b) ∈ E

theorem Plus.snoc {α : Type} {R : α → α → Prop} {a b c : α} (h : Plus R a b) (hbc : R b c) : Plus R a c := by
  induction h with
  | one hab => exact Plus.cons hab (Plus.one hbc)
  | cons hab _ ih => exact Plus.cons hab (ih hbc)

theorem rank_lt_of_plus {E : List NEdge} {rk : Node → Nat} (hrk : ∀ e ∈ E, rk e.1 < rk e.2) {a b : Node}
    (h : Plus (EdgeRel E) a b) : rk a < rk b := by
  induction h with
  | one hab => exact hrk _ hab
  | cons hab _ ih => exact Nat.lt_trans (hrk _ hab) ih

theorem rank_iff_acyclic (E : List NEdge) :
    (∃ rk : Node → Nat, ∀ e ∈ E, rk e.1 < rk e.2) ↔ ¬ ∃ n, Plus (EdgeRel E) n n := by
  classical
  constructor
  · rintro ⟨rk, hrk⟩ ⟨n, hn⟩
    exact Nat.lt_irrefl _ (rank_lt_of_plus hrk hn)
  · intro hno
    let N := E.map Prod.fst
    refine ⟨fun n => (N.filter (fun m => decide (Plus (EdgeRel E) m n))).length, ?_⟩
    rintro ⟨a, b⟩ he
    apply filter_length_lt
    · intro m _ hm
      simp only [decide_eq_true_eq] at hm ⊢
      exact hm.snoc he
    · refine ⟨a, List.mem_map.2 ⟨(a, b), he, rfl⟩, ?_, ?_⟩
      · simp only [decide_eq_true_eq]; exact Plus.one he
      · simp only [decide_eq_false_iff_not]; exact fun h => hno ⟨a, h⟩

/-- the decision procedure is sound: it accepts only acyclic send graphs -/
theorem acyclic_sound {ops : List Op} (h : sendGraphAcyclic ops = true) :
    ¬ ∃ n, Plus (EdgeRel (sendEdges ops)) n n :=
  (rank_iff_acyclic _).1 (acyclic_rank h)

end SqVerif.LockProto

import SqVerif.NqExecLemmas
/-
L5 — the invariant `Inv` of the concrete backend (unit module, used physical
ids, qubitList, node) and its preservation by the primitive updates the
requests are composed of.  Core Lean only.
-/
namespace SqVerif.NqExec

open List

variable {F : List Nat} {ext : Nat}

/-! ### unit-module slots -/

theorem slotGet_empty {α : Type} {um : List (Option α)} {v : Int} {i : Nat} (h : slotGet um v = .empty i) :
    um[i]? = some none := by
  unfold slotGet at h
  split at h
  · cases h
  · rename_i j _
    split at h
    · cases h
    · rename_i hj; cases h; exact hj
    · cases h

theorem slotGet_full {α : Type} {um : List (Option α)} {v : Int} {i : Nat} {a : α} (h : slotGet um v = .full i a) :
    um[i]? = some (some a) := by
  unfold slotGet at h
  split at h
  · cases h
  · split at h
    · rename_i hj; cases h; exact hj
    · cases h
    · cases h

theorem mem_filterMap_of_getElem? {α : Type} {um : List (Option α)} {i : Nat} {a : α} (h : um[i]? = some (some a)) :
    a ∈ um.filterMap id := by
  rw [mem_filterMap]
  exact ⟨some a, mem_of_getElem? h, rfl⟩

/-- filling an empty slot inserts one element into the list of mapped values -/
theorem filterMap_set_some {α : Type} : ∀ (l : List (Option α)) (i : Nat) (p : α), l[i]? = some none →
    ∃ A B, l.filterMap id = A ++ B ∧ (l.set i (some p)).filterMap id = A ++ p :: B
  | [], i, _, h => by simp at h
  | x :: l, 0, p, h => by
    simp only [getElem?_cons_zero, Option.some.injEq] at h
    subst h
    exact ⟨[], l.filterMap id, by simp, by simp⟩
  | x :: l, i + 1, p, h => by
    simp only [getElem?_cons_succ] at h
    obtain ⟨A, B, h1, h2⟩ := filterMap_set_some l i p h
    cases x with
    | none => exact ⟨A, B, by simpa using h1, by simpa using h2⟩
    | some y => exact ⟨y :: A, B, by simp [h1], by simp [h2]⟩

/-- emptying a full slot removes one element from the list of mapped values -/
theorem filterMap_set_none {α : Type} : ∀ (l : List (Option α)) (i : Nat) (p : α), l[i]? = some (some p) →
    ∃ A B, l.filterMap id = A ++ p :: B ∧ (l.set i none).filterMap id = A ++ B
  | [], i, _, h => by simp at h
  | x :: l, 0, p, h => by
    simp only [getElem?_cons_zero, Option.some.injEq] at h
    subst h
    exact ⟨[], l.filterMap id, by simp, by simp⟩
  | x :: l, i + 1, p, h => by
    simp only [getElem?_cons_succ] at h
    obtain ⟨A, B, h1, h2⟩ := filterMap_set_none l i p h
    cases x with
    | none => exact ⟨A, B, by simpa using h1, by simpa using h2⟩
    | some y => exact ⟨y :: A, B, by simp [h1], by simp [h2]⟩

theorem filterMap_replicate_none {α : Type} (n : Nat) : (List.replicate n (none : Option α)).filterMap id = [] := by
  induction n with
  | zero => rfl
  | succ n ih => simp [replicate_succ, ih]

/-! ### the invariant -/

/-- physical addresses the unit module maps -/
def mapped (c : CQ) : List Nat := (c.um.getD []).filterMap id

/-- the physical address a qubitList key belongs to: `q` for `q`, and `q` for the second
temporary id `-(1+q)` of `cmd_epr` -/
def physOf (k : Int) : Nat := if 0 ≤ k then k.toNat else (-(k + 1)).toNat

def inboxToks (n : Node) : List Nat := n.inbox.map (·.2.2)

structure Inv (F : List Nat) (ext : Nat) (c : CQ) : Prop where
  /-- virtual address ↦ physical id is injective on allocated addresses -/
  mapped_nodup : (mapped c).Nodup
  mapped_used : ∀ p ∈ mapped c, p ∈ c.used
  /-- every allocated address has a handle -/
  mapped_ql : ∀ p ∈ mapped c, (p : Int) ∈ keys c.qlist
  keys_nodup : (keys c.qlist).Nodup
  keys_used : ∀ k ∈ keys c.qlist, physOf k ∈ c.used
  /-- physical id ↦ token is injective -/
  toks_nodup : (vals c.qlist).Nodup
  toks_lt : ∀ t ∈ vals c.qlist, t < c.node.next
  /-- every handle denotes a qubit the node holds -/
  toks_held : ∀ t ∈ vals c.qlist, t ∈ c.node.held
  inbox_lt : ∀ t ∈ inboxToks c.node, t < c.node.next
  inbox_nodup : (inboxToks c.node).Nodup
  inbox_disj : ∀ t ∈ inboxToks c.node, t ∉ vals c.qlist
  inbox_held : ∀ t ∈ inboxToks c.node, t ∈ c.node.held
  /-- the second temporary id `-(1+q)` of `cmd_epr` never coexists with a mapping of `q` -/
  neg_keys : ∀ p ∈ mapped c, (-(1 + (p : Int))) ∉ keys c.qlist
  /-- tokens of `F` are foreign to this QNodeOS: no handle, not in the receive queue, never fresh again -/
  foreign : ∀ f ∈ F, f < c.node.next ∧ f ∉ vals c.qlist ∧ f ∉ inboxToks c.node
  /-- every held qubit beyond `ext` is queued or has a handle -/
  acct : c.node.held.length = ext + c.node.inbox.length + c.qlist.length

theorem Inv.fresh (cap : Nat) : Inv [] 0 (CQ.fresh cap) := by
  constructor <;> simp [CQ.fresh, mapped, keys, vals, inboxToks]

theorem physOf_ofNat (q : Nat) : physOf (q : Int) = q := by
  unfold physOf; simp

theorem physOf_neg (q : Nat) : physOf (-(1 + (q : Int))) = q := by
  unfold physOf
  have : ¬ (0 : Int) ≤ -(1 + (q : Int)) := by omega
  rw [if_neg this]; omega

/-- a physical address that is not in use names no qubitList entry -/
theorem Inv.not_key_of_not_used {c : CQ} (h : Inv F ext c) {q : Nat} (hq : q ∉ c.used) :
    (q : Int) ∉ keys c.qlist ∧ (-(1 + (q : Int))) ∉ keys c.qlist := by
  constructor
  · intro hk; have := h.keys_used _ hk; rw [physOf_ofNat] at this; exact hq this
  · intro hk; have := h.keys_used _ hk; rw [physOf_neg] at this; exact hq this

theorem Inv.not_mapped_of_not_used {c : CQ} (h : Inv F ext c) {q : Nat} (hq : q ∉ c.used) : q ∉ mapped c :=
  fun hm => hq (h.mapped_used q hm)

/-! ### primitive updates -/

theorem Inv.leak {c : CQ} (h : Inv F ext c) (n : Nat) : Inv F ext (c.leak n) :=
  ⟨h.1, h.2, h.3, h.4, h.5, h.6, h.7, h.8, h.9, h.10, h.11, h.12, h.13, h.14, h.15⟩

/-- `_used_physical_qubit_addresses.add(p)` -/
theorem Inv.use {c : CQ} (h : Inv F ext c) (p : Nat) : Inv F ext { c with used := p :: c.used } :=
  ⟨h.1, fun q hq => mem_cons_of_mem _ (h.2 q hq), h.3, h.4, fun k hk => mem_cons_of_mem _ (h.5 k hk),
   h.6, h.7, h.8, h.9, h.10, h.11, h.12, h.13, h.14, h.15⟩

/-- `_used_physical_qubit_addresses.remove(p)` once nothing refers to `p` any more -/
theorem Inv.unuse {c : CQ} (h : Inv F ext c) (p : Nat) (hm : p ∉ mapped c) (hk : ∀ k ∈ keys c.qlist, physOf k ≠ p) :
    Inv F ext { c with used := c.used.erase p } :=
  ⟨h.1, fun q hq => (mem_erase_of_ne (fun (e : q = p) => hm (e ▸ hq))).2 (h.2 q hq), h.3, h.4,
   fun k hk' => (mem_erase_of_ne (hk k hk')).2 (h.5 k hk'), h.6, h.7, h.8, h.9, h.10, h.11, h.12, h.13, h.14, h.15⟩

/-- replacing the unit module by one whose mapped addresses are fine -/
theorem Inv.setUm {c : CQ} (h : Inv F ext c) (um : Option (List (Option Nat)))
    (hn : ((um.getD []).filterMap id).Nodup)
    (hu : ∀ p ∈ (um.getD []).filterMap id, p ∈ c.used ∧ (p : Int) ∈ keys c.qlist ∧ (-(1 + (p : Int))) ∉ keys c.qlist) :
    Inv F ext { c with um := um } :=
  ⟨hn, fun p hp => (hu p hp).1, fun p hp => (hu p hp).2.1, h.4, h.5, h.6, h.7, h.8, h.9, h.10, h.11, h.12,
   fun p hp => (hu p hp).2.2, h.14, h.15⟩

theorem Inv.clearUm {c : CQ} (h : Inv F ext c) : Inv F ext { c with um := none } :=
  h.setUm none (by simp) (by simp)

theorem Inv.initUm {c : CQ} (h : Inv F ext c) (n : Nat) : Inv F ext { c with um := some (List.replicate n none) } :=
  h.setUm _ (by simp) (by simp)

/-- `unit_module[i] = None` -/
theorem Inv.unmapSlot {c : CQ} (h : Inv F ext c) {um : List (Option Nat)} (hum : c.um = some um) {i p : Nat}
    (hi : um[i]? = some (some p)) : Inv F ext { c with um := some (um.set i none) } := by
  obtain ⟨A, B, h1, h2⟩ := filterMap_set_none um i p hi
  have hm : mapped c = A ++ p :: B := by simp [mapped, hum, h1]
  apply h.setUm
  · simp only [Option.getD_some, h2]
    have := h.mapped_nodup; rw [hm] at this
    exact this.sublist (by simp)
  · intro q hq
    simp only [Option.getD_some, h2] at hq
    have : q ∈ mapped c := by rw [hm]; simp at hq ⊢; rcases hq with hq | hq <;> simp [hq]
    exact ⟨h.mapped_used q this, h.mapped_ql q this, h.neg_keys q this⟩

/-- after `unit_module[i] = None` the address that was there is no longer mapped -/
theorem not_mapped_after_unmap {c : CQ} (h : Inv F ext c) {um : List (Option Nat)} (hum : c.um = some um) {i p : Nat}
    (hi : um[i]? = some (some p)) : p ∉ mapped { c with um := some (um.set i none) } := by
  obtain ⟨A, B, h1, h2⟩ := filterMap_set_none um i p hi
  have hm : mapped c = A ++ p :: B := by simp [mapped, hum, h1]
  have hn := h.mapped_nodup; rw [hm] at hn
  simp only [mapped, Option.getD_some, h2]
  rw [nodup_append] at hn
  intro hp
  rcases mem_append.1 hp with hp | hp
  · exact hn.2.2 p hp p mem_cons_self rfl
  · exact (nodup_cons.1 hn.2.1).1 hp

/-- `unit_module[i] = p` for an address that has a handle and is not mapped yet -/
theorem Inv.mapSlot {c : CQ} (h : Inv F ext c) {um : List (Option Nat)} (hum : c.um = some um) {i p : Nat}
    (hi : um[i]? = some none) (hp : p ∉ mapped c) (hu : p ∈ c.used) (hk : (p : Int) ∈ keys c.qlist)
    (hneg : (-(1 + (p : Int))) ∉ keys c.qlist) :
    Inv F ext { c with um := some (um.set i (some p)) } := by
  obtain ⟨A, B, h1, h2⟩ := filterMap_set_some um i p hi
  have hm : mapped c = A ++ B := by simp [mapped, hum, h1]
  apply h.setUm
  · simp only [Option.getD_some, h2]
    have hn := h.mapped_nodup; rw [hm] at hn hp
    rw [nodup_append] at hn ⊢
    simp only [mem_append, not_or] at hp
    refine ⟨hn.1, nodup_cons.2 ⟨hp.2, hn.2.1⟩, ?_⟩
    intro a ha b hb
    rcases mem_cons.1 hb with hb | hb
    · subst hb; intro e; subst e; exact hp.1 ha
    · exact hn.2.2 a ha b hb
  · intro q hq
    simp only [Option.getD_some, h2] at hq
    rcases mem_append.1 hq with hq | hq
    · have : q ∈ mapped c := by rw [hm]; exact mem_append_left _ hq
      exact ⟨h.mapped_used q this, h.mapped_ql q this, h.neg_keys q this⟩
    · rcases mem_cons.1 hq with hq | hq
      · subst hq; exact ⟨hu, hk, hneg⟩
      · have : q ∈ mapped c := by rw [hm]; exact mem_append_right _ hq
        exact ⟨h.mapped_used q this, h.mapped_ql q this, h.neg_keys q this⟩

theorem keys_append {κ β : Type} (l m : List (κ × β)) : keys (l ++ m) = keys l ++ keys m := by simp [keys]
theorem vals_append {κ β : Type} (l m : List (κ × β)) : vals (l ++ m) = vals l ++ vals m := by simp [vals]

/-- `cmd_new` succeeded for a fresh key: a new token is held and registered in qubitList -/
theorem Inv.reg {c : CQ} (h : Inv F ext c) {k : Int} (hk : k ∉ keys c.qlist) (hp : physOf k ∈ c.used)
    (hkneg : ∀ p ∈ mapped c, (-(1 + (p : Int))) ≠ k) :
    Inv F ext { c with node := { c.node with held := c.node.held ++ [c.node.next], next := c.node.next + 1 },
                       qlist := aSet c.qlist k c.node.next } := by
  rw [aSet_of_not_mem _ hk]
  refine ⟨h.1, h.2, ?_, ?_, ?_, ?_, ?_, ?_, ?_, h.10, ?_, fun t ht => mem_append_left _ (h.12 t ht), ?_, ?_, ?_⟩
  rotate_right 3
  · intro p hp' hm; rw [keys_append] at hm
    rcases mem_append.1 hm with hm | hm
    · exact h.13 p hp' hm
    · simp [keys] at hm; exact hkneg p hp' hm
  · intro f hf
    obtain ⟨f1, f2, f3⟩ := h.14 f hf
    refine ⟨Nat.lt_succ_of_lt f1, ?_, f3⟩
    rw [vals_append]; simp only [vals, map_cons, map_nil, mem_append, mem_singleton, not_or]
    exact ⟨f2, Nat.ne_of_lt f1⟩
  · simp only [length_append, length_cons, length_nil]; have := h.15; omega
  · intro p hp'; rw [keys_append]; exact mem_append_left _ (h.3 p hp')
  · rw [keys_append]; simp only [keys, map_cons, map_nil]
    rw [nodup_append]
    refine ⟨h.4, by simp, ?_⟩
    intro a ha b hb; simp at hb; subst hb; intro e; subst e; exact hk ha
  · intro k' hk'; rw [keys_append] at hk'
    rcases mem_append.1 hk' with hk' | hk'
    · exact h.5 k' hk'
    · simp [keys] at hk'; subst hk'; exact hp
  · rw [vals_append]; simp only [vals, map_cons, map_nil]
    rw [nodup_append]
    refine ⟨h.6, by simp, ?_⟩
    intro a ha b hb; simp at hb; subst hb; intro e; subst e
    exact Nat.lt_irrefl _ (h.7 _ ha)
  · intro t ht; rw [vals_append] at ht
    rcases mem_append.1 ht with ht | ht
    · exact Nat.lt_succ_of_lt (h.7 t ht)
    · simp [vals] at ht; subst ht; exact Nat.lt_succ_self _
  · intro t ht; rw [vals_append] at ht
    rcases mem_append.1 ht with ht | ht
    · exact mem_append_left _ (h.8 t ht)
    · simp [vals] at ht; subst ht; simp
  · intro t ht; exact Nat.lt_succ_of_lt (h.9 t ht)
  · intro t ht; rw [vals_append]
    simp only [vals, map_cons, map_nil, mem_append, mem_singleton, not_or]
    exact ⟨h.11 t ht, fun e => Nat.lt_irrefl _ (e ▸ h.9 t ht)⟩

theorem vals_aDel_sublist {κ β : Type} [DecidableEq κ] (l : List (κ × β)) (k : κ) : (vals (aDel l k)).Sublist (vals l) :=
  (filter_sublist).map _

/-- the other entries of an association list with distinct values keep values different from a removed one -/
theorem not_mem_vals_aDel {l : List (Int × Nat)} {k : Int} {t : Nat} (hn : (vals l).Nodup) (hg : aGet l k = some t) :
    t ∉ vals (aDel l k) := by
  induction l with
  | nil => cases hg
  | cons e l ih =>
    simp only [vals, map_cons, nodup_cons] at hn
    rw [aGet_cons] at hg
    by_cases he : e.1 = k
    · rw [if_pos he] at hg; cases hg
      have : aDel (e :: l) k = aDel l k := by simp [aDel, he]
      rw [this]
      exact fun hm => hn.1 ((vals_aDel_sublist l k).subset hm)
    · rw [if_neg he] at hg
      have : aDel (e :: l) k = e :: aDel l k := by simp [aDel, he]
      rw [this]
      simp only [vals, map_cons, mem_cons, not_or]
      refine ⟨?_, ih hn.2 hg⟩
      intro e'
      exact hn.1 (e' ▸ mem_map.2 ⟨(k, t), mem_of_aGet hg, rfl⟩)

/-- a registered qubit leaves the node (destructive measurement, or handed to a peer) and its
handle is removed from qubitList; the key must not be mapped any more -/
theorem Inv.kill {c : CQ} (h : Inv F ext c) {k : Int} {t : Nat} (hg : aGet c.qlist k = some t)
    (hm : ∀ p ∈ mapped c, (p : Int) ≠ k) :
    Inv F ext { c with node := c.node.drop t, qlist := aDel c.qlist k } := by
  have hsub := vals_aDel_sublist c.qlist k
  have hnot := not_mem_vals_aDel h.toks_nodup hg
  refine ⟨h.1, h.2, ?_, keys_nodup_aDel k h.4, ?_, h.6.sublist hsub, ?_, ?_, h.9, h.10, ?_, ?_, ?_, ?_, ?_⟩
  rotate_right 3
  · intro p hp hm'; rw [keys_aDel, mem_filter] at hm'; exact h.13 p hp hm'.1
  · intro f hf
    obtain ⟨f1, f2, f3⟩ := h.14 f hf
    exact ⟨f1, fun hv => f2 (hsub.subset hv), f3⟩
  · have hth : t ∈ c.node.held := h.8 t (mem_map.2 ⟨(k, t), mem_of_aGet hg, rfl⟩)
    have h1 := length_erase_of_mem hth
    have h2 := length_aDel_of_mem h.4 (mem_keys_of_aGet hg)
    have h3 := h.15
    have h4 : 0 < c.node.held.length := length_pos_of_mem hth
    simp only [Node.drop]
    omega
  · intro p hp
    rw [keys_aDel, mem_filter]
    exact ⟨h.3 p hp, by simpa using hm p hp⟩
  · intro k' hk'
    rw [keys_aDel, mem_filter] at hk'
    exact h.5 k' hk'.1
  · intro t' ht'; exact h.7 t' (hsub.subset ht')
  · intro t' ht'
    have : t' ≠ t := fun e => hnot (e ▸ ht')
    exact (mem_erase_of_ne this).2 (h.8 t' (hsub.subset ht'))
  · intro t' ht' hv; exact h.11 t' ht' (hsub.subset hv)
  · intro t' ht'
    have : t' ≠ t := fun e => h.11 t' ht' (e ▸ mem_map.2 ⟨(k, t), mem_of_aGet hg, rfl⟩)
    exact (mem_erase_of_ne this).2 (h.12 t' ht')

/-- a peer delivered a pair half: a fresh token is held and queued -/
theorem Inv.arrive {c : CQ} (h : Inv F ext c) (sock sender : Int) :
    Inv F ext { c with node := { c.node with held := c.node.held ++ [c.node.next], next := c.node.next + 1,
                                             inbox := c.node.inbox ++ [(sock, sender, c.node.next)] } } := by
  refine ⟨h.1, h.2, h.3, h.4, h.5, h.6, ?_, ?_, ?_, ?_, ?_, ?_, h.13, ?_, ?_⟩
  rotate_right 2
  · intro f hf
    obtain ⟨f1, f2, f3⟩ := h.14 f hf
    refine ⟨Nat.lt_succ_of_lt f1, f2, ?_⟩
    simp only [inboxToks, map_append, map_cons, map_nil, mem_append, mem_singleton, not_or]
    exact ⟨f3, Nat.ne_of_lt f1⟩
  · simp only [length_append, length_cons, length_nil]; have := h.15; omega
  · intro t ht; exact Nat.lt_succ_of_lt (h.7 t ht)
  · intro t ht; exact mem_append_left _ (h.8 t ht)
  · intro t ht
    simp only [inboxToks, map_append, map_cons, map_nil, mem_append, mem_singleton] at ht
    rcases ht with ht | ht
    · exact Nat.lt_succ_of_lt (h.9 t ht)
    · subst ht; exact Nat.lt_succ_self _
  · simp only [inboxToks, map_append, map_cons, map_nil]
    rw [nodup_append]
    refine ⟨h.10, by simp, ?_⟩
    intro a ha b hb; simp at hb; subst hb; intro e; subst e
    exact Nat.lt_irrefl _ (h.9 _ ha)
  · intro t ht
    simp only [inboxToks, map_append, map_cons, map_nil, mem_append, mem_singleton] at ht
    rcases ht with ht | ht
    · exact h.11 t ht
    · subst ht; intro hv; exact Nat.lt_irrefl _ (h.7 _ hv)
  · intro t ht
    simp only [inboxToks, map_append, map_cons, map_nil, mem_append, mem_singleton] at ht
    rcases ht with ht | ht
    · exact mem_append_left _ (h.12 t ht)
    · subst ht; simp

/-- `cmd_epr_recv`: the first queued half is popped and registered under a fresh key -/
theorem Inv.claim {c : CQ} (h : Inv F ext c) {e : Int × Int × Nat} (he : e ∈ c.node.inbox) {k : Int}
    (hk : k ∉ keys c.qlist) (hp : physOf k ∈ c.used) (hkneg : ∀ p ∈ mapped c, (-(1 + (p : Int))) ≠ k) :
    Inv F ext { c with node := { c.node with inbox := c.node.inbox.erase e }, qlist := aSet c.qlist k e.2.2 } := by
  rw [aSet_of_not_mem _ hk]
  have het : e.2.2 ∈ inboxToks c.node := mem_map.2 ⟨e, he, rfl⟩
  have hsub : (inboxToks { c.node with inbox := c.node.inbox.erase e }).Sublist (inboxToks c.node) :=
    (erase_sublist).map _
  refine ⟨h.1, h.2, ?_, ?_, ?_, ?_, ?_, ?_, ?_, h.10.sublist hsub, ?_, fun t ht => h.12 t (hsub.subset ht), ?_, ?_, ?_⟩
  rotate_right 3
  · intro p hp' hm; rw [keys_append] at hm
    rcases mem_append.1 hm with hm | hm
    · exact h.13 p hp' hm
    · simp [keys] at hm; exact hkneg p hp' hm
  · intro f hf
    obtain ⟨f1, f2, f3⟩ := h.14 f hf
    refine ⟨f1, ?_, fun hi => f3 (hsub.subset hi)⟩
    rw [vals_append]; simp only [vals, map_cons, map_nil, mem_append, mem_singleton, not_or]
    exact ⟨f2, fun e' => f3 (e' ▸ het)⟩
  · have h1 := length_erase_of_mem he
    have h2 : 0 < c.node.inbox.length := length_pos_of_mem he
    simp only [length_append, length_cons, length_nil]
    have := h.15; omega
  · intro p hp'; rw [keys_append]; exact mem_append_left _ (h.3 p hp')
  · rw [keys_append]; simp only [keys, map_cons, map_nil]
    rw [nodup_append]
    refine ⟨h.4, by simp, ?_⟩
    intro a ha b hb; simp at hb; subst hb; intro e'; subst e'; exact hk ha
  · intro k' hk'; rw [keys_append] at hk'
    rcases mem_append.1 hk' with hk' | hk'
    · exact h.5 k' hk'
    · simp [keys] at hk'; subst hk'; exact hp
  · rw [vals_append]; simp only [vals, map_cons, map_nil]
    rw [nodup_append]
    refine ⟨h.6, by simp, ?_⟩
    intro a ha b hb; simp at hb; subst hb; intro e'; subst e'
    exact h.11 _ het ha
  · intro t ht; rw [vals_append] at ht
    rcases mem_append.1 ht with ht | ht
    · exact h.7 t ht
    · simp [vals] at ht; subst ht; exact h.9 _ het
  · intro t ht; rw [vals_append] at ht
    rcases mem_append.1 ht with ht | ht
    · exact h.8 t ht
    · simp [vals] at ht; subst ht; exact h.12 _ het
  · intro t ht; exact h.9 t (hsub.subset ht)
  · intro t ht
    rw [vals_append]
    simp only [vals, map_cons, map_nil, mem_append, mem_singleton, not_or]
    refine ⟨h.11 t (hsub.subset ht), ?_⟩
    -- the remaining queue entries carry other tokens (the queue has no duplicates)
    intro e'
    subst e'
    have hnd := h.10
    unfold inboxToks at hnd ht
    have : (c.node.inbox.erase e).map (·.2.2) = (c.node.inbox.map (·.2.2)).erase e.2.2 := by
      clear ht hsub
      generalize c.node.inbox = l at he hnd
      induction l with
      | nil => cases he
      | cons x l ih =>
        simp only [map_cons, nodup_cons] at hnd
        by_cases hx : x = e
        · subst hx; simp
        · rcases mem_cons.1 he with he | he
          · exact absurd he.symm hx
          · have hne : x.2.2 ≠ e.2.2 := fun e' => hnd.1 (e' ▸ mem_map.2 ⟨e, he, rfl⟩)
            rw [erase_cons_tail (by simpa using hx), map_cons, map_cons, erase_cons_tail (by simpa using hne), ih he hnd.2]
    rw [this] at ht
    exact (hnd.mem_erase_iff.1 ht).1 rfl

end SqVerif.NqExec

import SqVerif.Gen.SkeletonDyn
import SqVerif.SkelDynLemmasTrans
import SqVerif.SkelDynPathsB
import SqVerif.Props.C03Dyn
/-!
# C03 — the dynamic-guard bridge: the code's pointer discipline ⟹ the premises of T03.1′

`Props/C03Dyn.lean` proves the 2PL theorem for STATE-DEPENDENT guards (a handle's simulator pointer is guarded by
the lock of the node it currently names) at protocol level, with a hand-written instance.  This file ties its
hypotheses to what `virtual.py` says NOW: `Gen/SkeletonDyn.lean` is regenerated on every run by
`harness/gen/skeldyn.py` from the AST of every method that reads or writes `<handle>.simNode` / `.simQubit`.

1. `dyn_accessors`, `dyn_methods_classified`
                         the methods the AST walk found, by name; each is an operation kind of the theorem, a
                         fragment checked under its contract, a constructor, or listed in `knownUndisciplined` —
                         a new accessor breaks one of these two.
2. `dyn_ops_disciplined` every operation kind of `dynOpKinds` (one-qubit gates, measurement, two-qubit gates), with the
                         lock time-out branches pruned, passes the reader AND the writer discipline
                         (`decide` on the regenerated skeletons).
3. `dyn_skeleton_schedules_serializable`, `dyn_wellformed_ops_serializable`
                         every complete lock-exclusive interleaving of runs of those kinds is legal under the
                         dynamic discipline, and — after the aborted lock attempts are dropped — conflict-equivalent
                         to the serial schedule ordered by lock points: same final state on every initial state,
                         every operation's own order kept, conflicting steps in the same order, serial.
                         Obtained from `dyn_weak_serializable` / `dyn_conflicts_ordered` (`Props/C03Dyn.lean`)
                         through `legalD_of_disciplined`, `transD_disciplined`, `transD_weakTP`.
4. `knownUndisciplined`, `dyn_known_undisciplined_fail`
                         the real methods that do NOT satisfy the discipline, each with the key of the open finding
                         it corresponds to in `known_findings.json`; proved to fail by `decide`, so that a repair
                         shows up as a changed obligation.
5. `dyn_fragments_under_contract`   the helper halves pass given what their caller holds / has validated.
6. non-vacuity: a concrete run of the generated `_single_gate` (with one aborted attempt) and of the generated
   `_two_qubit_gate` (a merge that re-points the target handle, the loop variable aliasing it), truly interleaved;
   every hypothesis of (3) checked.
7. negative lemmas: the generated reader with the re-validation removed, and the generated writer with the local
   node's lock left out of `_lock_nodes`, fail the checkers.

## What is assumed (explicit, named) — the rest is derived

* `LockExcl`               exclusivity of the lock objects (Twisted's `DeferredLock`).
* `DynRun.Env.path`        the run's event trace is a path of the regenerated skeleton (the translator is trusted;
                           conservative: what it cannot classify is `unknown`, on which every checker fails).
* `DynRun.Env.sound`       state-independent facts about the effect functions (`AAct.Sound`): effects are local to
                           their footprint; a comparison / a use does not assign the pointer; the data a use touches
                           through a handle is guarded (statically) by the lock the handle was validated against;
                           a re-pointing stores a node guarded by the lock named as `new`; guards outside the
                           footprint are left alone (for `ptrGuard` this follows from locality).
* `Truthful`               every comparison `h.simNode == <node>` that the run took as successful was true of the
                           state in which it was evaluated (the semantics of `==`).  That the pointer STAYS equal
                           until the release is NOT assumed: it is the invariant of `legalD_of_disciplined`.
* `IsInterleavingA`        program order.

## What the claim does not cover

* runs in which a lock timer of `_lock_nodes` fires (`dNoTimeout`; `dyn_notCovered_lockTimeout`, F15);
* the handle LIST of a node (`virtQubits`): it is not a resource of this model.  `remote_update_virtual_merge`
  iterates a third node's list across a `yield` without that node's lock (`dyn_notCovered_thirdNodeListIteration`,
  F12); the re-pointing writes it makes there ARE covered — as steps of the calling gate's transaction, which holds
  the old and the new simulator's lock;
* the unlocked `active` pre-tests (no event here, as in `Props/C03Bridge.lean`);
* `remote_send_qubit` and the observers: `knownUndisciplined`.
-/
namespace SqVerif.C03
open SqVerif.Skel (Handle Exit)
open SqVerif.SkelDyn SqVerif.GenDyn SqVerif.TwoPL SqVerif.SkelTwoPL SqVerif.TwoPLDyn

/-! ### (1) what the AST walk found -/

/-- the translator ran to completion -/
theorem dyn_translator_ok : translatorOK = true := by decide

/-- the methods of `virtual.py` whose AST contains an access to `<handle>.simNode` / `<handle>.simQubit` -/
theorem dyn_accessors : ptrAccessors =
    ["virtualNode.remote_send_qubit", "virtualNode.remote_update_virtual_merge", "virtualNode.remote_get_register",
     "virtualNode.remote_get_multiple_qubits", "virtualQubit.__init__", "virtualQubit._single_gate",
     "virtualQubit.remote_measure", "virtualQubit._lock_nodes", "virtualQubit._lock_inreg",
     "virtualQubit._unlock_inreg", "virtualQubit._two_qubit_gate", "virtualQubit.remote_get_number",
     "virtualQubit.remote_get_simNode", "virtualQubit.remote_get_qubit", "virtualQubit.remote_get_register_RI",
     "virtualQubit._lock_simulating_node"] := by decide

/-- … and the reads of a field of that name on objects of another class that the translator set aside -/
theorem dyn_non_handle_reads : nonHandleReads = [("remote_new_qubit_inreg", "reg.simNode")] := by decide

/-- the operation kinds of the theorem: one-qubit gates, measurement, two-qubit gates -/
def dynOpKinds : List String :=
  ["virtualQubit._single_gate", "virtualQubit.remote_apply_X", "virtualQubit.remote_apply_Y",
   "virtualQubit.remote_apply_Z", "virtualQubit.remote_apply_H", "virtualQubit.remote_apply_K",
   "virtualQubit.remote_apply_S", "virtualQubit.remote_apply_T", "virtualQubit.remote_apply_rotation",
   "virtualQubit.remote_measure", "virtualQubit._two_qubit_gate", "virtualQubit.remote_cnot_onto",
   "virtualQubit.remote_cphase_onto"]

/-- helper halves: (name, node locks the caller holds, handles the caller has validated) -/
def dynFragments : List (String × List LRef × List (Handle × LRef)) :=
  [("virtualQubit._lock_simulating_node", [], []),
   ("virtualQubit._lock_nodes", [], []),
   -- `qubit` (the second handle of the method) was validated by `_lock_nodes` against a node whose lock is held
   ("virtualQubit._lock_inreg", [.arg "sim"], [(.t, .arg "sim")]),
   ("virtualQubit._unlock_inreg", [.arg "sim"], [(.t, .arg "sim")]),
   -- `assert self._lock.locked` (the NEW simulator); the caller holds the OLD simulator's lock
   ("virtualNode.remote_merge_from", [.self, .arg "simNodeName"], []),
   ("virtualNode.remote_update_virtual_merge", [.arg "oldSimNodeName", .arg "newSimNodeName"], [])]

/-- constructors: the pointer of a handle that nobody else can reach yet is initialised -/
def dynConstructors : List String := ["virtualQubit.__init__"]

/-- **the real methods that do NOT satisfy the discipline**: (name, key of the open finding in
    `known_findings.json` (property C03), why) -/
def knownUndisciplined : List (String × String × String) :=
  [("virtualNode.remote_send_qubit", "g2:LR||send:R:same-reg:no-serialisation",
      "a qubit simulated at the RECEIVER: `_lock_simulating_node(exclude=[self, receiver])` returns without a lock " ++
      "and `get_sim_number` / `transfer_qubit` dereference the pointer unvalidated"),
   ("virtualNode.remote_netqasm_send_qubit", "g2:LR||send:R:same-reg:no-serialisation", "calls remote_send_qubit"),
   ("virtualNode.remote_netqasm_send_epr_half", "g2:LR||send:R:same-reg:no-serialisation", "calls remote_send_qubit"),
   ("virtualQubit._lock_nodes", "lock-nodes-timeout:foreign-release",
      "the time-out path cancels and then releases every requested node, granted or not (F15); disciplined with the " ++
      "time-out branch pruned.  `_two_qubit_gate` and its wrappers inline it: they are operation kinds of the theorem " ++
      "only with that branch pruned (`dNoTimeout`)"),
   ("virtualNode.remote_update_virtual_merge", "merge-vs-third-party-list-mutation:update_virtual_merge",
      "run as its own transaction (a third node) it re-points handles holding no lock at all (F12); disciplined under " ++
      "the contract `dynFragments` (old and new simulator locked by the calling gate)"),
   ("virtualNode.remote_merge_from", "merge-vs-third-party-list-mutation:update_virtual_merge",
      "inlines remote_update_virtual_merge; the old simulator's lock is the caller's; disciplined under contract"),
   ("virtualQubit._lock_inreg", "(none: helper half, not an operation)", "uses the pointer its caller validated"),
   ("virtualQubit._unlock_inreg", "(none: helper half, not an operation)", "uses the pointer its caller validated"),
   ("virtualNode.remote_get_register_RI", "(none: observer outside the operation kinds of C03)", "unlocked read"),
   ("virtualNode.remote_get_register", "(none: observer outside the operation kinds of C03)", "unlocked read"),
   ("virtualNode.remote_get_multiple_qubits", "(none: observer outside the operation kinds of C03)",
      "unlocked read; `qList[0].simNode` is a pointer read the translator cannot attribute to a handle (`unknown`)"),
   ("virtualQubit.remote_get_number", "(none: observer outside the operation kinds of C03)", "unlocked read"),
   ("virtualQubit.remote_get_simNode", "(none: observer outside the operation kinds of C03)", "unlocked read"),
   ("virtualQubit.remote_get_qubit", "(none: observer outside the operation kinds of C03)", "unlocked read"),
   ("virtualQubit.remote_get_register_RI", "(none: observer outside the operation kinds of C03)", "unlocked read"),
   ("virtualQubit.__init__", "(none: constructor)", "initialises the pointer of a fresh handle")]

def failsDiscipline (name : String) : Bool :=
  match allDynMethods.find name with
  | some b => !disciplined b
  | none => false

/-- every translated method is an operation kind (passes when pruned), a helper half that passes standalone or
    under its contract, or is listed in `knownUndisciplined` — and every listed name exists -/
theorem dyn_methods_classified :
    (allDynMethods.map (fun m => m.1)).all
      (fun n => decide (n ∈ dynOpKinds) || decide (n ∈ dynFragments.map (fun p => p.1)) ||
        decide (n ∈ knownUndisciplined.map (fun p => p.1))) = true ∧
    (dynOpKinds ++ knownUndisciplined.map (fun p => p.1) ++ dynFragments.map (fun p => p.1) ++ dynConstructors).all
      (fun n => (allDynMethods.find n).isSome) = true := by decide

/-- **(4)** the listed methods fail the discipline as they stand (a repair changes this obligation) -/
theorem dyn_known_undisciplined_fail : knownUndisciplined.all (fun p => failsDiscipline p.1) = true := by
  decide +kernel

/-! ### (2) the operation kinds are disciplined -/

/-- **T03.2″ (one-qubit gate)**: `_single_gate`, every path (the time-out pruning changes nothing here) -/
theorem dyn_single_gate_disciplined : disciplined (dNoTimeout Q__single_gate) = true := by decide +kernel

/-- **T03.2″ (measurement)** -/
theorem dyn_measure_disciplined : disciplined (dNoTimeout Q_remote_measure) = true := by decide +kernel

/-- **T03.2″ (two-qubit gate: reader of two pointers and THE writer)**, lock time-out branches pruned -/
theorem dyn_two_qubit_gate_disciplined : disciplined (dNoTimeout Q__two_qubit_gate) = true := by decide +kernel

/-- the client-visible wrappers are their helper, inlined (checked on the regenerated terms) -/
theorem dyn_wrappers_are_scopes :
    Q_remote_apply_X = .scope Q__single_gate ∧ Q_remote_apply_Y = .scope Q__single_gate ∧
    Q_remote_apply_Z = .scope Q__single_gate ∧ Q_remote_apply_H = .scope Q__single_gate ∧
    Q_remote_apply_K = .scope Q__single_gate ∧ Q_remote_apply_S = .scope Q__single_gate ∧
    Q_remote_apply_T = .scope Q__single_gate ∧ Q_remote_apply_rotation = .scope Q__single_gate ∧
    Q_remote_cnot_onto = .scope Q__two_qubit_gate ∧ Q_remote_cphase_onto = .scope Q__two_qubit_gate :=
  ⟨rfl, rfl, rfl, rfl, rfl, rfl, rfl, rfl, rfl, rfl⟩

theorem disciplined_scope (b : DStmt) (h : disciplined (dNoTimeout b) = true) :
    disciplined (dNoTimeout (.scope b)) = true := by
  unfold disciplined disciplinedFrom at h ⊢
  simp only [dNoTimeout]
  rw [dAllOuts_scope]
  exact h

/-- **T03.2″**: every operation kind of `dynOpKinds`, with the lock time-out branches pruned, obeys the reader and
    the writer discipline on every path -/
theorem dyn_ops_disciplined :
    ∀ name ∈ dynOpKinds, ∃ b, allDynMethods.find name = some b ∧ disciplined (dNoTimeout b) = true := by
  obtain ⟨hX, hY, hZ, hH, hK, hS, hT, hR, hC, hP⟩ := dyn_wrappers_are_scopes
  have g1 := disciplined_scope _ dyn_single_gate_disciplined
  have g2 := disciplined_scope _ dyn_two_qubit_gate_disciplined
  intro name hk
  simp only [dynOpKinds, List.mem_cons, List.not_mem_nil, or_false] at hk
  rcases hk with rfl | rfl | rfl | rfl | rfl | rfl | rfl | rfl | rfl | rfl | rfl | rfl | rfl
  · exact ⟨Q__single_gate, rfl, dyn_single_gate_disciplined⟩
  · exact ⟨Q_remote_apply_X, rfl, by rw [hX]; exact g1⟩
  · exact ⟨Q_remote_apply_Y, rfl, by rw [hY]; exact g1⟩
  · exact ⟨Q_remote_apply_Z, rfl, by rw [hZ]; exact g1⟩
  · exact ⟨Q_remote_apply_H, rfl, by rw [hH]; exact g1⟩
  · exact ⟨Q_remote_apply_K, rfl, by rw [hK]; exact g1⟩
  · exact ⟨Q_remote_apply_S, rfl, by rw [hS]; exact g1⟩
  · exact ⟨Q_remote_apply_T, rfl, by rw [hT]; exact g1⟩
  · exact ⟨Q_remote_apply_rotation, rfl, by rw [hR]; exact g1⟩
  · exact ⟨Q_remote_measure, rfl, dyn_measure_disciplined⟩
  · exact ⟨Q__two_qubit_gate, rfl, dyn_two_qubit_gate_disciplined⟩
  · exact ⟨Q_remote_cnot_onto, rfl, by rw [hC]; exact g2⟩
  · exact ⟨Q_remote_cphase_onto, rfl, by rw [hP]; exact g2⟩

/-- the gate is the writer: it is the only operation kind whose skeleton re-points a handle -/
theorem dyn_writers :
    (allDynMethods.filter (fun m => decide (m.1 ∈ dynOpKinds) && m.2.repoints)).map (fun m => m.1) =
      ["virtualQubit.remote_cnot_onto", "virtualQubit.remote_cphase_onto", "virtualQubit._two_qubit_gate"] := by
  decide +kernel

/-- **(5)** the helper halves pass under their contract -/
theorem dyn_fragments_under_contract :
    dynFragments.all (fun p => match allDynMethods.find p.1 with
      | some b => disciplinedFrom p.2.1 p.2.2 (dNoTimeout b)
      | none => false) = true := by decide +kernel

/-! ### (3) runs of operations and the bridge theorem -/

section Bridge
variable {V : Type}

/-- the schedule without the aborted lock attempts (as `committed` of `Props/C03Bridge.lean`; this file does not
    import that one, so that its obligations are checked independently of the static skeletons) -/
def dynCommitted (s : Sched V) : Sched V := dropAb [] s

/-- the serial schedule: `dynCommitted s` stably sorted by lock point -/
def dynSerialOf (s : Sched V) : Sched V := sortR (rankOf (dynCommitted s)) (dynCommitted s)

/-- one run of one pointer-reading / -writing operation -/
structure DynRun (V : Type) where
  /-- the pointer skeleton of the method -/
  body : DStmt
  /-- what the references, handles and positions of the trace denote in this run -/
  ρ : DAsg V
  /-- the path taken -/
  tr : List DEv
  exit : Exit

/-- the annotated transaction of the run -/
def DynRun.txnA (o : DynRun V) : List (AAct V) := transD o.ρ (dInit [] []) (ts0 o.ρ) 0 o.tr

/-- the `TwoPL` transaction of the run -/
def DynRun.txn (o : DynRun V) : Txn V := o.txnA.map AAct.erase

/-- the monitor premise (decidable on the skeleton) -/
def DynRun.Checked (o : DynRun V) : Prop := disciplined o.body = true

/-- the environmental premises -/
structure DynRun.Env (guard : DGuard V) (o : DynRun V) : Prop where
  path : dpaths o.body o.tr o.exit
  sound : ∀ a, a ∈ o.txnA → a.Sound guard

/-- the annotated schedule `as` is an interleaving of the annotated transactions `ops` -/
def IsInterleavingA (ops : List (List (AAct V))) (as : ASched V) : Prop := ∀ t, aacts t as = ops.getD t []

/-- on a path of a disciplined skeleton the monitor raises no violation -/
theorem checked_path (o : DynRun V) (hc : o.Checked) (hp : dpaths o.body o.tr o.exit) :
    (o.tr.foldl dStep (dInit [] [])).violR = false ∧ (o.tr.foldl dStep (dInit [] [])).violW = false := by
  have := dAllOuts_sound dStep (dInit [] []) (fun st => !st.violR && !st.violW) o.body hc o.tr o.exit hp
  simpa using this

theorem getD_map_txnA (ops : List (DynRun V)) (t : Tid) :
    (ops.map DynRun.txnA).getD t [] = [] ∨ ∃ o, o ∈ ops ∧ (ops.map DynRun.txnA).getD t [] = o.txnA := by
  rw [List.getD_eq_getElem?_getD, List.getElem?_map]
  cases h : ops[t]? with
  | none => left; rfl
  | some o => right; exact ⟨o, List.mem_of_getElem? h, rfl⟩

theorem mem_aacts (s : ASched V) (x : AStep V) (hx : x ∈ s) : x.act ∈ aacts x.tid s := by
  unfold aacts
  exact List.mem_map.2 ⟨x, List.mem_filter.2 ⟨hx, by simp⟩, rfl⟩

/-- what "serializable" means here (the dynamic counterpart of `Serializable` of `Props/C03Bridge.lean`) -/
structure DynSerializable (guard : DGuard V) (tbl : Tbl) (σ0 : St V) (s : Sched V) : Prop where
  /-- the schedule itself is legal under the dynamic discipline: every effect holds the guard each resource of its
      footprint has NOW and the guard it has AFTERWARDS -/
  legal : LegalD guard tbl σ0 s
  /-- the committed schedule meets every premise of `dyn_serializable` -/
  premises : AllWF (dynCommitted s) ∧ AllGF guard (dynCommitted s) ∧ AllTwoPhase (dynCommitted s) ∧
    LegalD guard (pruneTbl [] s tbl) σ0 (dynCommitted s)
  /-- same final state on every initial state -/
  sameState : ∀ st, exec (dynSerialOf s) st = exec s st
  /-- the serial schedule consists of the committed steps … -/
  sameSteps : (dynSerialOf s).Perm (dynCommitted s)
  /-- … in each operation's own order … -/
  ownOrder : ∀ t, proj t (dynSerialOf s) = proj t (dynCommitted s)
  /-- … which are the operation's steps in the original order minus aborted lock attempts … -/
  committedSub : ∀ t, (proj t (dynCommitted s)).Sublist (proj t s)
  /-- … with every effect step kept -/
  effectsKept : (dynCommitted s).filter (fun x => isEffA x.act) = s.filter (fun x => isEffA x.act)
  /-- conflict equivalence: two steps of different operations that share a resource — however often it was
      re-pointed in between — have strictly increasing lock points, so the serial order never reverses them -/
  conflictsOrdered : ∀ (pre : Sched V) (x : Step V) (a : Sched V) (y : Step V) (b : Sched V) (r : Res),
    dynCommitted s = pre ++ x :: a ++ y :: b → r ∈ x.act.fp → r ∈ y.act.fp → x.tid ≠ y.tid →
    rankOf (dynCommitted s) x.tid < rankOf (dynCommitted s) y.tid ∧
    ∀ p y' m x' q, dynSerialOf s = p ++ y' :: m ++ x' :: q → y'.tid = y.tid → x'.tid ≠ x.tid
  /-- and it is serial: each operation's steps are contiguous -/
  serial : AllLock (dynCommitted s) → Serial (dynSerialOf s)

/-- **(3)** for any finite family of runs whose pointer skeletons pass the reader and the writer discipline, any
    assignments, any choice of one path each, and ANY lock-exclusive interleaving `as` of the translated
    (annotated) transactions in which the successful comparisons were true when evaluated: the schedule is legal
    under the dynamic discipline and, after the aborted lock attempts are dropped, conflict-equivalent to the
    serial schedule ordered by lock points.  Obtained from `dyn_weak_serializable` and `dyn_conflicts_ordered`
    (`Props/C03Dyn.lean`) through `legalD_of_disciplined`, `transD_disciplined` and `transD_weakTP`. -/
theorem dyn_skeleton_schedules_serializable (guard : DGuard V) (ops : List (DynRun V))
    (hck : ∀ o, o ∈ ops → o.Checked) (henv : ∀ o, o ∈ ops → o.Env guard)
    (as : ASched V) (tbl : Tbl) (σ0 : St V) (hint : IsInterleavingA (ops.map DynRun.txnA) as)
    (hle : LockExcl tbl (eraseS as)) (htruth : Truthful guard σ0 as) :
    DynSerializable guard tbl σ0 (eraseS as) := by
  have hsound : ∀ x, x ∈ as → x.act.Sound guard := by
    intro x hx
    have hm := mem_aacts as x hx
    rw [hint x.tid] at hm
    rcases getD_map_txnA ops x.tid with h | ⟨o, ho, h⟩
    · rw [h] at hm; cases hm
    · rw [h] at hm; exact (henv o ho).sound _ hm
  have hdisc : ∀ t, ADisc (aacts t as) := by
    intro t
    have hnr := noReacq_of_lockExcl (eraseS as) tbl hle t
    rw [acts_eraseS, hint t] at hnr
    rw [hint t]
    rcases getD_map_txnA ops t with h | ⟨o, ho, h⟩
    · rw [h]; rfl
    · rw [h] at hnr ⊢
      obtain ⟨hR, hW⟩ := checked_path o (hck o ho) (henv o ho).path
      exact transD_disciplined o.ρ o.tr hR hW hnr
  have h2p : ∀ t, WeakTP (acts t (eraseS as)) := by
    intro t
    rw [acts_eraseS, hint t]
    rcases getD_map_txnA ops t with h | ⟨o, ho, h⟩
    · rw [h]; rfl
    · rw [h]
      exact transD_weakTP o.ρ o.tr (checked_path o (hck o ho) (henv o ho).path).1
  have hleg := legalD_of_disciplined guard as tbl σ0 hle hsound htruth hdisc
  have hwf := allWF_eraseS guard as hsound
  have hgf := allGF_eraseS guard as hsound
  obtain ⟨h1, h2, h3, h4, h5, h6⟩ := dyn_weak_serializable guard (eraseS as) tbl σ0 hwf hgf h2p hleg
  exact {
    legal := hleg
    premises := ⟨h1, h2, h3, h4⟩
    sameState := h6
    sameSteps := sortR_perm _ _
    ownOrder := fun t => sortR_filter_tid _ t _
    committedSub := fun t => (dropAb_sublist (eraseS as) []).filter _
    effectsKept := h5
    conflictsOrdered := fun pre x a y b r hs hx hy hne =>
      dyn_conflicts_ordered guard (dynCommitted (eraseS as)) _ σ0 h2 h3 h4 pre x a y b hs r hx hy hne
    serial := fun hlock =>
      sortR_serial _ _ (fun x y hx _ h => rankOf_inj_of_acq _ x.tid y.tid (hlock x hx) h) }

/-- per-operation results: a result is a resource, so it has the same value after the serial schedule -/
theorem dyn_skeleton_schedules_results (guard : DGuard V) (ops : List (DynRun V))
    (hck : ∀ o, o ∈ ops → o.Checked) (henv : ∀ o, o ∈ ops → o.Env guard)
    (as : ASched V) (tbl : Tbl) (σ0 : St V) (hint : IsInterleavingA (ops.map DynRun.txnA) as)
    (hle : LockExcl tbl (eraseS as)) (htruth : Truthful guard σ0 as) (st : St V) (res : Tid → Res) (t : Tid) :
    exec (dynSerialOf (eraseS as)) st (res t) = exec (eraseS as) st (res t) := by
  rw [(dyn_skeleton_schedules_serializable guard ops hck henv as tbl σ0 hint hle htruth).sameState st]

/-- the run executes one of the operation kinds of `dynOpKinds` on the regenerated pointer skeleton, along a path
    on which no lock timer fires (`dNoTimeout`; these are genuine paths of the method: `dNoTimeout_paths`) -/
def DynRun.OfKind (o : DynRun V) (name : String) : Prop :=
  name ∈ dynOpKinds ∧ ∃ body, allDynMethods.find name = some body ∧ o.body = dNoTimeout body

theorem DynRun.OfKind.checked {o : DynRun V} {name : String} (h : o.OfKind name) : o.Checked := by
  obtain ⟨hk, body, hfind, hbody⟩ := h
  obtain ⟨b, hb, hd⟩ := dyn_ops_disciplined name hk
  rw [hfind] at hb
  simp only [Option.some.injEq] at hb
  subst hb
  unfold DynRun.Checked
  rw [hbody]
  exact hd

/-- the path of such a run is a genuine path of the regenerated method skeleton -/
theorem DynRun.OfKind.genuine {o : DynRun V} {name : String} (h : o.OfKind name) (hp : dpaths o.body o.tr o.exit) :
    ∃ body, allDynMethods.find name = some body ∧ dpaths body o.tr o.exit := by
  obtain ⟨_, body, hfind, hbody⟩ := h
  rw [hbody] at hp
  exact ⟨body, hfind, dNoTimeout_paths body _ _ hp⟩

/-- **(3′) — the dynamic-guard bridge.**  Every finite family of runs of operation kinds drawn from `dynOpKinds`
    (one-qubit gates and measurements: validated readers of a handle's simulator pointer; two-qubit gates: validated
    readers of two pointers and the re-pointing writer) — on the pointer skeletons regenerated from `virtual.py`, any
    assignments, any paths without lock time-out, any sound effects — under ANY lock-exclusive interleaving in which
    the successful comparisons were true when evaluated, is serializable in the sense of `DynSerializable`.  The
    monitor premises are discharged by the `decide`d facts `dyn_ops_disciplined`. -/
theorem dyn_wellformed_ops_serializable (guard : DGuard V) (ops : List (DynRun V))
    (hkind : ∀ o, o ∈ ops → ∃ name, o.OfKind name) (henv : ∀ o, o ∈ ops → o.Env guard)
    (as : ASched V) (tbl : Tbl) (σ0 : St V) (hint : IsInterleavingA (ops.map DynRun.txnA) as)
    (hle : LockExcl tbl (eraseS as)) (htruth : Truthful guard σ0 as) :
    DynSerializable guard tbl σ0 (eraseS as) :=
  dyn_skeleton_schedules_serializable guard ops
    (fun o ho => by obtain ⟨name, hk⟩ := hkind o ho; exact hk.checked) henv as tbl σ0 hint hle htruth

/-- the premises a disciplined run contributes, one by one (what `legalD_of_disciplined` consumes): its annotated
    transaction obeys the concrete discipline — every validated read under the lock it names, every use through a
    pointer validated and not released since, every re-pointing under the old AND the new lock — and is two-phase
    modulo aborted attempts -/
theorem dyn_run_premises (o : DynRun V) (hc : o.Checked) (hp : dpaths o.body o.tr o.exit)
    (hnr : noReacq o.txn) : ADisc o.txnA ∧ WeakTP o.txn := by
  obtain ⟨hR, hW⟩ := checked_path o hc hp
  exact ⟨transD_disciplined o.ρ o.tr hR hW hnr, transD_weakTP o.ρ o.tr hR⟩

end Bridge

/-! ### (6) non-vacuity -/

def exDG : DGuard Nat :=
  ptrGuard (fun r => decide (r < 2) || r == 4) (fun v => 10 + v)
    (fun r => if r = 2 then 10 else if r = 3 then 11 else if r = 5 then 12 else 20 + r)

def trW : List DEv :=
  [.readPtr .c 1, .readPtr .t 2, .acq [.self, .cap 1, .cap 2] false,
   .reval .c (.cap 1) true, .reval .t (.cap 2) true,
   .reval .c .self true, .use .c, .use .c,
   .use .c, .use .t,
   .reval .c .self true,
   .use .t, .use .t,
   .readPtr .c 3, .readPtr .t 4, .use .c,
   .requires (.cap 3),
   .iter (.cap 3),
   .bind .q,
   .reval .q (.cap 3) false, .reval .q (.cap 4) false,
   .reval .q (.cap 4) true, .use .q,
   .reval .q (.cap 4) true, .repoint .q (.cap 3),
   .bind .q,
   .repoint .t (.cap 3), .use .t, .use .c,
   .reval .c .self true, .use .c, .use .c,
   .rel [.self, .cap 1, .cap 2]]

/-! The runs of the one-qubit gate are READ OFF the regenerated skeleton (`SkelDynPathsB.dPick`: the shortest path
that ends normally with the required number of aborted attempts), not written down: how often the method
dereferences the pointer — the number of `use` events — is not behaviour (caching `self.simQubit` in a local variable
turns four dereferences into one), and a fixed trace would stop being a path under such a rewrite. -/

/-- number of failed re-validations (= aborted attempts) on a trace -/
def nFailedReval (tr : List DEv) : Nat :=
  (tr.filter (fun e => match e with | .reval _ _ false => true | _ => false)).length

def isUseEv : DEv → Bool
  | .use _ => true
  | _ => false

/-- what the chooser returns on the source as it is today (documentation; nothing below depends on them) -/
def trRref : List DEv :=
  [.readPtr .c 1, .acq [.cap 1] false, .reval .c (.cap 1) false, .rel [.cap 1],
   .readPtr .c 1, .acq [.cap 1] false, .reval .c (.cap 1) true, .use .c, .use .c, .use .c,
   .reval .c (.cap 1) true, .readPtr .c 2, .rel [.cap 2]]

def trR2ref : List DEv :=
  [.readPtr .c 1, .acq [.cap 1] false, .reval .c (.cap 1) true, .use .c, .use .c, .use .c,
   .reval .c (.cap 1) true, .readPtr .c 2, .rel [.cap 2]]

/-- one aborted attempt (the pointer was found stale: unlock, retry), then the gate -/
def specR (tr : List DEv) : Bool := nFailedReval tr == 1 && tr.any isUseEv
/-- the gate at the first attempt -/
def specR2 (tr : List DEv) : Bool := nFailedReval tr == 0 && tr.any isUseEv

def trR : List DEv := dPickD 2 (dNoTimeout Q__single_gate) .norm specR
def trR2 : List DEv := dPickD 2 (dNoTimeout Q__single_gate) .norm specR2

/-- position `i` of `tr` is the last of a run of `use` events: there the gate acts on the data -/
def lastUseAt (tr : List DEv) (i : Nat) : Bool :=
  (match tr[i]? with | some (.use _) => true | _ => false) &&
  !(match tr[i + 1]? with | some (.use _) => true | _ => false)

theorem lastUseAt_use (tr : List DEv) (i : Nat) (h : lastUseAt tr i = true) : ∃ hd, tr[i]? = some (.use hd) := by
  unfold lastUseAt at h
  cases hi : tr[i]? with
  | none => simp [hi] at h
  | some e =>
    cases e with
    | use hd => exact ⟨hd, rfl⟩
    | _ => simp [hi] at h

def idE : St Nat → St Nat := fun σ => σ
def setRes (r : Res) (v : Nat) : St Nat → St Nat := fun σ x => if x = r then v else σ x
def bump (r : Res) : St Nat → St Nat := fun σ x => if x = r then σ x + 1 else σ x

def exρW : DAsg Nat where
  node := fun x => match x with | .self => 10 | _ => 99
  cap := fun i => if i = 0 then 10 else 11
  hptr0 := fun h => match h with | .c => 0 | .t => 1 | .q => 6
  hptr := fun _ => 1
  data := fun _ => []
  F := fun i => match trW[i]? with | some (.repoint _ _) => setRes 1 0 | _ => idE

def exρR : DAsg Nat where
  node := fun _ => 99
  cap := fun i => if i = 0 then 11 else 10
  hptr0 := fun _ => 1
  hptr := fun _ => 7
  data := fun i => if lastUseAt trR i then [2] else []
  F := fun i => if lastUseAt trR i then bump 2 else idE

def exρR2 : DAsg Nat where
  node := fun _ => 99
  cap := fun _ => 12
  hptr0 := fun _ => 4
  hptr := fun _ => 7
  data := fun i => if lastUseAt trR2 i then [5] else []
  F := fun i => if lastUseAt trR2 i then bump 5 else idE

def exW : DynRun Nat := ⟨dNoTimeout Q__two_qubit_gate, exρW, trW, .norm⟩
def exR : DynRun Nat := ⟨dNoTimeout Q__single_gate, exρR, trR, .norm⟩
def exR2 : DynRun Nat := ⟨dNoTimeout Q__single_gate, exρR2, trR2, .norm⟩

set_option maxRecDepth 100000 in
theorem exW_txnA : exW.txnA =
    [.acq 10, .acq 11, .val 0 10 idE, .val 1 11 idE, .val 0 10 idE, .use 0 [] 10 idE, .use 0 [] 10 idE,
     .use 0 [] 10 idE, .use 1 [] 11 idE, .val 0 10 idE, .use 1 [] 11 idE, .use 1 [] 11 idE, .use 0 [] 10 idE,
     .val 1 11 idE, .use 1 [] 11 idE, .val 1 11 idE, .rep 1 10 (setRes 1 0), .rep 1 10 (setRes 1 0),
     .use 1 [] 10 idE, .use 0 [] 10 idE, .val 0 10 idE, .use 0 [] 10 idE, .use 0 [] 10 idE, .rel 10, .rel 11] := rfl

/-- the translated transactions of the two one-qubit gates, on the reference traces (the traces the chooser
    returns today): first attempt aborted, second attempt, the gate's effect at the last dereference -/
def exRref : DynRun Nat :=
  ⟨dNoTimeout Q__single_gate, { exρR with data := fun i => if lastUseAt trRref i then [2] else [],
                                          F := fun i => if lastUseAt trRref i then bump 2 else idE }, trRref, .norm⟩
def exR2ref : DynRun Nat :=
  ⟨dNoTimeout Q__single_gate, { exρR2 with data := fun i => if lastUseAt trR2ref i then [5] else [],
                                           F := fun i => if lastUseAt trR2ref i then bump 5 else idE }, trR2ref, .norm⟩

set_option maxRecDepth 100000 in
theorem exR_txnA : exRref.txnA =
    [.acq 11, .rel 11, .acq 10, .val 1 10 idE, .use 1 [] 10 idE, .use 1 [] 10 idE, .use 1 [2] 10 (bump 2),
     .val 1 10 idE, .rel 10] := rfl

set_option maxRecDepth 100000 in
theorem exR2_txnA : exR2ref.txnA =
    [.acq 12, .val 4 12 idE, .use 4 [] 12 idE, .use 4 [] 12 idE, .use 4 [5] 12 (bump 5), .val 4 12 idE, .rel 12] := rfl

-- the chosen traces ARE the reference traces, unless the source was rewritten: then the reference trace is no
-- longer a path of the regenerated skeleton, or a shorter path with the same specification exists
example : (trR = trRref ∨ dAccepts (dNoTimeout Q__single_gate) trRref .norm = false ∨ trR.length < trRref.length) ∧
    (trR2 = trR2ref ∨ dAccepts (dNoTimeout Q__single_gate) trR2ref .norm = false ∨ trR2.length < trR2ref.length) := by
  decide +kernel

/-! the effects are sound for `exDG` -/

theorem localEff_idE (fp : List Res) : LocalEff fp idE :=
  ⟨fun _ _ _ => rfl, fun _ _ h r hr => h r hr⟩

theorem gf_of_local (fp : List Res) (f : St Nat → St Nat) (h : LocalEff fp f) :
    ∀ σ x, x ∉ fp → exDG (f σ) x = exDG σ x :=
  gf_of_selfRead exDG (ptrGuard_selfRead _ _ _) (.eff fp f) h

theorem sound_val_idE (r : Res) (l : Lock) : (AAct.val r l idE).Sound exDG :=
  ⟨localEff_idE _, fun _ => rfl, gf_of_local _ _ (localEff_idE _)⟩

theorem sound_use_idE (p : Res) (l : Lock) : (AAct.use p [] l idE).Sound exDG :=
  ⟨localEff_idE _, fun _ => rfl, fun _ d hd => (by cases hd), gf_of_local _ _ (localEff_idE _)⟩

theorem localEff_setRes : LocalEff [1] (setRes 1 0) := by
  constructor
  · intro s r hr
    have : r ≠ 1 := by simpa using hr
    simp [setRes, this]
  · intro s s' _ r hr
    have : r = 1 := by simpa using hr
    simp [setRes, this]

theorem sound_rep : (AAct.rep 1 10 (setRes 1 0)).Sound exDG :=
  ⟨localEff_setRes, fun _ => rfl, gf_of_local _ _ localEff_setRes⟩

theorem localEff_bump (p d : Res) (hpd : p ≠ d) : LocalEff [p, d] (bump d) := by
  constructor
  · intro s r hr
    have : r ≠ d := by
      intro e; apply hr; simp [e]
    simp [bump, this]
  · intro s s' h r hr
    by_cases hd : r = d
    · subst hd; simp [bump, h r hr]
    · simp only [bump, if_neg hd]; exact h r hr

theorem exDG_bump (p d : Res) (hpd : p ≠ d) (σ : St Nat) : exDG (bump d σ) p = exDG σ p := by
  simp [exDG, ptrGuard, bump, hpd]

theorem sound_use_bump (p d : Res) (l : Lock) (hpd : p ≠ d) (hd : ∀ σ, exDG σ d = l) :
    (AAct.use p [d] l (bump d)).Sound exDG :=
  ⟨localEff_bump p d hpd, exDG_bump p d hpd, fun σ d' hd' => (by
    have : d' = d := by simpa using hd'
    subst this; exact hd σ), gf_of_local _ _ (localEff_bump p d hpd)⟩

/-- what an action of a one-qubit gate run may look like, as far as it can be decided: a use with a data footprint
    goes through a pointer other than the datum, under the lock `l0`; nothing is re-pointed -/
def shapeOK (d : Res) (l0 : Lock) : AAct Nat → Bool
  | .use p ds l _ => ds.isEmpty || (l == l0 && p != d)
  | .rep _ _ _ => false
  | _ => true

/-- soundness of the effects of a run whose assignment gives effects by the KIND of the event: the identity
    everywhere, except `bump d` on the datum `d` (guarded statically by `l0`) at selected `use` events -/
theorem sound_by_kind (ρ : DAsg Nat) (tr : List DEv) (d : Res) (l0 : Lock) (sel : Nat → Bool)
    (hF : ∀ i, ρ.F i = if sel i then bump d else idE) (hD : ∀ i, ρ.data i = if sel i then [d] else [])
    (hsel : ∀ i, sel i = true → ∃ hd, tr[i]? = some (.use hd)) (hd : ∀ σ, exDG σ d = l0)
    (hshape : (transD ρ (dInit [] []) (ts0 ρ) 0 tr).all (shapeOK d l0) = true) :
    ∀ a, a ∈ transD ρ (dInit [] []) (ts0 ρ) 0 tr → a.Sound exDG := by
  intro a ha
  have hok := (List.all_eq_true.1 hshape) a ha
  obtain ⟨k, e, st', ts', hk, hmem⟩ := mem_transD ρ tr _ _ 0 a ha
  rw [Nat.zero_add] at hmem
  rcases transActs_shape ρ st' ts' k e a hmem with ⟨l, rfl⟩ | ⟨l, rfl⟩ | ⟨h1, lr, r, l, rfl, rfl⟩ |
    ⟨h1, p, l, rfl, rfl⟩ | ⟨h1, new, r, l, rfl, rfl⟩
  · trivial
  · trivial
  · have hs : sel k = false := by
      cases hs : sel k with
      | false => rfl
      | true =>
        obtain ⟨h2, hu⟩ := hsel k hs
        rw [hk] at hu
        cases hu
    rw [hF k, hs]
    exact sound_val_idE _ _
  · cases hs : sel k with
    | false =>
      rw [hF k, hD k, hs]
      exact sound_use_idE _ _
    | true =>
      rw [hF k, hD k, hs] at hok ⊢
      simp only [shapeOK, List.isEmpty_cons, Bool.false_or, Bool.and_eq_true, beq_iff_eq, bne_iff_ne, ne_eq,
        if_true] at hok
      obtain ⟨rfl, hpd⟩ := hok
      exact sound_use_bump p d _ hpd hd
  · simp [shapeOK] at hok

theorem exW_sound : ∀ a, a ∈ exW.txnA → a.Sound exDG := by
  intro a ha
  rw [exW_txnA] at ha
  simp only [List.mem_cons, List.not_mem_nil, or_false] at ha
  rcases ha with rfl | rfl | rfl | rfl | rfl | rfl | rfl | rfl | rfl | rfl | rfl | rfl | rfl | rfl | rfl | rfl |
    rfl | rfl | rfl | rfl | rfl | rfl | rfl | rfl | rfl <;>
  first | trivial | exact sound_val_idE _ _ | exact sound_use_idE _ _ | exact sound_rep

theorem exR_sound : ∀ a, a ∈ exR.txnA → a.Sound exDG :=
  sound_by_kind exρR trR 2 10 (lastUseAt trR) (fun _ => rfl) (fun _ => rfl) (lastUseAt_use trR) (fun _ => rfl)
    (by decide +kernel)

theorem exR2_sound : ∀ a, a ∈ exR2.txnA → a.Sound exDG :=
  sound_by_kind exρR2 trR2 5 12 (lastUseAt trR2) (fun _ => rfl) (fun _ => rfl) (lastUseAt_use trR2) (fun _ => rfl)
    (by decide +kernel)

/-- the generated two-qubit gate: a run that merges the target's register into the local node -/
theorem exW_kind : exW.OfKind "virtualQubit._two_qubit_gate" := ⟨by decide, Q__two_qubit_gate, rfl, rfl⟩
/-- the generated one-qubit gate -/
theorem exR_kind : exR.OfKind "virtualQubit._single_gate" := ⟨by decide, Q__single_gate, rfl, rfl⟩
theorem exR2_kind : exR2.OfKind "virtualQubit._single_gate" := ⟨by decide, Q__single_gate, rfl, rfl⟩

/-- the traces are paths of the regenerated skeletons: the gate's is checked by the verified acceptor (not by a
    derivation that would depend on the shape of the generated term), those of the one-qubit gates are chosen among
    the paths listed by the verified enumerator (so they depend neither on the shape of the term nor on how often
    the method dereferences the pointer) -/
theorem exW_env : exW.Env exDG := ⟨dAccepts_sound _ _ _ (by decide +kernel), exW_sound⟩
theorem exR_env : exR.Env exDG := ⟨(dPickD_sound 2 _ .norm specR (by decide +kernel)).1, exR_sound⟩
theorem exR2_env : exR2.Env exDG := ⟨(dPickD_sound 2 _ .norm specR2 (by decide +kernel)).1, exR2_sound⟩

-- the chosen runs are what their specification says: one aborted attempt and none, and the pointer is dereferenced
example : specR trR = true ∧ specR2 trR2 = true :=
  ⟨(dPickD_sound 2 _ .norm specR (by decide +kernel)).2, (dPickD_sound 2 _ .norm specR2 (by decide +kernel)).2⟩

/-- transaction 0 = the gate (the writer), 1 = a one-qubit gate on the handle the gate re-points (it read the pointer
    before the merge, gets that node's lock after it, finds the pointer stale, releases, retries), 2 = a one-qubit
    gate elsewhere -/
def exDynOps : List (DynRun Nat) := [exW, exR, exR2]

def dynAllLockB {V : Type} (s : Sched V) : Bool := s.all (fun x => rankOf s x.tid != 0)

theorem dynAllLockB_sound {V : Type} (s : Sched V) (h : dynAllLockB s = true) : AllLock s := by
  intro x hx
  have := (List.all_eq_true.1 h) x hx
  simpa using this

def weaveA : List Tid → (Tid → List (AAct Nat)) → ASched Nat
  | [], _ => []
  | t :: ts, rem =>
    match rem t with
    | [] => weaveA ts rem
    | a :: r => ⟨t, a⟩ :: weaveA ts (fun t' => if t' = t then r else rem t')

/-- the gate starts, the unrelated gate runs inside it (in two pieces), the conflicting gate after it; on today's
    source: `[0, 0, 2, 2, 2, 0 × 10, 2 × 4, 0 × 13, 1 × 9]` -/
def exDynOrder : List Tid :=
  List.replicate 2 0 ++ List.replicate (exR2.txnA.length / 2) 2 ++ List.replicate 10 0 ++
  List.replicate (exR2.txnA.length - exR2.txnA.length / 2) 2 ++ List.replicate (exW.txnA.length - 12) 0 ++
  List.replicate exR.txnA.length 1

def exAS : ASched Nat := weaveA exDynOrder (fun t => (exDynOps.map DynRun.txnA).getD t [])

/-- pointer of handle `a` (resource 0) names node 0, of handle `b` (resource 1) node 1, of the third handle
    (resource 4) node 2 -/
def exDσ0 : St Nat := fun r => if r = 1 then 1 else if r = 4 then 2 else 0

def truthfulB (guard : DGuard Nat) : St Nat → ASched Nat → Bool
  | _, [] => true
  | σ, x :: xs =>
    (match x.act with
      | .val r l _ => decide (guard σ r = l)
      | _ => true) && truthfulB guard (x.act.erase.run σ) xs

theorem truthfulB_sound (guard : DGuard Nat) (s : ASched Nat) : ∀ σ, truthfulB guard σ s = true → Truthful guard σ s := by
  induction s with
  | nil => intro _ _; trivial
  | cons x xs ih =>
    intro σ h
    simp only [truthfulB, Bool.and_eq_true] at h
    refine ⟨?_, ih _ h.2⟩
    cases hx : x.act <;> simp_all

theorem isInterleavingA_of_bounded (ops : List (List (AAct Nat))) (s : ASched Nat)
    (hb : s.all (fun x => decide (x.tid < ops.length)) = true)
    (hp : ∀ t, t < ops.length → aacts t s = ops.getD t []) : IsInterleavingA ops s := by
  intro t
  by_cases ht : t < ops.length
  · exact hp t ht
  · have : aacts t s = [] := by
      unfold aacts
      rw [List.filter_eq_nil_iff.2]
      · rfl
      · intro x hx
        have := (List.all_eq_true.1 hb) x hx
        simp only [decide_eq_true_eq] at this
        intro he
        simp only [beq_iff_eq] at he
        rw [he] at this
        exact ht this
    rw [this, List.getD_eq_getElem?_getD, List.getElem?_eq_none (Nat.le_of_not_lt ht)]; rfl

/-- weaving hands out, to every transaction, its first steps: as many as its tid occurs in the order -/
theorem aacts_weaveA : ∀ (order : List Tid) (rem : Tid → List (AAct Nat)) (t : Tid),
    aacts t (weaveA order rem) = (rem t).take (order.count t) := by
  intro order
  induction order with
  | nil => intro rem t; simp [weaveA, aacts]
  | cons t' ts ih =>
    intro rem t
    cases hr : rem t' with
    | nil =>
      rw [weaveA, hr]
      simp only
      rw [ih rem t]
      by_cases htt : t' = t
      · subst htt; rw [hr]; simp
      · rw [List.count_cons_of_ne htt]
    | cons a r =>
      rw [weaveA, hr]
      simp only
      by_cases htt : t' = t
      · subst htt
        have h1 := aacts_cons_self (⟨t', a⟩ : AStep Nat) (weaveA ts (fun t'' => if t'' = t' then r else rem t''))
        simp only at h1
        rw [h1, ih, hr, List.count_cons_self]
        simp
      · have h1 := aacts_cons_ne t (⟨t', a⟩ : AStep Nat) (weaveA ts (fun t'' => if t'' = t' then r else rem t'')) htt
        rw [h1, ih, List.count_cons_of_ne htt]
        have : t ≠ t' := fun h => htt h.symm
        simp [this]

/-- … so an order in which every tid occurs as often as its transaction is long is an interleaving -/
theorem isInterleavingA_weaveA (ops : List (List (AAct Nat))) (order : List Tid)
    (hc : (List.range ops.length).all (fun t => decide ((ops.getD t []).length ≤ order.count t)) = true) :
    IsInterleavingA ops (weaveA order (fun t => ops.getD t [])) := by
  intro t
  rw [aacts_weaveA]
  by_cases ht : t < ops.length
  · have := (List.all_eq_true.1 hc) t (List.mem_range.2 ht)
    simp only [decide_eq_true_eq] at this
    exact List.take_of_length_le this
  · rw [List.getD_eq_getElem?_getD, List.getElem?_eq_none (Nat.le_of_not_lt ht)]
    simp

theorem exAS_interleaving : IsInterleavingA (exDynOps.map DynRun.txnA) exAS :=
  isInterleavingA_weaveA _ _ (by decide +kernel)

theorem exAS_lockExcl : LockExcl (fun _ => none) (eraseS exAS) := lockExclB_sound _ _ (by decide +kernel)

theorem exAS_truthful : Truthful exDG exDσ0 exAS := truthfulB_sound _ _ _ (by decide +kernel)

/-- **all premises of (3′) hold for the instance**: a generated reader and THE generated writer -/
theorem exAS_serializable : DynSerializable exDG (fun _ => none) exDσ0 (eraseS exAS) :=
  dyn_wellformed_ops_serializable exDG exDynOps
    (fun o ho => by
      simp only [exDynOps, List.mem_cons, List.not_mem_nil, or_false] at ho
      rcases ho with rfl | rfl | rfl
      · exact ⟨_, exW_kind⟩
      · exact ⟨_, exR_kind⟩
      · exact ⟨_, exR2_kind⟩)
    (fun o ho => by
      simp only [exDynOps, List.mem_cons, List.not_mem_nil, or_false] at ho
      rcases ho with rfl | rfl | rfl
      · exact exW_env
      · exact exR_env
      · exact exR2_env)
    exAS (fun _ => none) exDσ0 exAS_interleaving exAS_lockExcl exAS_truthful

-- every step of every run is scheduled (41 on today's source); the committed schedule lacks the two steps of the
-- aborted attempt
example : (eraseS exAS).length = exW.txnA.length + exR.txnA.length + exR2.txnA.length ∧
    (dynCommitted (eraseS exAS)).length + 2 = (eraseS exAS).length := by decide +kernel
example : allTwoPhaseB (eraseS exAS) = false ∧ allTwoPhaseB (dynCommitted (eraseS exAS)) = true := by decide +kernel
example : legalDB exDG (fun _ => none) exDσ0 (eraseS exAS) = true := by decide +kernel
-- no static guard would do: the pointer of handle `b` is read under lock 11 by the gate and under lock 10 by the
-- one-qubit gate after the merge
example : exDG exDσ0 1 = 11 ∧ exDG (exec (eraseS exAS) exDσ0) 1 = 10 := by decide +kernel
-- the serial order: the merge, the unrelated gate (it took its lock later), then the gate that had to retry
example : ((dynSerialOf (eraseS exAS)).map (fun x => x.tid)).eraseDups = [0, 2, 1] := by decide +kernel
example : Serial (dynSerialOf (eraseS exAS)) := exAS_serializable.serial (dynAllLockB_sound _ (by decide +kernel))
-- the handle the merge re-pointed (the loop variable `q` aliasing the target handle) ends at node 0, where the
-- conflicting gate then worked (resource 2)
example : exec (eraseS exAS) exDσ0 1 = 0 ∧ exec (eraseS exAS) exDσ0 2 = 1 ∧ exec (dynSerialOf (eraseS exAS)) exDσ0 2 = 1 := by
  decide +kernel
-- what one run contributes: its annotated transaction obeys the concrete discipline and is weakly two-phase
example : ADisc exW.txnA ∧ WeakTP exW.txn :=
  dyn_run_premises exW exW_kind.checked exW_env.path
    (by
      have := noReacq_of_lockExcl (eraseS exAS) (fun _ => none) exAS_lockExcl 0
      rw [acts_eraseS, exAS_interleaving 0] at this
      exact this)

/-! ### (7) negative lemmas: realistic regressions fail the checkers -/

/-- the regression "the re-validation is removed": every comparison of the pointer with a node is dropped -/
def dropRevals : DStmt → DStmt
  | .ev (.reval _ _ _) => .skip
  | .seq a b => .seq (dropRevals a) (dropRevals b)
  | .ite c a b => .ite c (dropRevals a) (dropRevals b)
  | .loop b => .loop (dropRevals b)
  | .scope b => .scope (dropRevals b)
  | .tryFinally a b => .tryFinally (dropRevals a) (dropRevals b)
  | .tryExcept a b => .tryExcept (dropRevals a) (dropRevals b)
  | .tryCatch a b => .tryCatch (dropRevals a) (dropRevals b)
  | s => s

/-- the regression "`_lock_nodes` locks the two simulating nodes but not the local node" -/
def dropSelfLock : DStmt → DStmt
  | .ev (.acq ls b) => .ev (.acq (ls.filter (fun l => l != .self)) b)
  | .ev (.rel ls) => .ev (.rel (ls.filter (fun l => l != .self)))
  | .seq a b => .seq (dropSelfLock a) (dropSelfLock b)
  | .ite c a b => .ite c (dropSelfLock a) (dropSelfLock b)
  | .loop b => .loop (dropSelfLock b)
  | .scope b => .scope (dropSelfLock b)
  | .tryFinally a b => .tryFinally (dropSelfLock a) (dropSelfLock b)
  | .tryExcept a b => .tryExcept (dropSelfLock a) (dropSelfLock b)
  | .tryCatch a b => .tryCatch (dropSelfLock a) (dropSelfLock b)
  | s => s

/-- **a reader without re-validation** (the generated `_single_gate` / `remote_measure` with the comparisons
    removed: lock the node the pointer named, then use the pointer) fails the reader discipline -/
theorem dyn_reader_without_revalidation_fails :
    readerDisciplined (dropRevals Q__single_gate) = false ∧ readerDisciplined (dropRevals Q_remote_measure) = false ∧
    readerDisciplined (dropRevals Q__lock_simulating_node) = true := by decide +kernel

/-- **a writer holding only the old lock**: `remote_merge_from` called by a gate that holds the OLD simulator's lock
    but not the new one fails the writer discipline (and passes when both are held: `dyn_fragments_under_contract`) -/
theorem dyn_writer_with_old_lock_only_fails :
    writerDisciplinedFrom [.arg "simNodeName"] [] (dNoTimeout N_remote_merge_from) = false ∧
    writerDisciplinedFrom [.self, .arg "simNodeName"] [] (dNoTimeout N_remote_merge_from) = true := by decide +kernel

/-- … and so does the generated two-qubit gate when `_lock_nodes` leaves the local node out: pulling two remote
    registers to the local node then re-points handles to a node whose lock is not held -/
theorem dyn_gate_without_local_lock_fails :
    writerDisciplined (dropSelfLock (dNoTimeout Q__two_qubit_gate)) = false := by decide +kernel

/-! ### what the claim does not cover, as `decide`d facts on the regenerated skeletons -/

namespace DynNotCovered

/-- the time-out path of `_lock_nodes` (cancel, then release every requested node) breaks the discipline (F15) -/
def lockTimeout : Prop :=
  readerDisciplined Q__lock_nodes = false ∧ readerDisciplined (dNoTimeout Q__lock_nodes) = true

/-- `remote_update_virtual_merge` iterates the handle list of a node whose lock nobody involved holds, across a
    suspension point (F12): inside `remote_merge_from` even under its contract (the peers' lists), and at the third
    node itself -/
def thirdNodeListIteration : Prop :=
  listIterLockedFrom [.self, .arg "simNodeName"] [] N_remote_merge_from = false ∧
  listIterLockedFrom [.arg "oldSimNodeName", .arg "newSimNodeName"] [] N_remote_update_virtual_merge = false ∧
  -- with the third node's own lock the iteration would be covered
  listIterLockedFrom [.self, .arg "oldSimNodeName", .arg "newSimNodeName"] [] N_remote_update_virtual_merge = true

/-- a send dereferences the pointer of a qubit simulated at the receiver without any lock on that node -/
def sendToSimulator : Prop :=
  readerDisciplined N_remote_send_qubit = false ∧ writerDisciplined N_remote_send_qubit = true

/-- the observers read the pointer without any lock -/
def observers : Prop :=
  ∀ m ∈ allDynMethods, m.1 ∈ ["virtualNode.remote_get_register", "virtualQubit.remote_get_number",
    "virtualQubit.remote_get_simNode", "virtualQubit.remote_get_qubit", "virtualQubit.remote_get_register_RI"] →
    readerDisciplined m.2 = false ∧ m.2.hasUnknown = false

end DynNotCovered

theorem dyn_notCovered_lockTimeout : DynNotCovered.lockTimeout := by unfold DynNotCovered.lockTimeout; decide +kernel
theorem dyn_notCovered_thirdNodeListIteration : DynNotCovered.thirdNodeListIteration := by
  unfold DynNotCovered.thirdNodeListIteration; decide +kernel
theorem dyn_notCovered_sendToSimulator : DynNotCovered.sendToSimulator := by
  unfold DynNotCovered.sendToSimulator; decide +kernel
theorem dyn_notCovered_observers : DynNotCovered.observers := by unfold DynNotCovered.observers; decide +kernel

/-- no operation kind of the theorem contains a construct the translator could not classify -/
theorem dyn_ops_no_unknown :
    ∀ m ∈ allDynMethods, m.1 ∈ dynOpKinds → m.2.hasUnknown = false := by decide +kernel

end SqVerif.C03

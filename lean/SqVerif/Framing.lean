/-
L4 — framing of byte streams and reply routing.  Core Lean only.

Code anchored (line numbers of the repaired tree, branch `fix-c10`):
* `simulaqron/netqasm_backend/factory.py`  `NetQASMProtocol.dataReceived` /
  `_parse_message` (server side, push: twisted hands in chunks),
  `current_protocol` (reply routing);
* `simulaqron/netqasm_backend/qnodeos.py`  `SubroutineHandler._return_msg`,
  `_mark_message_finished`;
* `simulaqron/sdk/connection.py`  `_read_more_data` / `_handle_reply`
  (host side, pull: the library reads when its buffer has no whole message);
* `simulaqron/sdk/socket.py`  `Socket._send_raw` / `_recv_raw` (pull).

All three receivers are the same machine: a buffer, a *size function* that
reads the total size of the first message off a fixed-length prefix of the
buffer, and "cut the message off the front when the buffer is long enough".
`parseOne` is that step, `drain` the push loop, `pullOne`/`pullUntil` the pull
loop; the three instances only differ in the size function.  The namespace
`Old` holds the behaviour before the three `fix:` commits (one parse per read,
replies to the last connected protocol, one bare `recv(maxsize)` per message);
it is only used for the counter-example theorems.

A byte is a `Nat` (the drivers only ever supply values < 256; no theorem needs
the bound except through `le32`/`be32`, which reduce mod 256 themselves).
-/
namespace SqVerif.Framing

abbrev Bytes := List Nat

/-! ### integers on the wire -/

/-- `ctypes.c_uint32`, little endian (x86; `bytes(MessageHeader(...))`) -/
def le32 (n : Nat) : Bytes := [n % 256, n / 256 % 256, n / 65536 % 256, n / 16777216 % 256]

def rdLE : Bytes → Nat
  | [] => 0
  | b :: bs => b + 256 * rdLE bs

/-- `int.to_bytes(4, "big")` -/
def be32 (n : Nat) : Bytes := [n / 16777216 % 256, n / 65536 % 256, n / 256 % 256, n % 256]

/-- `int.from_bytes(_, "big")` -/
def rdBE (bs : Bytes) : Nat := bs.foldl (fun acc b => 256 * acc + b) 0

/-! ### one parsing step -/

inductive Parse where
  /-- not enough bytes yet (`IncompleteMessageError` / `ValueError` of `from_buffer_copy`) -/
  | incomplete
  /-- the announced bytes are there but are not a message: the deserialiser raises -/
  | malformed
  | frame (f rest : Bytes)
  deriving DecidableEq, Repr

/-- `sizeOf buf`: total size of the first message if the prefix read so far determines it;
`ok f`: the deserialiser accepts the bytes `f`. -/
def parseOne (sizeOf : Bytes → Option Nat) (ok : Bytes → Bool) (buf : Bytes) : Parse :=
  match sizeOf buf with
  | none => .incomplete
  | some n =>
    if buf.length < n then .incomplete                       -- `len(self.buf) < msg_hdr.length`
    else if n = 0 ∨ ok (buf.take n) = false then .malformed  -- `deserialize_host_msg(...)` raises
    else .frame (buf.take n) (buf.drop n)                    -- `self.buf = self.buf[msg_hdr.length:]`

theorem parseOne_frame_shape {sizeOf ok buf f rest} (h : parseOne sizeOf ok buf = .frame f rest) :
    ∃ n, 0 < n ∧ n ≤ buf.length ∧ sizeOf buf = some n ∧ ok (buf.take n) = true ∧
      f = buf.take n ∧ rest = buf.drop n := by
  unfold parseOne at h
  split at h
  · cases h
  · rename_i n hn
    split at h
    · cases h
    · split at h
      · cases h
      · rename_i h1 h2
        cases h
        refine ⟨n, ?_, ?_, hn, ?_, rfl, rfl⟩
        · cases n with
          | zero => exact absurd (Or.inl rfl) h2
          | succ k => exact Nat.succ_pos k
        · exact Nat.le_of_not_lt h1
        · cases hk : ok (List.take n buf) with
          | true => rfl
          | false => exact absurd (Or.inr hk) h2

theorem parseOne_frame_length {sizeOf ok buf f rest} (h : parseOne sizeOf ok buf = .frame f rest) :
    rest.length < buf.length := by
  obtain ⟨n, h0, hle, _, _, _, hr⟩ := parseOne_frame_shape h
  subst hr
  simp only [List.length_drop]
  omega

/-! ### push: the server's `dataReceived` loop (factory.py:99-128, `_parse_message` 139-150) -/

structure Drained where
  frames : List Bytes      -- messages handed to the handler, in order
  rest : Bytes             -- what stays in `self.buf`
  err : Bool               -- the deserialiser raised: the exception leaves `dataReceived`
  deriving DecidableEq, Repr

set_option linter.unusedVariables false in
/-- `while True: try: msg = self._parse_message() except IncompleteMessageError: return; handle(msg)` -/
def drain (sizeOf : Bytes → Option Nat) (ok : Bytes → Bool) (buf : Bytes) : Drained :=
  match h : parseOne sizeOf ok buf with
  | .incomplete => ⟨[], buf, false⟩
  | .malformed => ⟨[], buf, true⟩
  | .frame f rest =>
    let r := drain sizeOf ok rest
    ⟨f :: r.frames, r.rest, r.err⟩
termination_by buf.length
decreasing_by exact parseOne_frame_length h

/-- a sequence of reads: `self.buf = self.buf + data` then the loop, per chunk -/
def feed (sizeOf : Bytes → Option Nat) (ok : Bytes → Bool) (buf : Bytes) : List Bytes → Drained
  | [] => ⟨[], buf, false⟩
  | c :: cs =>
    let r := drain sizeOf ok (buf ++ c)
    let r' := feed sizeOf ok r.rest cs
    ⟨r.frames ++ r'.frames, r'.rest, r.err || r'.err⟩

/-! ### pull: read from the socket only while the buffer has no whole message

`wire` = bytes the peer has sent that this side has not read yet; one
`socket.recv(maxsize)` returns a non-empty prefix of it of the adversary's
choosing (`choices`, one entry per call; when the list is used up the call
returns as much as it may). -/

inductive Pulled where
  | frame (f buf wire : Bytes) (choices : List Nat)
  /-- `recv` on an empty wire: the real call blocks (or raises `BlockingIOError`) -/
  | blocked (buf : Bytes) (choices : List Nat)
  /-- `recv(0)` returns `b""`, which the callers take for a closed connection -/
  | closed (buf wire : Bytes)
  | malformed (buf wire : Bytes)
  deriving DecidableEq, Repr

/-- how many bytes one `recv(maxsize)` returns when `avail ≥ 1` are there -/
def granted (maxsize avail : Nat) (choice : Option Nat) : Nat :=
  match choice with
  | none => max 1 (min maxsize avail)
  | some c => max 1 (min (min c maxsize) avail)

set_option linter.unusedVariables false in
def pullOne (sizeOf : Bytes → Option Nat) (ok : Bytes → Bool) (maxsize : Nat)
    (buf wire : Bytes) (choices : List Nat) : Pulled :=
  match parseOne sizeOf ok buf with
  | .frame f rest => .frame f rest wire choices
  | .malformed => .malformed buf wire
  | .incomplete =>
    if h : wire = [] then .blocked buf choices
    else if maxsize = 0 then .closed buf wire
    else
      let j := granted maxsize wire.length choices.head?
      pullOne sizeOf ok maxsize (buf ++ wire.take j) (wire.drop j) choices.tail
termination_by wire.length
decreasing_by
  have h1 : 0 < wire.length := List.length_pos_iff.mpr h
  have h2 : 1 ≤ granted maxsize wire.length choices.head? := by
    unfold granted; split <;> exact Nat.le_max_left _ _
  simp only [List.length_drop]
  omega

inductive PullRes where
  /-- the frames processed by this call; the last one satisfies `stop` -/
  | ok (frames : List Bytes) (buf wire : Bytes) (choices : List Nat)
  | blocked (frames : List Bytes) (buf : Bytes) (choices : List Nat)
  | closed (frames : List Bytes) (buf wire : Bytes)
  | malformed (frames : List Bytes) (buf wire : Bytes)
  deriving DecidableEq, Repr

def PullRes.cons (f : Bytes) : PullRes → PullRes
  | .ok fs b w c => .ok (f :: fs) b w c
  | .blocked fs b c => .blocked (f :: fs) b c
  | .closed fs b w => .closed (f :: fs) b w
  | .malformed fs b w => .malformed (f :: fs) b w

theorem pullOne_frame_total {sizeOf ok maxsize} (buf wire : Bytes) (choices : List Nat) {f b w c}
    (h : pullOne sizeOf ok maxsize buf wire choices = .frame f b w c) :
    b.length + w.length < buf.length + wire.length := by
  induction hn : wire.length using Nat.strongRecOn generalizing buf wire choices with
  | _ n ih =>
    rw [pullOne] at h
    split at h
    · rename_i f' rest hp
      cases h
      have := parseOne_frame_length hp
      omega
    · cases h
    · split at h
      · cases h
      · split at h
        · cases h
        · rename_i hw _
          have h1 : 0 < wire.length := List.length_pos_iff.mpr hw
          have h2 : 1 ≤ granted maxsize wire.length choices.head? := by
            unfold granted; split <;> exact Nat.le_max_left _ _
          have := ih (wire.drop (granted maxsize wire.length choices.head?)).length
            (by simp only [List.length_drop]; omega) _ _ _ h rfl
          simp only [List.length_append, List.length_take, List.length_drop] at this
          omega

set_option linter.unusedVariables false in
/-- keep pulling frames until one satisfies `stop` (`_handle_reply`: until a Done;
`Socket._recv_raw`: the first one) -/
def pullUntil (sizeOf : Bytes → Option Nat) (ok : Bytes → Bool) (maxsize : Nat) (stop : Bytes → Bool)
    (buf wire : Bytes) (choices : List Nat) : PullRes :=
  match h : pullOne sizeOf ok maxsize buf wire choices with
  | .frame f b w c =>
    if stop f then .ok [f] b w c
    else (pullUntil sizeOf ok maxsize stop b w c).cons f
  | .blocked b c => .blocked [] b c
  | .closed b w => .closed [] b w
  | .malformed b w => .malformed [] b w
termination_by buf.length + wire.length
decreasing_by exact pullOne_frame_total buf wire choices h

/-! ### instance 1: host → node messages (factory.py) -/

/-- `MessageHeader.len()` : `id : u32, length : u32` -/
def hdrLen : Nat := 8

/-- `MessageHeader.from_buffer_copy(self.buf)` needs 8 bytes; `.length` counts the header -/
def srvSize (buf : Bytes) : Option Nat :=
  if buf.length < hdrLen then none else some (rdLE ((buf.drop 4).take 4))

structure Msg where
  id : Nat
  payload : Bytes          -- type byte + body
  deriving DecidableEq, Repr

/-- `_commit_serialized_message`: `bytes(MessageHeader(id, 8 + len(raw))) + raw` -/
def encode (m : Msg) : Bytes := le32 m.id ++ le32 (hdrLen + m.payload.length) ++ m.payload

def encodeAll (ms : List Msg) : Bytes := (ms.map encode).flatten

/-- `msg_hdr.id`, `self.buf[MessageHeader.len():msg_hdr.length]` -/
def msgOf (frame : Bytes) : Msg := ⟨rdLE (frame.take 4), frame.drop hdrLen⟩

/-- what `deserialize_host_msg` needs: a known type byte and at least the ctypes size of
that message class (`minSize[t]`, read off netqasm at run time; extra bytes are ignored by
`from_buffer_copy`, a subroutine takes all of them) -/
def deserOk (minSize : List Nat) (frame : Bytes) : Bool :=
  match frame.drop hdrLen with
  | [] => false
  | t :: body =>
    match minSize[t]? with
    | some n => decide (n ≤ body.length + 1)
    | none => false

/-- a message the host library can produce and the node accepts -/
structure Msg.WF (ok : Bytes → Bool) (m : Msg) : Prop where
  id_lt : m.id < 4294967296
  len_lt : hdrLen + m.payload.length < 4294967296
  accepted : ok (encode m) = true

/-! ### several host connections on one node, one shared handler -/

structure Node where
  bufs : List Bytes := []                    -- `NetQASMProtocol.buf` per connection (index = order of connecting)
  sink : Nat := 0                            -- `SubroutineHandler._protocol`: the last connected protocol
  handled : List (Nat × Bytes) := []         -- calls of `handle_netqasm_message`: (connection, frame)
  pending : List (Nat × Bytes) := []         -- handlers suspended on the backend: (their context, frame)
  written : List (Nat × Nat × Nat) := []     -- Done replies: (written to, arrived on, msg id)
  failed : List Nat := []                    -- connections whose `dataReceived` raised
  deriving DecidableEq, Repr

inductive Ev where
  | connect                                  -- `buildProtocol`
  | data (c : Nat) (chunk : Bytes)           -- `dataReceived` on connection `c`
  | complete (k : Nat)                       -- the k-th suspended handler finishes
  deriving DecidableEq, Repr

/-- `handle_netqasm_message` under `current_protocol = c`.  `async f`: the handler suspends on
the virtual node (decided by the environment); otherwise it runs to `_mark_message_finished`
at once.  The reply goes to the protocol in the handler's context (factory.py:53, 118-122; qnodeos.py:47-52). -/
def Node.handle (async : Bytes → Bool) (c : Nat) (s : Node) (f : Bytes) : Node :=
  let s := { s with handled := s.handled ++ [(c, f)] }
  if async f then { s with pending := s.pending ++ [(c, f)] }
  else { s with written := s.written ++ [(c, c, (msgOf f).id)] }

def step (ok async : Bytes → Bool) (s : Node) : Ev → Node
  | .connect => { s with bufs := s.bufs ++ [[]], sink := s.bufs.length }
  | .data c chunk =>
    match s.bufs[c]? with
    | none => s                              -- no such connection: not an event of the system
    | some b =>
      let r := drain srvSize ok (b ++ chunk)
      let s := { s with bufs := s.bufs.set c r.rest,
                        failed := if r.err then s.failed ++ [c] else s.failed }
      r.frames.foldl (Node.handle async c) s
  | .complete k =>
    match s.pending[k]? with
    | none => s
    | some (c, f) =>
      { s with pending := s.pending.eraseIdx k, written := s.written ++ [(c, c, (msgOf f).id)] }

def run (ok async : Bytes → Bool) (s : Node) (evs : List Ev) : Node := evs.foldl (step ok async) s

/-- the Done ids written to connection `c`, in order -/
def Node.donesOn (s : Node) (c : Nat) : List Nat := (s.written.filter (·.1 == c)).map (·.2.2)

/-- the frames handled that arrived on connection `c`, in order -/
def Node.handledOn (s : Node) (c : Nat) : List Bytes := (s.handled.filter (·.1 == c)).map (·.2)

/-- the chunks delivered on connection `c` -/
def dataFor (c : Nat) : List Ev → List Bytes
  | [] => []
  | .data c' chunk :: evs => if c' = c then chunk :: dataFor c evs else dataFor c evs
  | _ :: evs => dataFor c evs

/-! ### instance 2: node → host return messages (connection.py:220-264: `_read_more_data`, `_handle_reply`) -/

/-- ctypes sizes of netqasm's return messages, read at run time -/
structure RetSizes where
  done : Nat         -- `len(MsgDoneMessage())`
  err : Nat          -- `len(ErrorMessage(..))`
  reg : Nat          -- `len(ReturnRegMessage(..))`
  arrHdr : Nat       -- type byte + `ReturnArrayMessageHeader.len()`
  arrLenOff : Nat    -- offset of the header's `length` field in the message
  arrEntry : Nat     -- `sizeof(OptionalInt)`
  doneIdOff : Nat    -- offset of `msg_id` in `MsgDoneMessage`
  deriving DecidableEq, Repr

structure RetSizes.WF (z : RetSizes) : Prop where
  done_pos : 0 < z.done
  err_pos : 0 < z.err
  reg_pos : 0 < z.reg
  arr_pos : 0 < z.arrHdr
  len_in_hdr : z.arrLenOff + 4 ≤ z.arrHdr

/-- `deserialize_return_msg(self.buf)` succeeds iff this many bytes are there -/
def retSize (z : RetSizes) (buf : Bytes) : Option Nat :=
  match buf with
  | [] => none
  | 0 :: _ => some z.done
  | 1 :: _ => some z.err
  | 3 :: _ => some z.reg
  | 2 :: _ =>
    if buf.length < z.arrHdr then none
    else some (z.arrHdr + z.arrEntry * rdLE ((buf.drop z.arrLenOff).take 4))
  | _ :: _ => none   -- unknown type: `ValueError`, which `_handle_reply` takes for "incomplete"

def isDone (f : Bytes) : Bool := f.head? == some 0
def isErr (f : Bytes) : Bool := f.head? == some 1

/-- one call of `_handle_reply`: process return messages until a Done (returns its id) or an
Error (raises); `_read_more_data` reads `recv(1024)` -/
def handleReply (z : RetSizes) (buf wire : Bytes) (choices : List Nat) : PullRes :=
  pullUntil (retSize z) (fun _ => true) 1024 (fun f => isDone f || isErr f) buf wire choices

def doneId (z : RetSizes) (f : Bytes) : Nat := rdLE ((f.drop z.doneIdOff).take 4)

/-- `n` successive calls (the host waits for `n` messages); stops at the first call that does not return -/
def session (z : RetSizes) : Nat → Bytes → Bytes → List Nat → List PullRes
  | 0, _, _, _ => []
  | n + 1, buf, wire, choices =>
    match handleReply z buf wire choices with
    | .ok fs b w c => .ok fs b w c :: session z n b w c
    | r => [r]

/-! ### instance 3: application sockets (socket.py:81-98) -/

/-- `LENGTH_BYTES + int.from_bytes(self._recv_buf[:LENGTH_BYTES], "big")` -/
def sockSize (buf : Bytes) : Option Nat :=
  if buf.length < 4 then none else some (4 + rdBE (buf.take 4))

/-- `_send_raw`: `len(raw_msg).to_bytes(4, "big") + raw_msg` -/
def sockFrame (m : Bytes) : Bytes := be32 m.length ++ m

inductive SockOp where
  | send (m : Bytes)
  | recv (maxsize : Nat)
  deriving DecidableEq, Repr

inductive RecvRes where
  | msg (m : Bytes)
  | blocked
  | closed
  deriving DecidableEq, Repr

structure SockSt where
  buf : Bytes := []          -- receiver's `_recv_buf`
  wire : Bytes := []         -- sent, not yet read
  choices : List Nat := []   -- the adversary
  deriving DecidableEq, Repr

def sockStep (s : SockSt) : SockOp → Option RecvRes × SockSt
  | .send m => (none, { s with wire := s.wire ++ sockFrame m })     -- `sendall`
  | .recv maxsize =>
    match pullOne sockSize (fun _ => true) maxsize s.buf s.wire s.choices with
    | .frame f b w c => (some (.msg (f.drop 4)), ⟨b, w, c⟩)
    | .blocked b c => (some .blocked, ⟨b, [], c⟩)
    | .closed b w => (some .closed, ⟨b, w, s.choices⟩)
    | .malformed b w => (some .closed, ⟨b, w, s.choices⟩)          -- unreachable: every frame is accepted

def sockRun (s : SockSt) : List SockOp → List RecvRes
  | [] => []
  | op :: ops =>
    match sockStep s op with
    | (none, s') => sockRun s' ops
    | (some r, s') => r :: sockRun s' ops

/-- the specification: a FIFO queue of whole messages -/
def queueRun (q : List Bytes) : List SockOp → List RecvRes
  | [] => []
  | .send m :: ops => queueRun (q ++ [m]) ops
  | .recv _ :: ops =>
    match q with
    | [] => .blocked :: queueRun [] ops
    | m :: q' => .msg m :: queueRun q' ops

/-! ### the behaviour before the fixes (for the counter-examples only) -/
namespace Old

/-- factory.py@6e2e627:90-133: ONE `_parse_message` per `dataReceived`; the deserialiser gets
`self.buf[8:]`, i.e. everything after the header -/
def recvData (buf chunk : Bytes) : Option (Nat × Bytes) × Bytes :=
  let b := buf ++ chunk
  match srvSize b with
  | none => (none, b)
  | some n => if b.length < n then (none, b) else (some (rdLE (b.take 4), b.drop hdrLen), b.drop n)

/-- ids handed to the handler over a sequence of reads -/
def feedIds (buf : Bytes) : List Bytes → List Nat
  | [] => []
  | c :: cs =>
    match recvData buf c with
    | (none, b) => feedIds b cs
    | (some (id, _), b) => id :: feedIds b cs

/-- qnodeos.py@6e2e627:46-50: the reply goes to `self.protocol`, the LAST connected protocol -/
def step (s : Node) : Ev → Node
  | .connect => { s with bufs := s.bufs ++ [[]], sink := s.bufs.length }
  | .data c chunk =>
    match s.bufs[c]? with
    | none => s
    | some b =>
      match recvData b chunk with
      | (none, b') => { s with bufs := s.bufs.set c b' }
      | (some (id, pl), b') =>
        { s with bufs := s.bufs.set c b', handled := s.handled ++ [(c, pl)],
                 written := s.written ++ [(s.sink, c, id)] }
  | .complete _ => s

def run (s : Node) (evs : List Ev) : Node := evs.foldl step s

/-- socket.py@6e2e627:42-75: `send` writes the bare bytes, `recv` is one `recv(maxsize)` -/
def sockStep (s : SockSt) : SockOp → Option RecvRes × SockSt
  | .send m => (none, { s with wire := s.wire ++ m })
  | .recv maxsize =>
    if s.wire = [] then (some .blocked, s)
    else if maxsize = 0 then (some .closed, s)
    else
      let j := granted maxsize s.wire.length s.choices.head?
      (some (.msg (s.wire.take j)), { s with wire := s.wire.drop j, choices := s.choices.tail })

def sockRun (s : SockSt) : List SockOp → List RecvRes
  | [] => []
  | op :: ops =>
    match sockStep s op with
    | (none, s') => sockRun s' ops
    | (some r, s') => r :: sockRun s' ops

end Old

end SqVerif.Framing

from ._qubit import Qubit, Qureg, WeakQubitRef, BasicQubit  # noqa: F401

import SqVerif.Adjacency
/- helper lemmas for C12 (core Lean only) -/
set_option linter.unusedSectionVars false
namespace SqVerif.Adjacency

variable {Name : Type} [DecidableEq Name]

/-! ### is_adjacent -/

theorem isAdjacent_none (me other : Name) : isAdjacent (none : Option (Topology Name)) me other = true := rfl

theorem isAdjacent_some (t : Topology Name) (me other : Name) :
    isAdjacent (some t) me other = true ↔ ∃ ns, lookup t me = some ns ∧ other ∈ ns := by
  cases h : lookup t me with
  | none => simp [isAdjacent, h]
  | some ns => simp [isAdjacent, h]

/-! ### sorted names -/

theorem perm_insertSorted (lt : Name → Name → Bool) (x : Name) (l : List Name) :
    (insertSorted lt x l).Perm (x :: l) := by
  induction l with
  | nil => exact List.Perm.refl _
  | cons y ys ih =>
    unfold insertSorted
    split
    · exact List.Perm.refl _
    · exact (List.Perm.cons y ih).trans (List.Perm.swap x y ys)

theorem perm_sortNames (lt : Name → Name → Bool) (l : List Name) : (sortNames lt l).Perm l := by
  induction l with
  | nil => exact List.Perm.refl _
  | cons x xs ih =>
    show (insertSorted lt x (sortNames lt xs)).Perm (x :: xs)
    exact (perm_insertSorted lt x _).trans (List.Perm.cons x ih)

theorem length_sortNames (lt : Name → Name → Bool) (l : List Name) : (sortNames lt l).length = l.length :=
  (perm_sortNames lt l).length_eq

theorem mem_sortNames (lt : Name → Name → Bool) (l : List Name) (x : Name) : x ∈ sortNames lt l ↔ x ∈ l :=
  (perm_sortNames lt l).mem_iff

theorem nodup_sortNames (lt : Name → Name → Bool) {l : List Name} (h : l.Nodup) : (sortNames lt l).Nodup :=
  (perm_sortNames lt l).nodup_iff.2 h

/-- `le a b` of the order Python sorts by -/
def leOf (lt : Name → Name → Bool) (a b : Name) : Prop := lt b a = false

theorem sorted_insertSorted {lt : Name → Name → Bool}
    (hasym : ∀ a b, lt a b = true → lt b a = false)
    (htrans : ∀ a b c, lt b a = false → lt c b = false → lt c a = false)
    (x : Name) (l : List Name) (hl : l.Pairwise (leOf lt)) : (insertSorted lt x l).Pairwise (leOf lt) := by
  induction l with
  | nil => simp [insertSorted]
  | cons y ys ih =>
    unfold insertSorted
    have hy := List.pairwise_cons.1 hl
    split
    next hxy =>
      refine List.pairwise_cons.2 ⟨?_, hl⟩
      intro z hz
      have hxy' : leOf lt x y := hasym x y hxy
      rcases List.mem_cons.1 hz with rfl | hz'
      · exact hxy'
      · exact htrans x y z hxy' (hy.1 z hz')
    next hxy =>
      refine List.pairwise_cons.2 ⟨?_, ih hy.2⟩
      intro z hz
      have hz' := (perm_insertSorted lt x ys).mem_iff.1 hz
      rcases List.mem_cons.1 hz' with rfl | hz''
      · simpa [leOf] using hxy
      · exact hy.1 z hz''

theorem sorted_sortNames {lt : Name → Name → Bool}
    (hasym : ∀ a b, lt a b = true → lt b a = false)
    (htrans : ∀ a b c, lt b a = false → lt c b = false → lt c a = false)
    (l : List Name) : (sortNames lt l).Pairwise (leOf lt) := by
  induction l with
  | nil => simp [sortNames]
  | cons x xs ih => exact sorted_insertSorted hasym htrans x _ ih

/-! ### the remote-id lookup loop -/

theorem nodeId_of_mem (lt : Name → Name → Bool) {names : List Name} {x : Name} (h : x ∈ names) :
    nodeId lt names x = some ((sortNames lt names).idxOf x) := by
  simp [nodeId, h]

/-- the loop of cmd_epr finds exactly the name at position `rid` of the sorted names -/
theorem findRemote_eq (lt : Name → Name → Bool) {names : List Name} (hnd : names.Nodup) (rid : Nat) :
    findRemote lt names rid = (sortNames lt names)[rid]? := by
  have hS := nodup_sortNames lt hnd
  unfold findRemote
  cases hf : names.find? (fun n => nodeId lt names n == some rid) with
  | none =>
    rw [List.find?_eq_none] at hf
    by_cases hlt : rid < (sortNames lt names).length
    · exfalso
      have hx : (sortNames lt names)[rid] ∈ names := (mem_sortNames lt names _).1 (List.getElem_mem hlt)
      apply hf _ hx
      rw [nodeId_of_mem lt hx]
      simp [hS.idxOf_getElem rid hlt]
    · simp [List.getElem?_eq_none (Nat.le_of_not_lt hlt)]
  | some y =>
    have hy : y ∈ names := List.mem_of_find?_eq_some hf
    have hp := List.find?_some hf
    rw [nodeId_of_mem lt hy] at hp
    have hidx : (sortNames lt names).idxOf y = rid := by simpa using hp
    have hyS : y ∈ sortNames lt names := (mem_sortNames lt names y).2 hy
    have hlt : rid < (sortNames lt names).length := by
      rw [← hidx]; exact List.idxOf_lt_length_of_mem hyS
    rw [List.getElem?_eq_getElem hlt]
    congr 1
    subst hidx
    exact (List.getElem_idxOf hlt).symm

/-! ### the guard -/

theorem cmdEprGuard_err_cases {lt : Name → Name → Bool} {names : List Name} {topo : Option (Topology Name)}
    {me : Name} {rid : Nat} {e : GuardErr} (h : cmdEprGuard lt names topo me rid = .err e) :
    (e = .unknownNode ∧ findRemote lt names rid = none) ∨
    (e = .sameNode ∧ findRemote lt names rid = some me) ∨
    (e = .notAdjacent ∧ ∃ x, findRemote lt names rid = some x ∧ me ≠ x ∧ isAdjacent topo me x = false) := by
  unfold cmdEprGuard at h
  cases hf : findRemote lt names rid with
  | none => rw [hf] at h; simp at h; exact Or.inl ⟨h.symm, rfl⟩
  | some x =>
    rw [hf] at h
    simp only at h
    by_cases hme : me = x
    · simp [hme] at h
      exact Or.inr (Or.inl ⟨h.symm, by rw [hme]⟩)
    · by_cases ha : isAdjacent topo me x = false
      · simp [hme, ha] at h
        exact Or.inr (Or.inr ⟨h.symm, x, rfl, hme, ha⟩)
      · simp [hme, ha] at h

theorem cmdEprGuard_proceed_iff {lt : Name → Name → Bool} {names : List Name} {topo : Option (Topology Name)}
    {me : Name} {rid : Nat} {r : Name} :
    cmdEprGuard lt names topo me rid = .proceed r ↔
      findRemote lt names rid = some r ∧ r ≠ me ∧ isAdjacent topo me r = true := by
  unfold cmdEprGuard
  cases hf : findRemote lt names rid with
  | none => simp
  | some x =>
    simp only
    by_cases hme : me = x
    · subst hme
      simp
      intro h1 h2
      exact absurd h1.symm h2
    · by_cases ha : isAdjacent topo me x = false
      · simp [hme, ha]
        intro h; subst h; simp [ha]
      · have ha' : isAdjacent topo me x = true := by simpa using ha
        simp [hme, ha']
        intro h; subst h; exact ⟨fun h => hme h.symm, ha'⟩

/-! ### statement-level execution -/

/-- what holds of the run before any statement that may create a qubit has executed -/
def Inv (lt : Name → Name → Bool) (names : List Name) (rid : Nat) (r : Run Name) : Prop :=
  r.created = 0 ∧ r.mayHaveCreated = false ∧ (r.remote = none ∨ r.remote = findRemote lt names rid)

/-- the guard that certainly raises when the verdict is `e` -/
def guardOf : GuardErr → Stmt
  | .unknownNode => .guardUnknown
  | .sameNode => .guardSelf
  | .notAdjacent => .guardAdjacent

theorem step_inv {lt : Name → Name → Bool} {names : List Name} {topo : Option (Topology Name)} {me : Name}
    {rid : Nat} {s : Stmt} {r r' : Run Name} (hi : Inv lt names rid r) (hs : s.mayCreate = false)
    (h : step lt names topo me rid s r = .ok r') : Inv lt names rid r' := by
  obtain ⟨h1, h2, h3⟩ := hi
  cases s with
  | guardUnknown =>
    unfold step at h
    cases hf : findRemote lt names rid with
    | none => rw [hf] at h; simp at h
    | some x =>
      rw [hf] at h
      simp at h
      subst h
      exact ⟨h1, h2, Or.inr hf.symm⟩
  | guardSelf =>
    unfold step at h
    cases hr : r.remote with
    | none => rw [hr] at h; simp at h
    | some x =>
      rw [hr] at h
      by_cases hme : me = x
      · simp [hme] at h
      · simp [hme] at h; subst h; exact ⟨h1, h2, h3⟩
  | guardAdjacent =>
    unfold step at h
    cases hr : r.remote with
    | none => rw [hr] at h; simp at h
    | some x =>
      rw [hr] at h
      by_cases ha : isAdjacent topo me x = false
      · simp [ha] at h
      · simp [ha] at h; subst h; exact ⟨h1, h2, h3⟩
  | cmdNew => simp [Stmt.mayCreate] at hs
  | other => simp [step] at h; subst h; exact ⟨h1, h2, h3⟩
  | unrecog => simp [Stmt.mayCreate] at hs

theorem step_guardOf_raises {lt : Name → Name → Bool} {names : List Name} {topo : Option (Topology Name)}
    {me : Name} {rid : Nat} {e : GuardErr} {r : Run Name} (hi : Inv lt names rid r)
    (hv : cmdEprGuard lt names topo me rid = .err e) :
    ∃ x, step lt names topo me rid (guardOf e) r = .error x := by
  obtain ⟨_, _, h3⟩ := hi
  rcases cmdEprGuard_err_cases hv with ⟨rfl, hf⟩ | ⟨rfl, hf⟩ | ⟨rfl, x, hf, hne, ha⟩
  · exact ⟨.guard .unknownNode, by simp [guardOf, step, hf]⟩
  · rcases h3 with h3 | h3
    · exact ⟨.unbound, by simp [guardOf, step, h3]⟩
    · exact ⟨.guard .sameNode, by simp [guardOf, step, h3, hf]⟩
  · rcases h3 with h3 | h3
    · exact ⟨.unbound, by simp [guardOf, step, h3]⟩
    · exact ⟨.guard .notAdjacent, by simp [guardOf, step, h3, hf, ha]⟩

theorem guardOf_not_mayCreate (e : GuardErr) : (guardOf e).mayCreate = false := by
  cases e <;> rfl

/-- if the guard that must fire occurs before the first statement that may create a qubit, the run ends in a
    raise with nothing created -/
theorem execFrom_raises {lt : Name → Name → Bool} {names : List Name} {topo : Option (Topology Name)}
    {me : Name} {rid : Nat} {e : GuardErr} (hv : cmdEprGuard lt names topo me rid = .err e)
    (l : List Stmt) (r : Run Name) (hi : Inv lt names rid r) (hg : guardOf e ∈ prefixBeforeCreation l) :
    ∃ x r', execFrom lt names topo me rid l r = .raised x r' ∧ r'.created = 0 ∧ r'.mayHaveCreated = false := by
  induction l generalizing r with
  | nil => simp [prefixBeforeCreation] at hg
  | cons s l ih =>
    unfold prefixBeforeCreation at hg
    by_cases hs : s.mayCreate = true
    · simp [hs] at hg
    · have hs' : s.mayCreate = false := by simpa using hs
      simp only [hs', Bool.false_eq_true, if_false] at hg
      unfold execFrom
      cases hst : step lt names topo me rid s r with
      | error x => exact ⟨x, r, rfl, hi.1, hi.2.1⟩
      | ok r' =>
        simp only
        apply ih r' (step_inv hi hs' hst)
        rcases List.mem_cons.1 hg with heq | hmem
        · exfalso
          obtain ⟨x, hx⟩ := step_guardOf_raises (topo := topo) (me := me) hi hv
          rw [heq] at hx
          rw [hst] at hx
          cases hx
        · exact hmem

theorem mem_prefix_of_contains {l : List Stmt} {s : Stmt} (h : (prefixBeforeCreation l).contains s = true) :
    s ∈ prefixBeforeCreation l := by
  simpa using h

theorem guardOf_mem_prefix {l : List Stmt} (h : guardsPrecedeCreation l = true) (e : GuardErr) :
    guardOf e ∈ prefixBeforeCreation l := by
  unfold guardsPrecedeCreation at h
  simp only [Bool.and_eq_true] at h
  cases e
  · exact mem_prefix_of_contains h.1.1
  · exact mem_prefix_of_contains h.1.2
  · exact mem_prefix_of_contains h.2

/-! ### which error, and which remote: determined by the guards alone -/

/-- the part of a result that does not count creations -/
def ExecResult.outcome : ExecResult Name → Option ExecErr × Option Name
  | .done r => (none, r.remote)
  | .raised e r => (some e, r.remote)

theorem step_remote_congr {lt : Name → Name → Bool} {names : List Name} {topo : Option (Topology Name)}
    {me : Name} {rid : Nat} (s : Stmt) {r1 r2 : Run Name} (h : r1.remote = r2.remote) :
    (∃ x, step lt names topo me rid s r1 = .error x ∧ step lt names topo me rid s r2 = .error x) ∨
    (∃ a b, step lt names topo me rid s r1 = .ok a ∧ step lt names topo me rid s r2 = .ok b ∧
      a.remote = b.remote) := by
  cases s with
  | guardUnknown =>
    unfold step
    cases findRemote lt names rid with
    | none => exact Or.inl ⟨_, rfl, rfl⟩
    | some x => exact Or.inr ⟨_, _, rfl, rfl, rfl⟩
  | guardSelf =>
    unfold step
    rw [← h]
    cases r1.remote with
    | none => exact Or.inl ⟨_, rfl, rfl⟩
    | some x =>
      by_cases hme : me = x
      · simp [hme]
      · simp [hme, h]
  | guardAdjacent =>
    unfold step
    rw [← h]
    cases r1.remote with
    | none => exact Or.inl ⟨_, rfl, rfl⟩
    | some x =>
      by_cases ha : isAdjacent topo me x = false
      · simp [ha]
      · simp [ha, h]
  | cmdNew => exact Or.inr ⟨_, _, rfl, rfl, h⟩
  | other => exact Or.inr ⟨_, _, rfl, rfl, h⟩
  | unrecog => exact Or.inr ⟨_, _, rfl, rfl, h⟩

theorem outcome_congr {lt : Name → Name → Bool} {names : List Name} {topo : Option (Topology Name)}
    {me : Name} {rid : Nat} (l : List Stmt) (r1 r2 : Run Name) (h : r1.remote = r2.remote) :
    (execFrom lt names topo me rid l r1).outcome = (execFrom lt names topo me rid l r2).outcome := by
  induction l generalizing r1 r2 with
  | nil => simp [execFrom, ExecResult.outcome, h]
  | cons s l ih =>
    unfold execFrom
    rcases step_remote_congr (lt := lt) (names := names) (topo := topo) (me := me) (rid := rid) s h with
      ⟨x, h1, h2⟩ | ⟨a, b, h1, h2, hab⟩
    · rw [h1, h2]; simp [ExecResult.outcome, h]
    · rw [h1, h2]; exact ih a b hab

theorem step_nonguard {lt : Name → Name → Bool} {names : List Name} {topo : Option (Topology Name)}
    {me : Name} {rid : Nat} {s : Stmt} (hs : s.isGuard = false) (r : Run Name) :
    ∃ r', step lt names topo me rid s r = .ok r' ∧ r'.remote = r.remote := by
  cases s <;> simp [Stmt.isGuard] at hs <;> exact ⟨_, rfl, rfl⟩

/-- statements that are not guards do not influence the outcome -/
theorem outcome_filter {lt : Name → Name → Bool} {names : List Name} {topo : Option (Topology Name)}
    {me : Name} {rid : Nat} (l : List Stmt) (r : Run Name) :
    (execFrom lt names topo me rid l r).outcome =
      (execFrom lt names topo me rid (l.filter Stmt.isGuard) r).outcome := by
  induction l generalizing r with
  | nil => rfl
  | cons s l ih =>
    by_cases hs : s.isGuard = true
    · rw [List.filter_cons_of_pos hs]
      unfold execFrom
      cases step lt names topo me rid s r with
      | error x => rfl
      | ok r' => exact ih r'
    · have hs' : s.isGuard = false := by simpa using hs
      rw [List.filter_cons_of_neg hs]
      obtain ⟨r', h1, h2⟩ := step_nonguard (lt := lt) (names := names) (topo := topo) (me := me) (rid := rid) hs' r
      conv => lhs; unfold execFrom
      rw [h1]
      simp only
      rw [ih r']
      exact outcome_congr _ r' r h2

/-- the outcome of the three guards in the code's order is the verdict of `cmdEprGuard` -/
theorem outcome_three_guards {lt : Name → Name → Bool} {names : List Name} {topo : Option (Topology Name)}
    {me : Name} {rid : Nat} (r : Run Name) :
    (execFrom lt names topo me rid [.guardUnknown, .guardSelf, .guardAdjacent] r).outcome =
      match cmdEprGuard lt names topo me rid with
      | .err .unknownNode => (some (.guard .unknownNode), r.remote)
      | .err e => (some (.guard e), findRemote lt names rid)
      | .proceed x => (none, some x) := by
  unfold cmdEprGuard
  cases hf : findRemote lt names rid with
  | none => simp [execFrom, step, hf, ExecResult.outcome]
  | some x =>
    by_cases hme : me = x
    · simp [execFrom, step, hf, hme, ExecResult.outcome]
    · by_cases ha : isAdjacent topo me x = false
      · simp [execFrom, step, hf, hme, ha, ExecResult.outcome]
      · simp [execFrom, step, hf, hme, ha, ExecResult.outcome]

/-- a run that completes executed every statement -/
theorem execFrom_done_counts {lt : Name → Name → Bool} {names : List Name} {topo : Option (Topology Name)}
    {me : Name} {rid : Nat} (l : List Stmt) (r r' : Run Name)
    (h : execFrom lt names topo me rid l r = .done r') :
    r'.created = r.created + l.count .cmdNew ∧
    r'.mayHaveCreated = (r.mayHaveCreated || l.contains .unrecog) := by
  induction l generalizing r with
  | nil =>
    simp [execFrom] at h
    subst h; simp
  | cons s l ih =>
    unfold execFrom at h
    cases hst : step lt names topo me rid s r with
    | error x => rw [hst] at h; simp at h
    | ok r1 =>
      rw [hst] at h
      simp only at h
      obtain ⟨h1, h2⟩ := ih r1 h
      cases s with
      | guardUnknown =>
        unfold step at hst
        cases hf : findRemote lt names rid with
        | none => rw [hf] at hst; simp at hst
        | some x =>
          rw [hf] at hst; simp at hst; subst hst
          simp_all
      | guardSelf =>
        unfold step at hst
        cases hr : r.remote with
        | none => rw [hr] at hst; simp at hst
        | some x =>
          rw [hr] at hst
          by_cases hme : me = x
          · simp [hme] at hst
          · simp [hme] at hst; subst hst; simp_all
      | guardAdjacent =>
        unfold step at hst
        cases hr : r.remote with
        | none => rw [hr] at hst; simp at hst
        | some x =>
          rw [hr] at hst
          by_cases ha : isAdjacent topo me x = false
          · simp [ha] at hst
          · simp [ha] at hst; subst hst; simp_all
      | cmdNew =>
        simp [step] at hst; subst hst
        simp_all
        omega
      | other => simp [step] at hst; subst hst; simp_all
      | unrecog => simp [step] at hst; subst hst; simp_all

/-! ### signed node ids: the `Int` functions are the `Nat` functions at `idAsNat` -/

/-- an id that is not below the number of nodes is found by the lookup loop for no node list (distinct names or
    not): every id the loop compares with is an index into the sorted names -/
theorem findRemote_none_of_length_le (lt : Name → Name → Bool) (names : List Name) {rid : Nat}
    (h : names.length ≤ rid) : findRemote lt names rid = none := by
  unfold findRemote
  rw [List.find?_eq_none]
  intro x hx
  rw [nodeId_of_mem lt hx]
  have hlt : (sortNames lt names).idxOf x < (sortNames lt names).length :=
    List.idxOf_lt_length_of_mem ((mem_sortNames lt names x).2 hx)
  rw [length_sortNames] at hlt
  have hne : (sortNames lt names).idxOf x ≠ rid := by omega
  simpa using hne

theorem findRemoteI_ofNat (lt : Name → Name → Bool) (names : List Name) (n : Nat) :
    findRemoteI lt names (Int.ofNat n) = findRemote lt names n := by
  unfold findRemoteI findRemote
  congr 1
  funext x
  cases nodeId lt names x with
  | none => rfl
  | some k =>
    show (some (Int.ofNat k) == some (Int.ofNat n)) = (some k == some n)
    rw [Bool.eq_iff_iff]
    simp only [beq_iff_eq, Option.some.injEq]
    exact ⟨Int.ofNat.inj, fun h => by rw [h]⟩

/-- a negative id equals no node id -/
theorem findRemoteI_negSucc (lt : Name → Name → Bool) (names : List Name) (k : Nat) :
    findRemoteI lt names (Int.negSucc k) = none := by
  unfold findRemoteI
  rw [List.find?_eq_none]
  intro x _
  cases nodeId lt names x with
  | none => simp
  | some m =>
    show ¬ ((some (Int.ofNat m) == some (Int.negSucc k)) = true)
    simp only [beq_iff_eq, Option.some.injEq]
    exact fun h => Int.noConfusion h

theorem findRemoteI_eq (lt : Name → Name → Bool) (names : List Name) (rid : Int) :
    findRemoteI lt names rid = findRemote lt names (idAsNat names rid) := by
  cases rid with
  | ofNat n => exact findRemoteI_ofNat lt names n
  | negSucc k =>
    rw [findRemoteI_negSucc]
    exact (findRemote_none_of_length_le lt names (Nat.le_refl _)).symm

theorem cmdEprGuardI_eq (lt : Name → Name → Bool) (names : List Name) (topo : Option (Topology Name)) (me : Name)
    (rid : Int) : cmdEprGuardI lt names topo me rid = cmdEprGuard lt names topo me (idAsNat names rid) := by
  unfold cmdEprGuardI cmdEprGuard
  rw [findRemoteI_eq]

theorem stepI_eq (lt : Name → Name → Bool) (names : List Name) (topo : Option (Topology Name)) (me : Name)
    (rid : Int) (s : Stmt) (r : Run Name) :
    stepI lt names topo me rid s r = step lt names topo me (idAsNat names rid) s r := by
  cases s <;> simp only [stepI, step, findRemoteI_eq]

theorem execFromI_eq (lt : Name → Name → Bool) (names : List Name) (topo : Option (Topology Name)) (me : Name)
    (rid : Int) (l : List Stmt) (r : Run Name) :
    execFromI lt names topo me rid l r = execFrom lt names topo me (idAsNat names rid) l r := by
  induction l generalizing r with
  | nil => rfl
  | cons s l ih =>
    simp only [execFromI, execFrom, stepI_eq]
    cases step lt names topo me (idAsNat names rid) s r with
    | error e => rfl
    | ok r' => exact ih r'

theorem execI_eq (lt : Name → Name → Bool) (names : List Name) (topo : Option (Topology Name)) (me : Name)
    (rid : Int) (l : List Stmt) :
    execI lt names topo me rid l = exec lt names topo me (idAsNat names rid) l :=
  execFromI_eq lt names topo me rid l _

theorem idAsNat_of_nonneg (names : List Name) {rid : Int} (h : 0 ≤ rid) : idAsNat names rid = rid.toNat := by
  cases rid with
  | ofNat n => rfl
  | negSucc k => exact absurd h (by simp)

theorem idAsNat_of_neg (names : List Name) {rid : Int} (h : rid < 0) : idAsNat names rid = names.length := by
  cases rid with
  | ofNat n => exact absurd h (by simp)
  | negSucc k => rfl

/-- a signed id is in range exactly when the number it behaves like is -/
theorem idAsNat_lt_iff (names : List Name) (rid : Int) :
    idAsNat names rid < names.length ↔ 0 ≤ rid ∧ rid < names.length := by
  cases rid with
  | ofNat n => simp [idAsNat]
  | negSucc k => simp [idAsNat]

end SqVerif.Adjacency

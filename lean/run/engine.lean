import SqVerif.Drive.Engine
/- `lake env lean --run run/engine.lean`: one operation per input line, one canonical observation per output line. -/
def main : IO Unit := SqVerif.Drive.loopStateless SqVerif.Drive.Engine.handle

#!/bin/bash
# Build the whole Lean development from the files on disk (offline, no Mathlib require).
# The Gen/*.lean files are regenerated from /repo's current source first.
set -e
cd "$(dirname "$0")"
export PYTHONDONTWRITEBYTECODE=1
/venv/bin/python -W ignore::SyntaxWarning -m harness.regen
cd lean
timeout 3000 lake build SqVerif

import SqVerif.JointLemmas
/-
C01 joint layer, part 2 — the product group `ProdG`:
congruence, permutation invariance, support, the identity; well-formed factor lists
(`FacOK`, `FacsOK`); the generic lemma for a change of the head factor (`prodG_head_rel`,
`prodG_head_map`); an empty factor contributes nothing (`prodG_nil_fac`); two factors may be
replaced by their tensor product (`prodG_merge`); an operator supported on the head
register is in the product group iff it is in the head's group (`prodG_head_only`: the other
factors cannot contribute — supports are disjoint, and a stabilizer group does not contain −1).
-/
set_option linter.unusedSimpArgs false
set_option linter.unusedVariables false
namespace SqVerif.Joint
open SqVerif.Stab SqVerif.Stab.Meas SqVerif.VNet SqVerif.VNetEng

theorem prodG_congr : ∀ (L : List Fac) {t t' : TOp}, t ≈ₜ t' → ProdG L t → ProdG L t'
  | [], _, _, e, h => teqv_trans (teqv_symm e) h
  | _ :: _, _, _, e, ⟨p, r, hp, hr, ht⟩ => ⟨p, r, hp, hr, teqv_trans (teqv_symm e) ht⟩

/-- outside all slot lists every element of the product group is the identity -/
theorem prodG_off : ∀ (L : List Fac) {r : TOp} {x : Nat}, ProdG L r → (∀ F, F ∈ L → x ∉ F.1) → r.f x = I1
  | [], r, x, h, _ => h.2 x
  | F :: rest, r, x, ⟨p, r', hp, hr', ht⟩, hx => by
    rw [ht.2 x]
    show mul1 (look F.1 p.ps x) (r'.f x) = I1
    rw [look_notin F.1 p.ps x (hx F List.mem_cons_self),
      prodG_off rest hr' (fun G hG => hx G (List.mem_cons_of_mem _ hG))]
    rfl

theorem prodG_perm {L L' : List Fac} (h : L.Perm L') : ∀ t, ProdG L t ↔ ProdG L' t := by
  induction h with
  | nil => intro t; exact Iff.rfl
  | cons F _ ih =>
    intro t
    constructor
    · rintro ⟨p, r, hp, hr, ht⟩; exact ⟨p, r, hp, (ih r).1 hr, ht⟩
    · rintro ⟨p, r, hp, hr, ht⟩; exact ⟨p, r, hp, (ih r).2 hr, ht⟩
  | swap F G l =>
    intro t
    constructor
    · rintro ⟨p, r, hp, ⟨p2, r2, hp2, hr2, hr⟩, ht⟩
      refine ⟨p2, (lift G.1 p).dmul r2, hp2, ⟨p, r2, hp, hr2, teqv_refl _⟩, ?_⟩
      exact teqv_trans ht (teqv_trans (dmul_congr (teqv_refl _) hr) (dmul_left_comm _ _ _))
    · rintro ⟨p, r, hp, ⟨p2, r2, hp2, hr2, hr⟩, ht⟩
      refine ⟨p2, (lift F.1 p).dmul r2, hp2, ⟨p, r2, hp, hr2, teqv_refl _⟩, ?_⟩
      exact teqv_trans ht (teqv_trans (dmul_congr (teqv_refl _) hr) (dmul_left_comm _ _ _))
  | trans _ _ ih1 ih2 => intro t; exact (ih1 t).trans (ih2 t)

/-! ### well-formed factors -/

structure FacOK (F : Fac) : Prop where
  nodup : F.1.Nodup
  width : ∀ p, F.2 p → p.ps.length = F.1.length
  congr : ∀ p q, p ≈ₚ q → F.2 p → F.2 q
  one : F.2 (Stab.one F.1.length)
  /-- the group does not contain −1 (nor ±i) -/
  idph : ∀ p, F.2 p → p.ps = idPad F.1.length → p.ph % 4 = 0

structure FacsOK (L : List Fac) : Prop where
  each : ∀ F, F ∈ L → FacOK F
  nodup : (L.flatMap (·.1)).Nodup

theorem facOK_of_valid {toks : List Nat} {n : Nat} {rows : List Row} (hn : toks.Nodup) (hl : toks.length = n)
    (hv : Valid n rows) : FacOK (toks, InGroup n rows) := by
  refine ⟨hn, fun p hp => ?_, fun p q e hp => inGroup_congr e hp, ?_, ?_⟩
  · show p.ps.length = toks.length
    rw [hl]; exact Meas.inGroup_len hv.width hp
  · show InGroup n rows (Stab.one toks.length)
    rw [hl]; exact inGroup_one n rows
  · intro p hp hps
    obtain ⟨c, hc, e⟩ := hp
    have h1 : (prodSel n c (dens rows)).ps = idPad n := by
      rw [e.1, hps]; show idPad toks.length = _; rw [hl]
    have := hv.indep c hc h1
    rw [this, prodSel_replicate_false] at e
    have := e.2
    simp only [Stab.one] at this
    omega

theorem FacsOK.tail {F : Fac} {L : List Fac} (h : FacsOK (F :: L)) : FacsOK L :=
  ⟨fun G hG => h.each G (List.mem_cons_of_mem _ hG), by
    have := h.nodup
    rw [List.flatMap_cons, List.nodup_append] at this
    exact this.2.1⟩

theorem FacsOK.head {F : Fac} {L : List Fac} (h : FacsOK (F :: L)) : FacOK F := h.each F List.mem_cons_self

/-- the head's slot labels occur in no other factor -/
theorem FacsOK.disj {F : Fac} {L : List Fac} (h : FacsOK (F :: L)) {x : Nat} (hx : x ∈ F.1) :
    ∀ G, G ∈ L → x ∉ G.1 := by
  intro G hG hxG
  have := h.nodup
  rw [List.flatMap_cons, List.nodup_append] at this
  exact this.2.2 x hx x (List.mem_flatMap.2 ⟨G, hG, hxG⟩) rfl

theorem FacsOK.perm {L L' : List Fac} (hp : L.Perm L') (h : FacsOK L) : FacsOK L' :=
  ⟨fun F hF => h.each F (hp.mem_iff.2 hF), (hp.flatMap_right _).nodup_iff.1 h.nodup⟩

/-- on the head's tokens the rest of the product is the identity -/
theorem prodG_rest_off {F : Fac} {L : List Fac} (h : FacsOK (F :: L)) {r : TOp} (hr : ProdG L r) {x : Nat}
    (hx : x ∈ F.1) : r.f x = I1 :=
  prodG_off L hr (h.disj hx)

theorem prodG_one : ∀ (L : List Fac), (∀ F, F ∈ L → F.2 (Stab.one F.1.length)) → ProdG L TOp.one
  | [], _ => teqv_refl _
  | F :: rest, h =>
    ⟨Stab.one F.1.length, TOp.one, h F List.mem_cons_self,
      prodG_one rest (fun G hG => h G (List.mem_cons_of_mem _ hG)),
      teqv_symm (teqv_trans (dmul_one _) (lift_one _ _))⟩

/-- an element of a well-formed product group all of whose letters are `I` is `+1` -/
theorem prodG_trivial : ∀ (L : List Fac), FacsOK L → ∀ r, ProdG L r → (∀ x, r.f x = I1) → r.ph % 4 = 0
  | [], _, r, h, _ => by have := h.1; simpa [TOp.one] using this
  | F :: rest, hok, r, ⟨p, r', hp, hr', ht⟩, hall => by
    have hF := hok.head
    have hoff : ∀ x, x ∈ F.1 → r'.f x = I1 := fun x hx => prodG_rest_off hok hr' hx
    have hlook : ∀ x, look F.1 p.ps x = I1 := by
      intro x
      by_cases hx : x ∈ F.1
      · have := ht.2 x
        rw [hall x] at this
        simp only [TOp.dmul, lift, hoff x hx, mul1_I1_right] at this
        exact this.symm
      · exact look_notin _ _ _ hx
    have hps : p.ps = idPad F.1.length := by
      apply look_inj F.1 p.ps (idPad F.1.length) hF.nodup (hF.width p hp) (by simp [idPad])
      intro x _
      rw [hlook x, look_idPad]
    have hph := hF.idph p hp hps
    have hall' : ∀ x, r'.f x = I1 := by
      intro x
      have := ht.2 x
      rw [hall x] at this
      simp only [TOp.dmul, lift, hlook x, mul1_I1_left] at this
      exact this.symm
    have := prodG_trivial rest hok.tail r' hr' hall'
    have h1 := ht.1
    simp only [TOp.dmul, lift] at h1
    omega

/-- **the other factors cannot contribute**: an operator supported on the head register is in the
product group iff the register-local operator is in the head's group -/
theorem prodG_head_only {toks : List Nat} {G : POp → Prop} {rest : List Fac} (hok : FacsOK ((toks, G) :: rest))
    (z : POp) (hz : z.ps.length = toks.length) :
    ProdG ((toks, G) :: rest) (lift toks z) ↔ G z := by
  have hF := hok.head
  constructor
  · rintro ⟨p, r, hp, hr, ht⟩
    have hoff : ∀ x, x ∈ toks → r.f x = I1 := fun x hx => prodG_rest_off hok hr hx
    have hps : z.ps = p.ps := by
      apply look_inj toks z.ps p.ps hF.nodup hz (hF.width p hp)
      intro x hx
      have := ht.2 x
      simp only [TOp.dmul, lift, hoff x hx, mul1_I1_right] at this
      exact this
    have hall : ∀ x, r.f x = I1 := by
      intro x
      by_cases hx : x ∈ toks
      · exact hoff x hx
      · have := ht.2 x
        simp only [TOp.dmul, lift] at this
        rw [look_notin toks z.ps x hx, look_notin toks p.ps x hx, mul1_I1_left] at this
        exact this.symm
    have hr0 := prodG_trivial rest hok.tail r hr hall
    have h1 := ht.1
    simp only [TOp.dmul, lift] at h1
    exact hF.congr p z ⟨hps.symm, by omega⟩ hp
  · intro h
    refine ⟨z, TOp.one, h, prodG_one rest (fun F hFm => (hok.tail.each F hFm).one), teqv_symm (dmul_one _)⟩

/-! ### the head factor changes -/

/-- if the head's group moves by the relation `ρ` and `ρ` reads on tokens as `Ρ` (in the presence of
the other factors), the product group moves by `Ρ` -/
theorem prodG_head_rel {toks toks' : List Nat} {G G' : POp → Prop} {rest : List Fac}
    (ρ : POp → POp → Prop) (Ρ : TOp → TOp → Prop)
    (hG' : ∀ p', G' p' ↔ ∃ q, G q ∧ ρ q p')
    (hcongr : ∀ a a' b b', a ≈ₜ a' → b ≈ₜ b' → Ρ a b → Ρ a' b')
    (h1 : ∀ q p' r, G q → ρ q p' → ProdG rest r → Ρ ((lift toks q).dmul r) ((lift toks' p').dmul r))
    (h2 : ∀ q r t, G q → ProdG rest r → Ρ ((lift toks q).dmul r) t →
      ∃ p', ρ q p' ∧ t ≈ₜ (lift toks' p').dmul r) (t : TOp) :
    ProdG ((toks', G') :: rest) t ↔ ∃ t0, ProdG ((toks, G) :: rest) t0 ∧ Ρ t0 t := by
  constructor
  · rintro ⟨p', r, hp', hr, ht⟩
    obtain ⟨q, hq, hρ⟩ := (hG' p').1 hp'
    exact ⟨(lift toks q).dmul r, ⟨q, r, hq, hr, teqv_refl _⟩,
      hcongr _ _ _ _ (teqv_refl _) (teqv_symm ht) (h1 q p' r hq hρ hr)⟩
  · rintro ⟨t0, ⟨q, r, hq, hr, ht0⟩, hΡ⟩
    obtain ⟨p', hρ, ht⟩ := h2 q r t hq hr (hcongr _ _ _ _ ht0 (teqv_refl _) hΡ)
    exact ⟨p', r, (hG' p').2 ⟨q, hq, hρ⟩, hr, ht⟩

/-- the same for a map: the head's group is the image under `φ`, which reads on tokens as `Φ` -/
theorem prodG_head_map {toks toks' : List Nat} {G G' : POp → Prop} {rest : List Fac}
    (φ : POp → POp) (Φ : TOp → TOp)
    (hG' : ∀ p', G' p' ↔ ∃ q, G q ∧ p' ≈ₚ φ q)
    (hcongr : ∀ a a', a ≈ₜ a' → Φ a ≈ₜ Φ a')
    (hΦ : ∀ q r, G q → ProdG rest r → Φ ((lift toks q).dmul r) ≈ₜ (lift toks' (φ q)).dmul r) (t : TOp) :
    ProdG ((toks', G') :: rest) t ↔ ∃ t0, ProdG ((toks, G) :: rest) t0 ∧ t ≈ₜ Φ t0 := by
  refine prodG_head_rel (fun q p' => p' ≈ₚ φ q) (fun a b => b ≈ₜ Φ a) hG' ?_ ?_ ?_ t
  · intro a a' b b' ea eb h
    exact teqv_trans (teqv_symm eb) (teqv_trans h (hcongr a a' ea))
  · intro q p' r hq hρ hr
    exact teqv_trans (dmul_congr (lift_congr toks' hρ) (teqv_refl r)) (teqv_symm (hΦ q r hq hr))
  · intro q r t hq hr h
    exact ⟨φ q, eqv_refl _, teqv_trans h (hΦ q r hq hr)⟩

/-- a factor without qubits contributes nothing -/
theorem prodG_nil_fac {G : POp → Prop} {rest : List Fac} (hG : ∀ p, G p ↔ p ≈ₚ Stab.one 0) (t : TOp) :
    ProdG (([], G) :: rest) t ↔ ProdG rest t := by
  constructor
  · rintro ⟨p, r, hp, hr, ht⟩
    refine prodG_congr rest (teqv_symm ?_) hr
    have hp' := (hG p).1 hp
    refine teqv_trans ht (teqv_trans (dmul_congr (b := r) (b' := r) ?_ (teqv_refl r)) (one_dmul r))
    refine ⟨?_, fun x => look_nil_left p.ps x⟩
    have := hp'.2
    simpa [lift, Stab.one, TOp.one] using this
  · intro h
    refine ⟨Stab.one 0, t, (hG _).2 (eqv_refl _), h, teqv_symm ?_⟩
    exact teqv_trans (dmul_congr (b := t) (b' := t) (lift_one [] 0) (teqv_refl t)) (one_dmul t)

/-- two factors with disjoint slots may be replaced by their tensor product -/
theorem prodG_merge {ta tb : List Nat} {GA GB GAB : POp → Prop} {rest : List Fac}
    (hAB : ∀ p, GAB p ↔ ∃ q r, GA q ∧ GB r ∧ p ≈ₚ q.tensor r)
    (hw : ∀ q, GA q → q.ps.length = ta.length) (hd : ∀ x, x ∈ ta → x ∉ tb) (t : TOp) :
    ProdG ((ta ++ tb, GAB) :: rest) t ↔ ProdG ((ta, GA) :: (tb, GB) :: rest) t := by
  constructor
  · rintro ⟨p, r, hp, hr, ht⟩
    obtain ⟨q, r', hq, hr', e⟩ := (hAB p).1 hp
    refine ⟨q, (lift tb r').dmul r, hq, ⟨r', r, hr', hr, teqv_refl _⟩, ?_⟩
    refine teqv_trans ht (teqv_trans (dmul_congr (b := r) (b' := r) ?_ (teqv_refl r)) (dmul_assoc _ _ _))
    exact teqv_trans (lift_congr _ e) (lift_tensor ta tb q r' (hw q hq) hd)
  · rintro ⟨q, r1, hq, ⟨r', r, hr', hr, e1⟩, ht⟩
    refine ⟨q.tensor r', r, (hAB _).2 ⟨q, r', hq, hr', eqv_refl _⟩, hr, ?_⟩
    refine teqv_trans ht (teqv_trans (dmul_congr (teqv_refl _) e1) ?_)
    refine teqv_trans (teqv_symm (dmul_assoc _ _ _)) (dmul_congr (b := r) (b' := r) ?_ (teqv_refl r))
    exact teqv_symm (lift_tensor ta tb q r' (hw q hq) hd)

/-- the ideal register's group is the product group of the one-factor list -/
theorem idealGroup_iff (I : Ideal) (t : TOp) : IdealGroup I t ↔ ProdG [I.fac] t := by
  constructor
  · rintro ⟨p, hp, ht⟩
    exact ⟨p, TOp.one, hp, teqv_refl _, teqv_trans ht (teqv_symm (dmul_one _))⟩
  · rintro ⟨p, r, hp, hr, ht⟩
    exact ⟨p, hp, teqv_trans ht (teqv_trans (dmul_congr (teqv_refl _) hr) (dmul_one _))⟩

end SqVerif.Joint

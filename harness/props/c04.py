"""C04 -- every operation completes and no lock outlives it.

Same exploration as C03 (harness/schedcase.py) including crossing / cyclic /
self-addressed sends; oracle: every client Deferred fires within 600 s of
virtual time and, at quiescence, no node lock and no qubit lock is held.

Four directed families on top of the pair exploration (schedcase.family_tasks;
they run first and are never skipped for time):

* "slow grant": ONE two-qubit gate, no contention; a lock request of
  `_lock_nodes` -- or the grant on its way back -- is slower than the 1-4 s
  back-off time-out, afterwards the network is fast again (timer-versus-message
  race of a single operation with itself);
* "operations waiting for one missing connection": the network is still coming
  up (`SimNet(..., bringup=spec)`: a directed connection is refused and retried by
  the node), 2-3 operations on different handles all wait in `get_connection` for
  the same peer, then the connection comes up;
* "operation behind a completed gate": a two-qubit gate pulls a register one of
  whose qubits is held by a THIRD node; everything the new (variant: the old)
  simulator sends to that node is held while anything else can be delivered
  (`HeldConnPolicy`); the third node's client issues an operation on its handle
  of that register when the gate has RETURNED (case key "chain": the only serial
  order is gate; operation) -- or together with the gate;
* "one remote node twice in the gate's lock list": a two-qubit gate on two
  handles simulated at the same remote node, against a third party's operation
  on another qubit simulated there (placement "trio"), delay injection over the
  whole gate including its release phase.

A schedule in which nothing is deliverable any more, only timers fire (lock
pollers, `_lock_nodes` time-outs and retries), some lock is held and no operation
completes for 60 virtual seconds (one and the same lock acquisition) / 90
virtual seconds (locks taken and released all the time) is given up as hanging
at that point instead of after 600 s (`schedcase.Stall`): every cancelled lock
request leaves a poller behind, so hanging schedules get quadratically more
expensive with the virtual time they are given.  The longest such period seen
in a run that does complete is reported in the counts ("~completed although
...") -- 14 s at most in 630 000 thorough-tier schedules."""
from .. import core
from .. import schedcase
from .. import skeltrace

LEAN_TARGETS = ["SqVerif.Props.C04", "SqVerif.Props.C04Live"]
PROPS_FILE = ["SqVerif/Props/C04Skel.lean", "SqVerif/Props/C04Live.lean"]
DRIVE_TARGETS = ["SqVerif.Drive.VNet", "SqVerif.Drive.Skel"]
TRUSTED = [
    "harness/simnet.py: fake reactor + Perspective Broker over in-memory pipes, one schedulable event per PB message, "
    "per-connection FIFO, fake clock (virtual time: a 600 s hang costs milliseconds)",
    "harness/schedcase.py: attribution of messages/timers to operations, schedule policies, lock monitor "
    "(twisted DeferredLock.acquire/release wrapped from outside); early hang verdict (schedcase.Stall: 60 / 90 virtual s "
    "without a completion while a lock is held, nothing is deliverable and only timers fire) in place of the full budget",
    "harness/simnet.py bring-up mode (connect attempts decided at the virtual time they are made, connection retries as "
    "background timers; when every operation waits without a timer of its own the earliest retry is fired: "
    "SimNet.fire_next_retry)",
    "AST translator harness/gen/skel.py (skeletons of virtual.py / quantum.py for locks_balanced / hold-and-wait analysis): "
    "validated dynamically by trace acceptance (harness/skeltrace.py: every activation of a translated method recorded on "
    "the real code -- node/qubit lock operations, mutations of virtQubits/simQubits/registers, node-method calls, with roles, "
    "and how it ended -- must be a path of its skeleton: Skel.accepts, sound by trace_acceptance_ret/exc/open); not compared: "
    "guards, asserts, aliases, cancel, raise kinds, calls on simulated-qubit/engine objects, other fields",
    "harness/skeltrace.py: attribution of events to activations (contextvar frame + source text of the call expression), "
    "mapping of concrete nodes / simulated qubits to role sets",
]
ASSUMPTIONS = [
    "stabilizer backend, three nodes, at most two client connections per node; 1-2 concurrent operations exhaustively at "
    "the stated delay bound, 3-4 sampled",
    "back-off draws are scripted: pairwise distinct (main class) and four equal draws followed by distinct ones (stressed class)",
    "budget: 600 s of virtual time per operation set; a run without any completion for 60 / 90 virtual s in which only "
    "timers fire and a lock is held counts as never completing",
    "slow grant: one message held (request or reply of one get_global_lock of _lock_nodes), first back-off draw 1 s or 4 s; "
    "missing connection: two bring-up schedules (Alice->Bob missing; Bob late: Alice->Bob and Charlie->Bob missing), "
    "conn_retry_time 0.5 s",
]


def gen(ctx):
    try:
        from ..gen import skel
    except ImportError:
        return {"obligations": 0, "note": "harness.gen.skel not available"}
    return skel.generate(core.REPO, core.LEAN_DIR)


def run(ctx):
    res = schedcase.check(ctx, "C04")
    skeltrace.tie(ctx, res, "C04")
    return res


def search(ctx, res, broken):
    schedcase.search(ctx, "C04", res, broken)

import SqVerif.Drive.StabApi
def main : IO Unit := SqVerif.Drive.loopStateless SqVerif.Drive.StabApi.handle

import SqVerif.VNetSpec
import SqVerif.Engine
import SqVerif.StabSpec
/-
L2 ∘ L1 — the engine-level state of a whole network and the interpreter that
performs, on the model of the REAL stabilizer engine (`Engine.StabEngine`, L1,
on top of `Stab.St`, L0), the engine calls a step of the virtual-node model
(`VNet.step`, L2) emits as `EOp`s.  Core Lean only.

* `EngSt`      for every (node, register number) a `StabEngine` together with the
               ghost slot labels of the C15 contract (`Engine.Reg Nat`: `max`,
               `slots`), the registers in flight between `get_register_del` at
               the old simulator and `absorb_parts` at the new one, and the
               supply of fresh slot labels.
* `applyEOp`   one emitted call on the engines; `none` = the engine method (or the
               dictionary access `registers.pop`) raises.
* `LabSt`, `labOp`  the same calls on the contract alone (labels and limits, no
               quantum state): `Engine.Reg.step` lifted to a network.  The labels
               inside `EngSt` evolve by exactly this (`VNetEngineLemmas.eng_sim`).
* `Agree`      the coupling invariant between an L2 state and an engine state.

Order of limit raising / absorbing, checked against virtual.py:
  local_merge_regs 937-944   reg1.maxQubits += reg2.activeQubits ; reg1.absorb(reg2) ;
                             … ; remote_delete_register(reg2)           = [absorb, delReg]
  remote_get_register_del 1123-1136   get_register_RI() ; activeQ ; … ;
                             remote_delete_register(delRegister)        = [exportDel, delReg]
  remote_merge_from 987-992  localReg.maxQubits += activeQ ; localReg.absorb_parts(R, I, activeQ)
                                                                        = [absorbParts]
  _remove_sim_qubit 864-868  delRegister.remove_qubit(delNum) ; if activeQubits == 0:
                             remote_delete_register                     = [remove, (delReg)]
  remote_new_qubit 455-461   remote_add_register() (= stabilizerEngine(maxQubits=10)) ;
                             make_fresh() → add_fresh_qubit()           = [newReg, addFresh]
-/
namespace SqVerif.VNetEng
open SqVerif.VNet

/-- (node, register number) -/
abbrev Key := Nat × Nat

/-! ### association lists keyed by (node, register) — the `registers` dictionaries -/

def aget {α : Type} (l : List (Key × α)) (k : Key) : Option α := (l.find? fun p => p.1 == k).map (·.2)
def adel {α : Type} (l : List (Key × α)) (k : Key) : List (Key × α) := l.filter fun p => !(p.1 == k)
def aset {α : Type} (l : List (Key × α)) (k : Key) (v : α) : List (Key × α) := (k, v) :: adel l k

/-! ### one register: the real engine plus the contract's ghost labels -/

/-- the contract register of C15 with natural-number slot labels -/
abbrev LReg := Engine.Reg Nat

/-- a `stabilizerEngine` object and, next to it, the register of the C15 contract
(`lab.slots` = which logical qubit sits at which position, `lab.max` = limit) -/
structure LEng where
  eng : Engine.StabEngine
  lab : LReg
  deriving DecidableEq, Repr

/-- a call of the contract; `none` = refused -/
def regCall (x : LReg) (c : Engine.SCall Nat) : Option LReg :=
  match (x.step c).1 with
  | .ok _ => some (x.step c).2
  | .error _ => none

/-- a call of the engine method `c`; the slots it brings in are labelled `ls`.
`none` = the method raises.  The labels evolve by the contract (`Engine.Reg.step`
on `c.toSpec ls`) -/
def LEng.call (en : LEng) (c : Engine.Call) (ls : List Nat) : Option LEng :=
  match (en.eng.step c).1 with
  | .ok _ => some { eng := (en.eng.step c).2, lab := (en.lab.step (c.toSpec ls)).2 }
  | .error _ => none

/-- `stabilizerEngine(node, num, maxQubits=10)` -/
def LEng.fresh : LEng := { eng := Engine.StabEngine.new 10, lab := { max := 10, slots := [] } }

/-- what `remote_get_register_del` returns: `(R, I, activeQ, …)`; ghost: the labels -/
structure Flight where
  R : List (List Bool)
  activeQ : Nat
  labs : List Nat
  deriving DecidableEq, Repr

structure EngSt where
  regs : List (Key × LEng)
  flight : List (Key × Flight)
  /-- next fresh slot label -/
  next : Nat
  deriving DecidableEq, Repr

def EngSt.empty : EngSt := { regs := [], flight := [], next := 0 }

/-! ### gates of the virtual-node layer as engine calls -/

/-- `apply_X` … `apply_K` are offered by the stabilizer engine; `apply_T` and
`apply_rotation` raise SimUnsupportedError -/
def g1Call : G1 → Nat → Engine.Call
  | .X, p => .gate1 .X p
  | .Y, p => .gate1 .Y p
  | .Z, p => .gate1 .Z p
  | .H, p => .gate1 .H p
  | .K, p => .gate1 .K p
  | .T, p => .applyT p
  | .Rot, p => .rotation p

/-- `apply_CNOT`, `apply_CPHASE` -/
def g2Gate : G2 → Stab.Gate2
  | .CNOT => .CNOT
  | .CPHASE => .CZ

/-- a method call on the register object `(n, r)` -/
def EngSt.onReg (e : EngSt) (k : Key) (c : Engine.Call) (ls : List Nat) : Option EngSt :=
  match aget e.regs k with
  | none => none
  | some en => (en.call c ls).map fun en' => { e with regs := aset e.regs k en' }

/-- `reg.maxQubits = reg.maxQubits + a ; reg.<absorb>` -/
def LEng.raiseThen (en : LEng) (a : Nat) (c : Engine.Call) (ls : List Nat) : Option LEng :=
  (en.call (.setMax (en.eng.max + a)) []).bind fun en1 => en1.call c ls

/-- one emitted engine call, performed.  `rc` is the coin of the measurement inside
`remove_qubit` (the qubit has just been measured in place, the outcome is certain);
the coin of `measure_qubit_inplace` is the recorded outcome: for a random outcome
the engine returns its coin, for a certain one the coin is not looked at. -/
def applyEOp (rc : Bool) (e : EngSt) : EOp → Option EngSt
  | .newReg n r => some { e with regs := aset e.regs (n, r) LEng.fresh }
  | .delReg n r =>
    match aget e.regs (n, r) with
    | none => none                                   -- `registers.pop(regnum)`: KeyError
    | some _ => some { e with regs := adel e.regs (n, r) }
  | .addFresh n r => (e.onReg (n, r) .addFresh [e.next]).map fun e' => { e' with next := e.next + 1 }
  | .gate1 g n r p => e.onReg (n, r) (g1Call g p) []
  | .gate2 g n r c t => e.onReg (n, r) (.gate2 (g2Gate g) c t) []
  | .measInplace n r p oc => e.onReg (n, r) (.measureInplace p oc) []
  | .remove n r p => e.onReg (n, r) (.remove p rc) []
  | .absorb n r1 r2 =>
    match aget e.regs (n, r1), aget e.regs (n, r2) with
    | some e1, some e2 =>
      (e1.raiseThen e2.eng.active (.absorb e2.eng) e2.lab.slots).map fun e1' =>
        { e with regs := aset e.regs (n, r1) e1' }
    | _, _ => none
  | .exportDel n r =>
    match aget e.regs (n, r) with
    | none => none
    | some en =>
      some { e with flight := aset e.flight (n, r)
                      { R := en.eng.getRegisterRI.1, activeQ := en.eng.active, labs := en.lab.slots } }
  | .absorbParts n r sn sr =>
    match aget e.regs (n, r), aget e.flight (sn, sr) with
    | some en, some f =>
      (en.raiseThen f.activeQ (.absorbParts f.R f.activeQ) f.labs).map fun en' =>
        { e with regs := aset e.regs (n, r) en', flight := adel e.flight (sn, sr) }
    | _, _ => none

def runOps (rc : Bool) (e : EngSt) : List EOp → Option EngSt
  | [] => some e
  | op :: ops => (applyEOp rc e op).bind fun e' => runOps rc e' ops

/-- a program: every step's engine calls are performed as they are emitted -/
def runProg (rc : Bool) (s : Net) (e : EngSt) : List Op → Option (Net × EngSt)
  | [] => some (s, e)
  | op :: ops =>
    match runOps rc e (step s op).2.2 with
    | none => none
    | some e' => runProg rc (step s op).1 e' ops

/-- the bit the engine's `measure_qubit_inplace` returns for an emitted `measInplace`
(`none` for other calls or a raise) -/
def engOutcome (e : EngSt) : EOp → Option Bool
  | .measInplace n r p oc =>
    match aget e.regs (n, r) with
    | none => none
    | some en =>
      match (en.eng.measureQubitInplace p oc).1 with
      | .ok b => some b
      | .error _ => none
  | _ => none

/-! ### the contract alone: labels and limits of every register of the network -/

structure LabSt where
  regs : List (Key × LReg)
  flight : List (Key × List Nat)
  next : Nat
  deriving DecidableEq, Repr

def LabSt.onReg (L : LabSt) (k : Key) (c : Engine.SCall Nat) : Option LabSt :=
  match aget L.regs k with
  | none => none
  | some x => (regCall x c).map fun x' => { L with regs := aset L.regs k x' }

def raiseThenL (x : LReg) (ls : List Nat) : Option LReg :=
  (regCall x (.setMax (x.max + ls.length))).bind fun x1 => regCall x1 (.absorb ls)

def labOp (L : LabSt) : EOp → Option LabSt
  | .newReg n r => some { L with regs := aset L.regs (n, r) { max := 10, slots := [] } }
  | .delReg n r =>
    match aget L.regs (n, r) with
    | none => none
    | some _ => some { L with regs := adel L.regs (n, r) }
  | .addFresh n r => (L.onReg (n, r) (.add [L.next])).map fun L' => { L' with next := L.next + 1 }
  | .gate1 g n r p => L.onReg (n, r) ((g1Call g p).toSpec [])
  | .gate2 _ n r c t => L.onReg (n, r) (.gate [c, t])
  | .measInplace n r p _ => L.onReg (n, r) (.measureInplace p)
  | .remove n r p => L.onReg (n, r) (.remove p)
  | .absorb n r1 r2 =>
    match aget L.regs (n, r1), aget L.regs (n, r2) with
    | some x1, some x2 => (raiseThenL x1 x2.slots).map fun y => { L with regs := aset L.regs (n, r1) y }
    | _, _ => none
  | .exportDel n r =>
    match aget L.regs (n, r) with
    | none => none
    | some x => some { L with flight := aset L.flight (n, r) x.slots }
  | .absorbParts n r sn sr =>
    match aget L.regs (n, r), aget L.flight (sn, sr) with
    | some x, some ls =>
      (raiseThenL x ls).map fun y => { L with regs := aset L.regs (n, r) y, flight := adel L.flight (sn, sr) }
    | _, _ => none

def labOps (L : LabSt) : List EOp → Option LabSt
  | [] => some L
  | op :: ops => (labOp L op).bind fun L' => labOps L' ops

/-- forget the quantum state -/
def EngSt.labs (e : EngSt) : LabSt :=
  { regs := e.regs.map fun p => (p.1, p.2.lab),
    flight := e.flight.map fun p => (p.1, p.2.labs),
    next := e.next }

/-! ### the coupling invariant -/

/-- the register `r` of node `n` in the L2 state -/
def regAt (s : Net) (n r : Nat) : Option VNet.Reg := (s.nodes[n]?).bind fun nd => nd.reg? r

/-- an L2 register as the contract sees it: limit and ghost tokens -/
def toLab (rg : VNet.Reg) : LReg := { max := rg.max, slots := rg.toks }

def regMap (s : Net) (k : Key) : Option LReg := (regAt s k.1 k.2).map toLab

/-- contract level: under every (node, number) of the L2 state — and under no other
key — a register with the same limit whose slot labels are the ghost tokens;
nothing in flight; the label supply is the token supply -/
structure LabAgree (s : Net) (L : LabSt) : Prop where
  regs : ∀ k, aget L.regs k = regMap s k
  keys : (L.regs.map (·.1)).Nodup
  flight : L.flight = []
  next : L.next = s.nextTok

/-- an engine object is in step with its contract register (C15's `Rel`) and its
stabilizer state is one the L0 theorems apply to -/
structure LEng.OK (en : LEng) : Prop where
  size : en.eng.st.n = en.lab.slots.length
  max : en.eng.max = en.lab.max
  reach : Stab.Reachable en.eng.st

/-- an export in flight: `activeQ` is its size and `StabilizerState(R)` accepts it -/
structure Flight.OK (f : Flight) : Prop where
  size : f.activeQ = f.labs.length
  data : ∃ q, Engine.ofArray f.R = some q ∧ q.n = f.labs.length ∧ Stab.Reachable q

structure EngInv (e : EngSt) : Prop where
  regs : ∀ k en, aget e.regs k = some en → en.OK
  flight : ∀ k f, aget e.flight k = some f → f.OK

/-- the coupling invariant: for every node and every register of `s` there is an
engine under the same (node, number) with `activeQubits = toks.length`,
`maxQubits = max` and slot labels `= toks` — and no other engine -/
structure Agree (s : Net) (e : EngSt) : Prop where
  lab : LabAgree s e.labs
  inv : EngInv e

end SqVerif.VNetEng

"""C17 — generated topologies (simulaqron/network.py).

Tie: the real construct_topology_config vs the Lean model `Topo` (driver
`topo`), graph-level comparison (keys as a set, neighbour lists sorted).  The
tree networkx returns and every random.choice pick are recorded from outside
and handed to the model, which also checks `isTreeB` (the hypothesis of
T17.4/5).  Oracle: plain graph check independent of the model."""
import itertools
import json
import random as _pyrandom

from .. import core

LEAN_TARGETS = ["SqVerif.Props.C17"]
PROPS_FILE = "SqVerif/Props/C17.lean"
DRIVE_TARGETS = ["SqVerif.Drive.Topo"]
TRUSTED = [
    "model Topo.lean hand-written from network.py:204-319; tied by differential execution (this check)",
    "networkx tree generator: output recorded and checked by the verified isTreeB on every call",
    "python's random.choice replaced by a recording/scripted source",
]
ASSUMPTIONS = ["node names are distinct strings (documented input contract)"]


def canon(d):
    return "ok " + ";".join("%s:%s" % (k, ",".join(sorted(d[k]))) for k in sorted(d))


def graph_oracle(nodes, d, m):
    """None if d is a symmetric simple connected graph over exactly `nodes` with m edges."""
    if not isinstance(d, dict):
        return "not a dict"
    if sorted(d.keys()) != sorted(nodes):
        return "keys %r are not the node list" % sorted(d.keys())
    for a, l in d.items():
        if len(set(l)) != len(l):
            return "duplicate neighbour at %s" % a
        if a in l:
            return "self loop at %s" % a
        for b in l:
            if b not in d:
                return "neighbour %s of %s is not a node" % (b, a)
            if a not in d[b]:
                return "edge %s-%s not symmetric" % (a, b)
    seen, todo = {nodes[0]}, [nodes[0]]
    while todo:
        x = todo.pop()
        for y in d[x]:
            if y not in seen:
                seen.add(y)
                todo.append(y)
    if len(seen) != len(nodes):
        return "not connected"
    e = sum(len(l) for l in d.values())
    if e != 2 * m:
        return "%d edges instead of %d" % (e // 2, m)
    return None


class Recorder:
    """stands in for the `random` module inside simulaqron.network"""

    def __init__(self, rng):
        self.rng, self.picks = rng, []

    def choice(self, seq):
        x = seq[self.rng.randrange(len(seq))]
        self.picks.append(tuple(x))
        return x

    def __getattr__(self, n):
        return getattr(self.rng, n)


def names(rng, n):
    """distinct node names; the pool deliberately contains names that are prefixes / substrings of one
    another (Alice/Alice2, n1/n10, A/AB) and names differing only in case: a name is an opaque label"""
    pool = ["Alice", "Bob", "Charlie", "David", "Eve", "Faythe", "Grace", "Heidi", "Ivan", "Judy", "Kim", "Leo",
            "n0", "n1", "x", "Zed", "Alice2", "n10", "n11", "A", "AB", "B", "Bo", "alice", "node", "node1"]
    return rng.sample(pool, n)


SWEEP_NAMES = ["Alice", "Bob", "Charlie", "David", "Eve", "Faythe", "Grace", "Heidi"]


def sweep_seeds(n, thorough):
    """number of scripted seeds per (n, k): the generators are cheap"""
    if n <= 5:
        return 240 if thorough else 120
    if n == 6:
        return 120 if thorough else 40
    return 40


def seeded_sweep(ctx, res, net, nx, tree_fn_name, orig_tree, lines=None, expect=None, wide=None):
    """Every n in 2..6 (..8 thorough), EVERY admissible k in [n-1, n(n-1)/2] and one step outside each end, many
    scripted seeds per (n, k): the real construct_topology_config / get_random_connected / get_random_tree with the
    module's `random` replaced by random.Random(seed) (networkx's tree generator is seeded from the same source), so
    (n, k, seed) determines the run.  A property that fails for a single k and a fraction of the seeds (a dense-graph
    shortcut, an off-by-one in one branch) is met here; the first failure in (n, k, seed) order is the smallest.
    Judged by graph_oracle (node set exact, symmetric, simple, k edges, connected); with the Lean driver the recorded
    tree and picks are also tied to the model."""
    first = {}          # key -> smallest failing (n, k, seed)

    def fail(key, what, replay):
        if key not in first:
            first[key] = 1
            res.violation(key, what, replay)

    def call(fn, seed):
        src = _pyrandom.Random(seed)
        rec = Recorder(src)
        trees = []

        def rec_tree(n, *a, **kw):
            g = orig_tree(n, seed=src.randrange(2 ** 31))
            trees.append(sorted(tuple(e) for e in g.edges()))
            return g

        old_random, old_tree = net.random, getattr(nx, tree_fn_name)
        net.random = rec
        setattr(nx, tree_fn_name, rec_tree)
        try:
            try:
                return "ok", fn(), trees, rec.picks
            except ValueError:
                return "ValueError", None, trees, rec.picks
            except Exception as e:
                return "crash:" + type(e).__name__, None, trees, rec.picks
        finally:
            net.random = old_random
            setattr(nx, tree_fn_name, old_tree)

    def tie(line, want, case):
        if lines is not None:
            lines.append(line)
            expect.append((want, case))

    wide = ctx.thorough if wide is None else wide
    nmax = 8 if wide else 6
    graphs = 0
    for n in range(2, nmax + 1):
        nodes = SWEEP_NAMES[:n]
        lo, hi = n - 1, n * (n - 1) // 2
        seeds = sweep_seeds(n, wide)
        # a second name list (from the run's seed) for a quarter of the seeds: labels are opaque
        alt = names(ctx.rng, n)
        for k in range(lo, hi + 1):
            for seed in range(seeds):
                nl = alt if seed % 4 == 3 else nodes
                for via in (("config", "direct") if seed % 8 == 0 else ("config",)):
                    topology = "random_connected_%d" % k
                    if via == "config":
                        kind, d, trees, picks = call(lambda: net.construct_topology_config(topology, list(nl)), seed)
                    else:
                        kind, d, trees, picks = call(lambda: net.get_random_connected(list(nl), k), seed)
                    graphs += 1
                    replay = {"shape": topology, "nodes": list(nl), "n": n, "k": k, "seed": seed, "via": via,
                              "how": "simulaqron.network.random = random.Random(seed); networkx tree generator "
                                     "seeded with its first randrange(2**31)"}
                    bad = ("raised " + kind) if kind != "ok" else graph_oracle(nl, d, k)
                    if bad:
                        obs = canon(d) if kind == "ok" and isinstance(d, dict) and all(
                            isinstance(v, list) for v in d.values()) else kind
                        fail("random_connected:%s" % (bad.split(" ")[-1] if kind != "ok" else "graph"),
                             "%s over %d nodes, seed %d: %s" % (topology, n, seed, bad), {**replay, "observed": obs})
                    elif via == "config" and trees:
                        t = trees[0]
                        es = " ".join("%d-%d" % e for e in t)
                        ps = " ".join("%d-%d" % tuple(p) for p in picks)
                        case = {**replay, "tree": t, "picks": [tuple(p) for p in picks]}
                        tie("rconn %d %s | %s | %s" % (k, " ".join(nl), es, ps), canon(d), case)
                    if seed < 2 and via == "config":
                        res.case({"shape": topology, "nodes": list(nl), "seed": seed}, nontrivial=n >= 3)
                    res.count("sweep:random_connected")
        # out of range on both sides, as SIGNED integers (the name parser accepts a minus sign): just outside,
        # zero, far outside, and the negation of every admissible count
        outside = sorted(set([lo - 1, hi + 1, 0, hi + 10, -1, -(hi + 1)] + [-kk for kk in range(lo, hi + 1)])
                         - set(range(lo, hi + 1)))
        for k in outside:
            for via in ("config", "direct"):
                topology = "random_connected_%d" % k
                if via == "config":
                    kind, d, _t, _p = call(lambda: net.construct_topology_config(topology, list(nodes)), 0)
                else:
                    kind, d, _t, _p = call(lambda: net.get_random_connected(list(nodes), k), 0)
                if kind != "ValueError":
                    fail("random_connected:accepts-out-of-range",
                         "%s over %d nodes should be rejected, got %s" % (topology, n, kind if d is None else canon(d)),
                         {"shape": topology, "nodes": list(nodes), "n": n, "k": k, "seed": 0, "via": via})
                elif via == "config":
                    tie("rconn %d %s | |" % (k, " ".join(nodes)), "ValueError",
                        {"shape": topology, "nodes": list(nodes), "n": n, "k": k, "seed": 0, "via": via})
                res.count("sweep:out-of-range" if k >= 0 else "sweep:negative-count")
        # names whose count does not parse must be refused with ValueError, never answered with a graph
        for topology in ("random_connected", "random_connected_", "random_connected_x", "random_connected_2.0",
                         "random_connected_%d_" % lo, "random_connected_--%d" % lo):
            kind, d, _t, _p = call(lambda: net.construct_topology_config(topology, list(nodes)), 0)
            if kind != "ValueError":
                fail("random_connected:accepts-malformed-count",
                     "%r over %d nodes should be rejected, got %s" % (topology, n, kind if d is None else canon(d)),
                     {"shape": topology, "nodes": list(nodes), "n": n, "seed": 0, "via": "config"})
            res.count("sweep:malformed-count")
        for seed in range(seeds):
            nl = alt if seed % 4 == 3 else nodes
            for via in (("config", "direct") if seed % 8 == 0 else ("config",)):
                if via == "config":
                    kind, d, trees, _p = call(lambda: net.construct_topology_config("random_tree", list(nl)), seed)
                else:
                    kind, d, trees, _p = call(lambda: net.get_random_tree(list(nl)), seed)
                graphs += 1
                replay = {"shape": "random_tree", "nodes": list(nl), "n": n, "seed": seed, "via": via}
                bad = ("raised " + kind) if kind != "ok" else graph_oracle(nl, d, n - 1)
                if bad:
                    fail("random_tree:%s" % (bad.split(" ")[-1] if kind != "ok" else "graph"),
                         "random_tree over %d nodes, seed %d: %s" % (n, seed, bad), {**replay, "observed": kind})
                elif via == "config" and trees:
                    es = " ".join("%d-%d" % e for e in trees[0])
                    tie("rtree %s | %s" % (" ".join(nl), es), canon(d), {**replay, "tree": trees[0]})
                res.count("sweep:random_tree")
    res.notes.append("seeded sweep: %d graphs, n=2..%d, every admissible k, %s seeds per (n,k)" % (
        graphs, nmax, "/".join(str(sweep_seeds(n, wide)) for n in range(2, nmax + 1))))
    return bool(first)


def run(ctx):
    core.scratch_repo()
    import networkx as nx
    from simulaqron import network as net

    res = core.Result()
    res.rule = ("shapes complete/ring/path for every n in range x several name lists; random_tree and "
                "random_connected_k for n=3..12, every admissible k (thorough) or a spread of k (quick), several "
                "seeds; out-of-range k; seeded sweep: n=2..6 (..8 thorough) x EVERY admissible k x 120/40 scripted seeds "
                "(random.Random(seed) as the module's random source) + one k outside each end + random_tree per seed; "
                "non-trivial = n>=3; distinct by (shape, names, tree, picks)")
    rng = ctx.rng
    trees = []
    tree_fn_name = "random_tree" if hasattr(nx, "random_tree") else "random_labeled_tree"
    orig_tree = getattr(nx, tree_fn_name)

    def rec_tree(n, *a, **k):
        g = orig_tree(n, seed=rng.randrange(2 ** 31))
        trees.append(sorted(tuple(e) for e in g.edges()))
        return g

    rec_tree._c17_orig = orig_tree
    setattr(nx, tree_fn_name, rec_tree)
    recorder = Recorder(rng)
    net.random = recorder

    lines, expect = [], []     # model queries and the matching impl observations

    def impl(topology, nodes):
        del trees[:]
        recorder.picks = []
        try:
            d = net.construct_topology_config(topology, list(nodes))
            return "ok", d
        except ValueError:
            return "ValueError", None
        except IndexError:
            return "IndexError", None
        except Exception as e:  # anything else is not a documented refusal
            return "crash:" + type(e).__name__, None

    def one(shape, nodes, k=None, edges_expected=None, admissible=True):
        topology = shape if k is None else "random_connected_%d" % k
        kind, d = impl(topology, nodes)
        n = len(nodes)
        case = {"shape": topology, "nodes": nodes}
        if kind == "ok":
            obs = canon(d)
        else:
            obs = kind
        # ---- oracle on the implementation
        if admissible:
            bad = ("raised " + kind) if kind != "ok" else graph_oracle(nodes, d, edges_expected)
            if bad:
                res.violation("%s:%s" % (shape, bad.split(" ")[-1] if kind != "ok" else "graph"),
                              "%s over %d nodes: %s" % (topology, n, bad), {**case, "observed": obs})
        else:
            if kind != "ValueError":
                res.violation("%s:accepts-out-of-range" % shape,
                              "%s over %d nodes should be rejected, got %s" % (topology, n, obs), {**case, "observed": obs})
        # ---- model query
        def q(line, want, c):
            lines.append(line)
            expect.append((want, c))

        if shape in ("complete", "ring", "path"):
            q("%s %s" % (shape, " ".join(nodes)), obs, case)
        elif kind in ("ok", "ValueError"):
            t = trees[0] if trees else []
            case["tree"], case["picks"] = t, list(recorder.picks)
            es = " ".join("%d-%d" % e for e in t)
            ps = " ".join("%d-%d" % p for p in recorder.picks)
            if shape == "random_tree":
                q("rtree %s | %s" % (" ".join(nodes), es), obs, case)
            else:
                q("rconn %d %s | %s | %s" % (k, " ".join(nodes), es, ps), obs, case)
            if t:
                q("istree %d | %s" % (n, es), "true", {**case, "what": "networkx returned a tree (hypothesis of T17.4)"})
        else:
            res.count("impl-crash")
            res.case(case, nontrivial=False)
            return
        res.case(case, nontrivial=n >= 3)
        res.count(shape)

    reps = ctx.scale(3, 12)
    for n in range(1, 13):
        for _ in range(reps):
            nodes = names(rng, n)
            if n >= 1:
                one("complete", nodes, edges_expected=n * (n - 1) // 2, admissible=n >= 2)  # n=1: trivially fine either way
            if n >= 3:
                one("ring", nodes, edges_expected=n)
            if n >= 2:
                one("path", nodes, edges_expected=n - 1)
            if n >= 3:
                one("random_tree", nodes, edges_expected=n - 1)
                lo, hi = n - 1, n * (n - 1) // 2
                ks = range(lo, hi + 1) if ctx.thorough or hi - lo < 6 else sorted({lo, lo + 1, hi, hi - 1, rng.randint(lo, hi), rng.randint(lo, hi)})
                for k in ks:
                    one("random_connected", nodes, k=k, edges_expected=k)
                for k in (lo - 1, hi + 1, 0, hi + 7):
                    if k >= 0:
                        one("random_connected", nodes, k=k, admissible=False)
    # ---- every (n, k) x many scripted seeds (own random source per call; restores the recorder afterwards)
    seeded_sweep(ctx, res, net, nx, tree_fn_name, orig_tree, lines, expect)
    # complete with n=1 is outside the stated range: do not judge it
    res.violations = [v for v in res.violations if not (v["replay"]["shape"] == "complete" and len(v["replay"]["nodes"]) < 2)]

    if ctx.lean_ok and lines:
        out = core.lean_run("topo", lines)
        for got, (want, case) in zip(out, expect):
            res.traces += 1
            if got != want:
                res.tie_break("Topo model vs network.construct_topology_config", case, got, want)
    return res


def search(ctx, res, broken):
    # the oracle already ran on every generated case and on the quick seeded sweep; widen the sweep (n up to 8, more
    # seeds per (n, k)) before giving up
    core.scratch_repo()
    import networkx as nx
    from simulaqron import network as net
    tree_fn_name = "random_tree" if hasattr(nx, "random_tree") else "random_labeled_tree"
    orig_tree = getattr(getattr(nx, tree_fn_name), "_c17_orig", getattr(nx, tree_fn_name))
    found = seeded_sweep(ctx, res, net, nx, tree_fn_name, orig_tree, wide=True)
    if not found:
        res.notes.append("targeted search = the graph oracle over all generated cases and the widened seeded sweep; "
                         "no failing input")

import itertools, numpy as np, random
import simulaqron.toolbox.stabilizer_states as SS
from simulaqron.toolbox.stabilizer_states import StabilizerState
I2=np.eye(2); X=np.array([[0,1],[1,0]],complex); Z=np.array([[1,0],[0,-1]],complex); Y=1j*X@Z
Hm=(X+Z)/np.sqrt(2); K=np.array([[1,-1j],[1j,-1]])/np.sqrt(2); S=np.diag([1,1j])
P={(0,0):I2,(1,0):X,(1,1):Y,(0,1):Z}
def kron(ms):
    out=np.array([[1]],complex)
    for m in ms: out=np.kron(out,m)
    return out
def rowmat(row,n):
    return (-1 if row[2*n] else 1)*kron([P[(int(row[i]),int(row[i+n]))] for i in range(n)])
def projector(G,n):
    Pj=np.eye(2**n,dtype=complex)
    for r in G: Pj=Pj@(np.eye(2**n)+rowmat(r,n))/2
    return Pj
def embed1(U,j,n): return kron([U if i==j else I2 for i in range(n)])
def cgate(kind,c,t,n):
    d=2**n; M=np.zeros((d,d),complex)
    for b in range(d):
        bits=[(b>>(n-1-i))&1 for i in range(n)]
        if kind=="CNOT":
            nb=list(bits); 
            if bits[c]: nb[t]^=1
            M[sum(v<<(n-1-i) for i,v in enumerate(nb)),b]=1
        else:
            M[b,b]=-1 if bits[c] and bits[t] else 1
    return M
# enumerate all stabilizer states on n qubits via closure from |0..0> under gates
def key(s): 
    return s.to_array(standard_form=True).tobytes()
def all_states(n):
    s0=StabilizerState(n); seen={key(s0):s0}; frontier=[s0]
    while frontier:
        nf=[]
        for s in frontier:
            for g in ["H","S"]:
                for j in range(n):
                    t=StabilizerState(s); getattr(t,"apply_"+g)(j)
                    if key(t) not in seen: seen[key(t)]=t; nf.append(t)
            for c in range(n):
                for tt in range(n):
                    if c!=tt:
                        t=StabilizerState(s); t.apply_CNOT(c,tt)
                        if key(t) not in seen: seen[key(t)]=t; nf.append(t)
            for j in range(n):
                t=StabilizerState(s); t.apply_X(j)
                if key(t) not in seen: seen[key(t)]=t; nf.append(t)
        frontier=nf
    return list(seen.values())
U1={"X":X,"Y":Y,"Z":Z,"H":Hm,"K":K,"S":S}
bad=0; cnt=0
for n in [1,2,3]:
    sts=all_states(n); print(n, len(sts))
    for s in sts:
        G=s.to_array(); Pj=projector(G,n)
        assert abs(np.trace(Pj)-1)<1e-9
        for g,U in U1.items():
            for j in range(n):
                t=StabilizerState(s); getattr(t,"apply_"+g)(j); UU=embed1(U,j,n)
                ok=np.allclose(projector(t.to_array(),n), UU@Pj@UU.conj().T); cnt+=1
                if not ok: bad+=1; print("BAD",g,j,s.to_string())
        for kind in ["CNOT","CZ"]:
            for c in range(n):
                for tt in range(n):
                    if c==tt: continue
                    t=StabilizerState(s); getattr(t,"apply_"+kind)(c,tt); UU=cgate(kind,c,tt,n)
                    ok=np.allclose(projector(t.to_array(),n), UU@Pj@UU.conj().T); cnt+=1
                    if not ok: bad+=1; print("BAD",kind,c,tt,s.to_string())
        # measurement
        for j in range(n):
            for inplace in [True,False]:
                for coin in [0,1]:
                    SS.randint=lambda a,b,coin=coin: coin
                    t=StabilizerState(s); o=t.measure(j,inplace=inplace); cnt+=1
                    proj=embed1(np.diag([1,0]) if o==0 else np.diag([0,1]),j,n)
                    post=proj@Pj@proj; p=np.trace(post).real
                    if p<1e-9: bad+=1; print("BAD outcome impossible",j,inplace,coin,s.to_string()); continue
                    post/=p
                    if inplace:
                        ok=np.allclose(projector(t.to_array(),n),post)
                    else:
                        # partial trace over qubit j
                        T=post.reshape([2]*(2*n)); T=np.trace(T,axis1=j,axis2=n+j).reshape(2**(n-1),2**(n-1))
                        ok = (t.num_qubits==n-1) and (np.allclose(projector(t.to_array(),n-1),T) if n>1 else True)
                    if not ok: bad+=1; print("BAD measure",j,inplace,coin,o,s.to_string(),"->",t.to_string())
                    if inplace:
                        for c2 in [0,1]:
                            SS.randint=lambda a,b,c2=c2: c2
                            if t.measure(j,inplace=True)!=o: bad+=1; print("BAD remeasure")
print("checks",cnt,"bad",bad)

import SqVerif.NqExecReq
import SqVerif.NqExecLift
/-
L5 — refinement: the concrete backend (unit module → physical id → qubitList
→ token) simulates the token-level backend (addresses name tokens directly)
on every vanilla request, from every state satisfying `Inv`.  Core Lean only.
-/
namespace SqVerif.NqExec

open List

variable {F : List Nat} {ext : Nat}

/-- the token a physical address denotes through qubitList -/
def tokOf (ql : List (Int × Nat)) (p : Nat) : Option Nat := aGet ql (p : Int)

def absUm (ql : List (Int × Nat)) (um : List (Option Nat)) : List (Option Nat) :=
  um.map fun o => o.bind (tokOf ql)

/-- abstraction: compose the unit module with qubitList -/
def abs (c : CQ) : AQ := { aum := c.um.map (absUm c.qlist), node := c.node }

/-- the entries of `um` all have handles in `ql` -/
def Covered (ql : List (Int × Nat)) (um : List (Option Nat)) : Prop := ∀ p ∈ um.filterMap id, (tokOf ql p).isSome

theorem Inv.covered {c : CQ} (h : Inv F ext c) {um : List (Option Nat)} (hum : c.um = some um) : Covered c.qlist um := by
  intro p hp
  exact aGet_isSome_of_mem_keys (h.mapped_ql p (by simpa [mapped, hum] using hp))

theorem absUm_congr {ql ql' : List (Int × Nat)} {um : List (Option Nat)}
    (h : ∀ p ∈ um.filterMap id, tokOf ql' p = tokOf ql p) : absUm ql' um = absUm ql um := by
  unfold absUm
  apply map_congr_left
  intro o ho
  cases o with
  | none => rfl
  | some p => exact h p (mem_filterMap.2 ⟨some p, ho, rfl⟩)

theorem absUm_set (ql : List (Int × Nat)) (um : List (Option Nat)) (i : Nat) (o : Option Nat) :
    absUm ql (um.set i o) = (absUm ql um).set i (o.bind (tokOf ql)) := by
  unfold absUm; rw [map_set]

theorem slotGet_absUm (ql : List (Int × Nat)) (um : List (Option Nat)) (v : Int) :
    slotGet (absUm ql um) v = match slotGet um v with
      | .bad => .bad
      | .empty i => .empty i
      | .full i p => match tokOf ql p with
        | some t => .full i t
        | none => .empty i := by
  unfold slotGet absUm
  rw [length_map]
  cases pyIdx um.length v with
  | none => rfl
  | some i =>
    simp only [getElem?_map]
    cases um[i]? with
    | none => rfl
    | some o =>
      cases o with
      | none => rfl
      | some p => simp only [Option.map_some, Option.bind_some]; cases tokOf ql p <;> rfl

theorem slotGet_abs_bad {ql : List (Int × Nat)} {um : List (Option Nat)} {v : Int} (h : slotGet um v = .bad) :
    slotGet (absUm ql um) v = .bad := by rw [slotGet_absUm, h]

theorem slotGet_abs_empty {ql : List (Int × Nat)} {um : List (Option Nat)} {v : Int} {i : Nat}
    (h : slotGet um v = .empty i) : slotGet (absUm ql um) v = .empty i := by rw [slotGet_absUm, h]

theorem slotGet_abs_full {ql : List (Int × Nat)} {um : List (Option Nat)} {v : Int} {i p t : Nat}
    (h : slotGet um v = .full i p) (ht : tokOf ql p = some t) : slotGet (absUm ql um) v = .full i t := by
  rw [slotGet_absUm, h]; simp only [ht]

/-- resolving an address: the same token on both levels -/
theorem resolve_abs {c : CQ} (h : Inv F ext c) (v : Int) :
    ((abs c).resolve v).map (·.2) = (c.resolve v).map (·.2) := by
  unfold AQ.resolve CQ.resolve abs
  cases hum : c.um with
  | none => rfl
  | some um =>
    simp only [Option.map_some]
    cases hs : slotGet um v with
    | bad => rw [slotGet_abs_bad hs]
    | empty i => rw [slotGet_abs_empty hs]
    | full i p =>
      have hp : p ∈ um.filterMap id := mem_filterMap_of_getElem? (slotGet_full hs)
      have := h.covered hum p hp
      cases ht : tokOf c.qlist p with
      | none => rw [ht] at this; cases this
      | some t =>
        rw [slotGet_abs_full hs ht]
        simp only [tokOf] at ht
        simp [ht]

theorem resolve_abs_none {c : CQ} (h : Inv F ext c) {v : Int} (hr : c.resolve v = none) : (abs c).resolve v = none := by
  have := resolve_abs h v
  rw [hr] at this
  simpa using this

theorem resolve_abs_some {c : CQ} (h : Inv F ext c) {v : Int} {p t : Nat} (hr : c.resolve v = some (p, t)) :
    ∃ i, (abs c).resolve v = some (i, t) := by
  have := resolve_abs h v
  rw [hr] at this
  cases hr' : (abs c).resolve v with
  | none => rw [hr'] at this; cases this
  | some x => rw [hr'] at this; simp at this; exact ⟨x.1, by rw [← this]⟩

theorem resolve_entry {c : CQ} {v : Int} {p t : Nat} (hr : c.resolve v = some (p, t)) : aGet c.qlist (p : Int) = some t := by
  unfold CQ.resolve at hr
  split at hr
  · cases hr
  · split at hr
    · split at hr
      · rename_i hg; cases hr; exact hg
      · cases hr
    · cases hr

theorem nodup_map_inj {α β : Type} (f : α → β) : ∀ {l : List α}, (l.map f).Nodup →
    ∀ {x y : α}, x ∈ l → y ∈ l → f x = f y → x = y := by
  intro l
  induction l with
  | nil => intro _ x y hx; cases hx
  | cons a l ih =>
    intro hn x y hx hy hf
    simp only [map_cons, nodup_cons] at hn
    rcases mem_cons.1 hx with hx' | hx'
    · rcases mem_cons.1 hy with hy' | hy'
      · rw [hx', hy']
      · rw [hx'] at hf; exact absurd (mem_map.2 ⟨y, hy', hf.symm⟩) hn.1
    · rcases mem_cons.1 hy with hy' | hy'
      · rw [hy'] at hf; exact absurd (mem_map.2 ⟨x, hx', hf⟩) hn.1
      · exact ih hn.2 hx' hy' hf

/-- distinct physical ids denote distinct tokens -/
theorem Inv.tok_inj {c : CQ} (h : Inv F ext c) {k k' : Int} {t : Nat} (h1 : aGet c.qlist k = some t)
    (h2 : aGet c.qlist k' = some t) : k = k' := by
  have := nodup_map_inj (fun e : Int × Nat => e.2) (show (c.qlist.map (·.2)).Nodup from h.toks_nodup)
    (mem_of_aGet h1) (mem_of_aGet h2) rfl
  exact congrArg Prod.fst this

/-- two lists related element by element -/
inductive Zip (R : Nat → Nat → Prop) : List Nat → List Nat → Prop
  | nil : Zip R [] []
  | cons {a b : Nat} {as bs : List Nat} : R a b → Zip R as bs → Zip R (a :: as) (b :: bs)

/-! ### the requests -/

theorem sim_initApp {c : CQ} (m : Nat) (env : Env) :
    ((abs c).initApp m env).st = abs (c.initApp m env).st ∧ ((abs c).initApp m env).env = (c.initApp m env).env ∧
    ((abs c).initApp m env).ops = (c.initApp m env).ops ∧ ((abs c).initApp m env).res = (c.initApp m env).res := by
  unfold AQ.initApp CQ.initApp
  cases hum : c.um with
  | some um => simp only [abs, hum, Option.map_some]; exact ⟨by simp [abs, hum, AQ.out, CQ.out], rfl, rfl, rfl⟩
  | none => simp only [abs, hum, Option.map_none]; exact ⟨by simp [abs, AQ.out, CQ.out, absUm], rfl, rfl, rfl⟩

theorem zip_aDel {ql : List (Int × Nat)} {p : Nat} : ∀ {ps ts : List Nat},
    Zip (fun q t => aGet ql (q : Int) = some t) ps ts → p ∉ ps →
    Zip (fun q t => aGet (aDel ql (p : Int)) (q : Int) = some t) ps ts
  | _, _, .nil, _ => .nil
  | _, _, .cons h hr, hp => by
    simp only [mem_cons, not_or] at hp
    refine .cons ?_ (zip_aDel hr hp.2)
    rw [aGet_aDel_ne _ (by intro e; exact hp.1 (by exact_mod_cast e.symm))]
    exact h

theorem zip_length {R : Nat → Nat → Prop} : ∀ {ps ts : List Nat}, Zip R ps ts → ps.length = ts.length
  | _, _, .nil => rfl
  | _, _, .cons _ h => by simp [zip_length h]

theorem sim_stopLoop : ∀ (ps ts : List Nat) (outs : List Bool) (c : CQ) (a : AQ) (ops : List TOp),
    Zip (fun p t => aGet c.qlist (p : Int) = some t) ps ts → ps.Nodup → (∀ p ∈ ps, p ∈ c.used) →
    c.um = none → a = abs c →
    (a.stopLoop (ts.zip outs) ops).1 = abs (c.stopLoop (ps.zip outs) ops).1 ∧
    (a.stopLoop (ts.zip outs) ops).2 = (c.stopLoop (ps.zip outs) ops).2.1 ∧ (c.stopLoop (ps.zip outs) ops).2.2 = true
  | [], _, outs, c, a, ops, hf, _, _, _, ha => by
    cases hf; subst ha; exact ⟨rfl, rfl, rfl⟩
  | p :: ps, _, [], c, a, ops, hf, _, _, _, ha => by
    cases hf; subst ha; exact ⟨rfl, rfl, rfl⟩
  | p :: ps, _, o :: outs, c, a, ops, hf, hn, hu, hum, ha => by
    cases hf with
    | cons hpt hrest =>
      rename_i t ts
      subst ha
      simp only [zip_cons_cons]
      unfold CQ.stopLoop AQ.stopLoop
      rw [if_neg (by simpa using hu p mem_cons_self)]
      dsimp only
      rw [hpt]
      dsimp only
      rw [nodup_cons] at hn
      apply sim_stopLoop ps ts
      · exact zip_aDel hrest hn.1
      · exact hn.2
      · intro q hq
        exact (mem_erase_of_ne (fun (e : q = p) => hn.1 (e ▸ hq))).2 (hu q (mem_cons_of_mem _ hq))
      · exact hum
      · simp [abs, hum]

theorem zip_mapped {ql : List (Int × Nat)} : ∀ {um : List (Option Nat)}, Covered ql um →
    Zip (fun p t => aGet ql (p : Int) = some t) (um.filterMap id) ((absUm ql um).filterMap id) := by
  intro um
  induction um with
  | nil => intro _; exact .nil
  | cons o um ih =>
    intro h
    cases o with
    | none =>
      have : Covered ql um := by intro p hp; exact h p (by simpa using hp)
      simpa [absUm] using ih this
    | some p =>
      have hp := h p (by simp)
      cases ht : tokOf ql p with
      | none => rw [ht] at hp; cases hp
      | some t =>
        have hrest : Covered ql um := by intro q hq; exact h q (by simp [hq])
        have := ih hrest
        simp only [absUm, map_cons, Option.bind_some, ht, filterMap_cons_some, id] at this ⊢
        exact .cons ht this

theorem sim_stopApp {c : CQ} (h : Inv F ext c) (env : Env) :
    ((abs c).stopApp env).st = abs (c.stopApp env).st ∧ ((abs c).stopApp env).env = (c.stopApp env).env ∧
    ((abs c).stopApp env).ops = (c.stopApp env).ops ∧ ((abs c).stopApp env).res = (c.stopApp env).res := by
  unfold AQ.stopApp CQ.stopApp
  cases hum : c.um with
  | none => simp only [abs, hum, Option.map_none]; exact ⟨by simp [hum, AQ.out, CQ.out], rfl, rfl, rfl⟩
  | some um =>
    simp only [abs, hum, Option.map_some]
    have hz := zip_mapped (h.covered hum)
    have hlen := zip_length hz
    rw [← hlen]
    by_cases hshort : env.outs.length < (um.filterMap id).length
    · rw [if_pos hshort, if_pos hshort]
      exact ⟨by simp [hum, AQ.out, CQ.out], rfl, rfl, rfl⟩
    · rw [if_neg hshort, if_neg hshort]
      obtain ⟨h1, h2, h3⟩ := sim_stopLoop (um.filterMap id) _ env.outs { c with um := none }
        { aum := none, node := c.node } [] hz
        (by have := h.mapped_nodup; simpa [mapped, hum] using this)
        (by intro p hp; exact h.mapped_used p (by simpa [mapped, hum] using hp)) rfl (by simp [abs])
      simp only [AQ.out, CQ.out, h3, if_true]
      exact ⟨h1, trivial, h2, trivial⟩

theorem sim_alloc {c : CQ} (h : Inv F ext c) (v : Int) (env : Env) :
    ((abs c).alloc v env).st = abs (c.alloc v env).st ∧ ((abs c).alloc v env).env = (c.alloc v env).env ∧
    ((abs c).alloc v env).ops = (c.alloc v env).ops ∧ ((abs c).alloc v env).res = (c.alloc v env).res := by
  unfold AQ.alloc CQ.alloc
  cases hum : c.um with
  | none => simp only [abs, hum, Option.map_none]; exact ⟨by simp [hum, AQ.out, CQ.out], rfl, rfl, rfl⟩
  | some um =>
    simp only [abs, hum, Option.map_some]
    cases hs : slotGet um v with
    | bad => rw [slotGet_abs_bad hs]; exact ⟨by simp [abs, hum, AQ.out, CQ.out], rfl, rfl, rfl⟩
    | full i p =>
      have hp : p ∈ um.filterMap id := mem_filterMap_of_getElem? (slotGet_full hs)
      have := h.covered hum p hp
      cases ht : tokOf c.qlist p with
      | none => rw [ht] at this; cases this
      | some t => rw [slotGet_abs_full hs ht]; exact ⟨by simp [abs, hum, AQ.out, CQ.out], rfl, rfl, rfl⟩
    | empty i =>
      rw [slotGet_abs_empty hs]
      dsimp only
      rw [CQ.cmdNew_eq]
      unfold Node.new
      dsimp only
      by_cases hfull : c.node.held.length ≥ c.node.cap
      · rw [if_pos hfull, if_pos hfull]
        exact ⟨by simp [abs, hum, AQ.out, CQ.out], rfl, rfl, rfl⟩
      · rw [if_neg hfull, if_neg hfull]
        refine ⟨?_, rfl, rfl, rfl⟩
        have hfree := firstFree_not_mem c.used
        simp only [AQ.out, CQ.out, abs, CQ.registered, Option.map_some]
        congr 2
        rw [absUm_set]
        simp only [Option.bind_some, tokOf, aGet_aSet_self]
        congr 1
        apply (absUm_congr _).symm
        intro q hq
        have : q ≠ firstFree c.used := fun e => hfree (e ▸ h.mapped_used q (by simpa [mapped, hum] using hq))
        simp only [tokOf]
        rw [aGet_aSet_ne _ _ (by exact_mod_cast this)]

theorem sim_init {c : CQ} (h : Inv F ext c) (v : Int) (env : Env) :
    ((abs c).init v env).st = abs (c.init v env).st ∧ ((abs c).init v env).env = (c.init v env).env ∧
    ((abs c).init v env).ops = (c.init v env).ops ∧ ((abs c).init v env).res = (c.init v env).res := by
  unfold AQ.init CQ.init
  cases hr : c.resolve v with
  | none => rw [resolve_abs_none h hr]; exact ⟨rfl, rfl, rfl, rfl⟩
  | some x =>
    obtain ⟨p, t⟩ := x
    obtain ⟨i, hi⟩ := resolve_abs_some h hr
    rw [hi]
    dsimp only
    cases env.outs <;> exact ⟨rfl, rfl, rfl, rfl⟩

theorem sim_gate1 {c : CQ} (h : Inv F ext c) (g : G1) (v : Int) (env : Env) :
    ((abs c).gate1 g v env).st = abs (c.gate1 g v env).st ∧ ((abs c).gate1 g v env).env = (c.gate1 g v env).env ∧
    ((abs c).gate1 g v env).ops = (c.gate1 g v env).ops ∧ ((abs c).gate1 g v env).res = (c.gate1 g v env).res := by
  unfold AQ.gate1 CQ.gate1
  cases hr : c.resolve v with
  | none => rw [resolve_abs_none h hr]; exact ⟨rfl, rfl, rfl, rfl⟩
  | some x =>
    obtain ⟨p, t⟩ := x
    obtain ⟨i, hi⟩ := resolve_abs_some h hr
    rw [hi]
    dsimp only
    cases g.supported <;> exact ⟨rfl, rfl, rfl, rfl⟩

theorem sim_meas {c : CQ} (h : Inv F ext c) (v : Int) (env : Env) :
    ((abs c).meas v env).st = abs (c.meas v env).st ∧ ((abs c).meas v env).env = (c.meas v env).env ∧
    ((abs c).meas v env).ops = (c.meas v env).ops ∧ ((abs c).meas v env).res = (c.meas v env).res := by
  unfold AQ.meas CQ.meas
  cases hr : c.resolve v with
  | none => rw [resolve_abs_none h hr]; exact ⟨rfl, rfl, rfl, rfl⟩
  | some x =>
    obtain ⟨p, t⟩ := x
    obtain ⟨i, hi⟩ := resolve_abs_some h hr
    rw [hi]
    dsimp only
    cases env.outs <;> exact ⟨rfl, rfl, rfl, rfl⟩

theorem sim_gate2 {c : CQ} (h : Inv F ext c) (g : G2) (v w : Int) (env : Env) :
    ((abs c).gate2 g v w env).st = abs (c.gate2 g v w env).st ∧ ((abs c).gate2 g v w env).env = (c.gate2 g v w env).env ∧
    ((abs c).gate2 g v w env).ops = (c.gate2 g v w env).ops ∧ ((abs c).gate2 g v w env).res = (c.gate2 g v w env).res := by
  unfold AQ.gate2 CQ.gate2
  cases hr1 : c.resolve v with
  | none => rw [resolve_abs_none h hr1]; exact ⟨rfl, rfl, rfl, rfl⟩
  | some x =>
    obtain ⟨p1, t1⟩ := x
    obtain ⟨i1, hi1⟩ := resolve_abs_some h hr1
    rw [hi1]
    cases hr2 : c.resolve w with
    | none => rw [resolve_abs_none h hr2]; exact ⟨rfl, rfl, rfl, rfl⟩
    | some y =>
      obtain ⟨p2, t2⟩ := y
      obtain ⟨i2, hi2⟩ := resolve_abs_some h hr2
      rw [hi2]
      dsimp only
      have e1 := resolve_entry hr1
      have e2 := resolve_entry hr2
      by_cases hp : p1 = p2
      · subst hp
        have : t1 = t2 := by rw [e1] at e2; exact Option.some.inj e2
        rw [if_pos rfl, if_pos this]; exact ⟨rfl, rfl, rfl, rfl⟩
      · have : t1 ≠ t2 := by
          intro e; subst e
          exact hp (by exact_mod_cast h.tok_inj e1 e2)
        rw [if_neg hp, if_neg this]; exact ⟨rfl, rfl, rfl, rfl⟩

theorem sim_free {c : CQ} (h : Inv F ext c) (v : Int) (env : Env) :
    ((abs c).free v env).st = abs (c.free v env).st ∧ ((abs c).free v env).env = (c.free v env).env ∧
    ((abs c).free v env).ops = (c.free v env).ops ∧ ((abs c).free v env).res = (c.free v env).res := by
  unfold AQ.free CQ.free
  cases hum : c.um with
  | none => simp only [abs, hum, Option.map_none]; exact ⟨by simp [hum, AQ.out, CQ.out], rfl, rfl, rfl⟩
  | some um =>
    simp only [abs, hum, Option.map_some]
    cases hs : slotGet um v with
    | bad => rw [slotGet_abs_bad hs]; exact ⟨by simp [abs, hum, AQ.out, CQ.out], rfl, rfl, rfl⟩
    | empty i => rw [slotGet_abs_empty hs]; exact ⟨by simp [abs, hum, AQ.out, CQ.out], rfl, rfl, rfl⟩
    | full i p =>
      have hi := slotGet_full hs
      have hp : p ∈ um.filterMap id := mem_filterMap_of_getElem? hi
      have hpm : p ∈ mapped c := by simpa [mapped, hum] using hp
      have := h.covered hum p hp
      cases ht : tokOf c.qlist p with
      | none => rw [ht] at this; cases this
      | some t =>
        rw [slotGet_abs_full hs ht]
        dsimp only
        cases env.outs with
        | nil => exact ⟨by simp [abs, hum, AQ.out, CQ.out], rfl, rfl, rfl⟩
        | cons o rest =>
          dsimp only
          rw [if_neg (by simpa using h.mapped_used p hpm)]
          simp only [tokOf] at ht
          rw [ht]
          refine ⟨?_, rfl, rfl, rfl⟩
          have hnm := not_mapped_after_unmap h hum hi
          have key : absUm (aDel c.qlist (p : Int)) (um.set i none) = (absUm c.qlist um).set i none := by
            rw [absUm_congr (ql := c.qlist), absUm_set]; rfl
            intro q hq
            have : q ≠ p := fun e => hnm (by show p ∈ (um.set i none).filterMap id; exact e ▸ hq)
            simp only [tokOf]
            rw [aGet_aDel_ne _ (by exact_mod_cast this)]
          simp only [AQ.out, CQ.out, abs, Option.map_some, key]

/-- two slots of a unit module with distinct mapped addresses never hold the same address -/
theorem index_unique_of_nodup : ∀ {um : List (Option Nat)}, (um.filterMap id).Nodup → ∀ {i j p : Nat},
    um[i]? = some (some p) → um[j]? = some (some p) → i = j
  | [], _, i, _, _, hi, _ => by simp at hi
  | x :: um, hn, 0, 0, _, _, _ => rfl
  | x :: um, hn, 0, j + 1, p, hi, hj => by
    simp only [getElem?_cons_zero, Option.some.injEq] at hi
    simp only [getElem?_cons_succ] at hj
    subst hi
    rw [filterMap_cons_some (by rfl : id (some p) = some p), nodup_cons] at hn
    exact absurd (mem_filterMap_of_getElem? hj) hn.1
  | x :: um, hn, i + 1, 0, p, hi, hj => by
    simp only [getElem?_cons_zero, Option.some.injEq] at hj
    simp only [getElem?_cons_succ] at hi
    subst hj
    rw [filterMap_cons_some (by rfl : id (some p) = some p), nodup_cons] at hn
    exact absurd (mem_filterMap_of_getElem? hi) hn.1
  | x :: um, hn, i + 1, j + 1, p, hi, hj => by
    simp only [getElem?_cons_succ] at hi hj
    have hn' : (um.filterMap id).Nodup := by
      cases x with
      | none => simpa using hn
      | some y => rw [filterMap_cons_some (by rfl : id (some y) = some y), nodup_cons] at hn; exact hn.2
    rw [index_unique_of_nodup hn' hi hj]

/-- the concrete backend simulates the token-level backend on the vanilla requests -/
theorem simulates : Simulates concrete tokenLevel abs (Inv F ext) := by
  intro c req env h hv
  refine ⟨h.q req env, ?_⟩
  cases req with
  | initApp m => exact sim_initApp m env
  | stopApp => exact sim_stopApp h env
  | arrive s d => simp [QReq.vanilla] at hv
  | alloc v => exact sim_alloc h v env
  | init v => exact sim_init h v env
  | gate1 g v => exact sim_gate1 h g v env
  | gate2 g v w => exact sim_gate2 h g v w env
  | meas v => exact sim_meas h v env
  | free v => exact sim_free h v env
  | eprCreate ok bad v => simp [QReq.vanilla] at hv
  | eprRecv s r bad v => simp [QReq.vanilla] at hv

end SqVerif.NqExec

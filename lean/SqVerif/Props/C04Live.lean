import SqVerif.LockProtoLemmasLive
import SqVerif.LockProtoLemmasShape
import SqVerif.Gen.Skeleton
import SqVerif.Props.C04Skel
/-!
# C04 — "Every operation completes and no lock outlives it": the RUNNING lock protocol (T04.3, T04.5, T04.6)

Model: `SqVerif/LockProto.lean` (read its header first).  `Props/C04Skel.lean` accounts for the locks of one
method at a time; here several operations run concurrently against the node locks under an adversarial
scheduler (`fire f s l`; `f = false` the idealised time-out path, `f = true` the code as it is, F15).

What is proved, for ALL operation lists and ALL schedules (induction over `Reachable` / `Run`):

* (a) `idle_no_lock` (T04.3), from the invariant `lock_owner_in_flight` ("every set flag has a ghost owner that is
  an operation in flight holding it per its program counter"), plus `release_by_owner`, `holder_is_owner`;
  on the faithful path the negations `idle_lock_leak_counterexample` (F15) and `foreign_release_counterexample`.
* (b) `wait_for_cycle_of_sends` (T04.5): a stuck state contains a wait-for cycle made of `send`s only.
* (c) `completes_partial` (T04.6) with `bound ops K` explicit; `run_length_bounded`, `no_stuck_state`,
  `terminates_without_timeouts`; that the time-out assumption cannot be dropped: `gate2_pair_needs_timeout`,
  `timeout_livelock`.
* (d) `crossing_sends_deadlock`, `self_send_deadlock`, `cyclic_sends_deadlock`, `send_via_simulator_deadlock` (F8).
* (e) `*_shape_agrees`, `send_edges_agree`, `lock_nodes_timeout_shape`: the programs of the model are the
  node-lock shapes of the regenerated skeletons `Gen.*`.

THE ASSUMPTION ABOUT TIMERS, exactly: the adversary chooses every transition, including WHEN the timer of a
waiting `gate2` attempt fires (any time after the request, as long as not all its requests have been granted);
what it may not do is fire time-outs for ever: the run contains at most `K` time-out transitions in total
(`timeouts ls ≤ K`).  That is how "the back-off draws are random, not adversarial" enters: with adversarial
timers two `gate2`s can chase each other for ever (`timeout_livelock`), and with no timers at all they can block
each other (`gate2_pair_needs_timeout`).  Nothing else is assumed about the schedule — no fairness is needed,
because every transition other than a time-out lowers the ranking function `St.mu`.
-/
namespace SqVerif.C04
open SqVerif.LockProto

/-! ### (a) no lock outlives its operation -/

/-- the invariant behind T04.3: on the idealised path every set lock flag has a ghost owner that is an operation
    still in flight (`rest ≠ []`) and holding that lock per its program counter -/
theorem lock_owner_in_flight (ops : List Op) (s : St) (hs : Reachable false ops s) (n : Node) (o : Owner)
    (h : (n, o) ∈ s.locks) :
    ∃ (i : Nat) (p : PSt), o = .op i ∧ s.procs[i]? = some p ∧ n ∈ p.held ∧ p.rest ≠ [] := by
  have hI := inv_reachable hs
  obtain ⟨i, p, ho, hp, hn⟩ := hI.own n o h
  exact ⟨i, p, ho, hp, hn, held_in_flight hI hp hn⟩

/-- … and conversely what an operation holds is flagged under its name, once -/
theorem holder_is_owner (ops : List Op) (s : St) (hs : Reachable false ops s) (i : Nat) (p : PSt)
    (hp : s.procs[i]? = some p) (n : Node) (hn : n ∈ p.held) :
    (n, Owner.op i) ∈ s.locks ∧ ∀ o, (n, o) ∈ s.locks → o = .op i :=
  have hI := inv_reachable hs
  ⟨hI.hold i p hp n hn, fun o ho => hI.uniq n o _ ho (hI.hold i p hp n hn)⟩

/-- on the idealised path a release always releases the releasing operation's own lock (the ownerless
    `if locked: release()` never frees somebody else's) -/
theorem release_by_owner (ops : List Op) (s : St) (hs : Reachable false ops s) (i : Nat) (p : PSt)
    (hp : s.procs[i]? = some p) (n : Node) (r : List Instr) (hr : p.rest = .rel n :: r) :
    (n, Owner.op i) ∈ s.locks := by
  have hI := inv_reachable hs
  obtain ⟨o, _, hsafe⟩ := hI.safe i p hp
  rw [hr] at hsafe
  exact hI.hold i p hp n hsafe.1

/-- T04.3: with the idealised time-out path, in every reachable state in which no operation is in flight every
    node lock is free -/
theorem idle_no_lock (ops : List Op) (s : St) (hs : Reachable false ops s) (hidle : s.idle = true) :
    s.allFree = true :=
  idle_allFree (inv_reachable hs) hidle

/-- F15 witness: a holder of node 0 (`gate1 0`) and a two-qubit gate needing node 0 whose timer fires before
    the grant -/
def f15Ops : List Op := [.gate1 0, .gate2 [0]]

/-- gate1 takes 0; gate2's timer fires, it "releases" node 0 (freeing gate1's lock) and leaves its cancelled
    request behind; both operations complete; the zombie request then acquires node 0 — for good -/
def f15Run : List Label :=
  [.step 0, .timeout 1, .step 1, .step 0, .step 0, .grant 1 0, .step 1, .step 1, .step 1, .zgrant 1 0]

/-- F15: with the time-out path of the code as it is, `idle_no_lock` is false -/
theorem idle_lock_leak_counterexample :
    ¬ (∀ s, Reachable true f15Ops s → s.idle = true → s.allFree = true) := by
  intro h
  have hr : run true (init f15Ops) f15Run =
      some ⟨[⟨[], []⟩, ⟨[], []⟩], [(0, .zombie 1)], []⟩ := by decide
  have := h _ (reachable_of_run hr) (by decide)
  exact absurd this (by decide)

/-- … and so is `release_by_owner`: after the time-out, gate2's next instruction releases node 0, whose flag
    was set by gate1 -/
theorem foreign_release_counterexample :
    ∃ s p r, Reachable true f15Ops s ∧ s.procs[1]? = some p ∧ p.rest = .rel 0 :: r ∧
      (0, Owner.op 0) ∈ s.locks ∧ (0, Owner.op 1) ∉ s.locks := by
  have hr : run true (init f15Ops) [.step 0, .timeout 1] =
      some ⟨[⟨[.work, .rel 0], [0]⟩, ⟨[.rel 0, .acqT [0], .work, .rel 0], []⟩], [(0, .op 0)], [(1, 0)]⟩ := by
    decide
  exact ⟨_, _, _, reachable_of_run hr, rfl, rfl, by decide, by decide⟩

-- non-vacuity: the hypotheses of `idle_no_lock` hold of a non-trivial reachable state (same operations,
-- idealised path, same schedule without the zombie)
example : ∃ s, Reachable false f15Ops s ∧ s.idle = true ∧ s.allFree = true :=
  have hr : run false (init f15Ops)
      [.step 0, .timeout 1, .step 0, .step 0, .grant 1 0, .step 1, .step 1, .step 1] =
      some ⟨[⟨[], []⟩, ⟨[], []⟩], [], []⟩ := by decide
  ⟨_, reachable_of_run hr, by decide, by decide⟩

/-! ### (b) deadlocks come from sends only -/

/-- T04.5: in every reachable state of the idealised protocol (time-outs allowed) in which some operation is in
    flight and NOTHING is enabled — so no two-qubit gate is waiting, its time-out would be enabled — there is a
    cycle `i₀ → i₁ → … → i₀` of operations each of which is a `send` holding a node lock and waiting without
    time-out for a lock held by the next one, along its edges self→sim, self→recv, sim→recv (`SendWait`) -/
theorem wait_for_cycle_of_sends (ops : List Op) (s : St) (hs : Reachable false ops s)
    (hstuck : Stuck false s) (hflight : s.idle = false) : ∃ i, Plus (SendWait ops s) i i :=
  stuck_cycle (inv_reachable hs) hstuck hflight

/-- in a stuck state every operation in flight waits, without time-out, for a set flag (a waiting two-qubit
    gate is never blocked: its time-out is enabled) -/
theorem stuck_only_plain_waits (s : St) (hstuck : Stuck false s) (i : Nat) (p : PSt)
    (hp : s.procs[i]? = some p) (hne : p.rest ≠ []) : ∃ m r, p.rest = .acq m :: r ∧ s.lockedB m = true :=
  stuck_waits hstuck hp hne

/-! ### (c) completion -/

/-- the send graph of `ops` (edges self→sim, self→recv, sim→recv of every send) has no cycle -/
def SendAcyclic (ops : List Op) : Prop := ¬ ∃ n, Plus (EdgeRel (LockProto.sendEdges ops)) n n

/-- `sendGraphAcyclic` is a sound decision procedure for it -/
theorem sendGraphAcyclic_sound (ops : List Op) (h : sendGraphAcyclic ops = true) : SendAcyclic ops :=
  acyclic_sound h

/-- the ranking argument, no hypothesis on the operations: a run of the idealised protocol with `T` time-out
    firings has at most `bound ops T = μ(init ops) + T·(maxCost ops + 1)` steps, where `μ` = Σ remaining
    instructions (a waiting `acqT` counted with its outstanding requests) and `maxCost` = the largest
    `2·|node set|` of a two-qubit gate -/
theorem run_length_bounded (ops : List Op) (ls : List Label) (s : St) (hr : Run false (init ops) ls s) :
    ls.length + s.mu ≤ bound ops (timeouts ls) :=
  run_bound hr (inv_init ops)

/-- every schedule that takes no time-out transition terminates, within `μ(init ops)` steps -/
theorem terminates_without_timeouts (ops : List Op) (ls : List Label) (s : St)
    (hr : Run false (init ops) ls s) (h0 : timeouts ls = 0) : ls.length ≤ (init ops).mu := by
  have := run_length_bounded ops ls s hr
  rw [h0] at this
  simp only [bound, Nat.zero_mul, Nat.add_zero] at this
  omega

/-- safety half: with an acyclic send graph no reachable state is stuck unless every operation has completed -/
theorem no_stuck_state (ops : List Op) (hac : SendAcyclic ops) (s : St) (hs : Reachable false ops s)
    (hstuck : Stuck false s) : s.idle = true ∧ s.allFree = true := by
  obtain ⟨rk, hrk⟩ := (rank_iff_acyclic _).2 hac
  have hI := inv_reachable hs
  have hid := not_stuck_of_rank hI rk hrk hstuck
  exact ⟨hid, idle_allFree hI hid⟩

/-- T04.6.  For every operation list whose sends form no cycle, every schedule of the idealised protocol that
    fires at most `K` time-outs
    * has at most `bound ops K` steps (so it cannot be extended for ever), and
    * can be extended as long as some operation is in flight, and
    * when it cannot be extended, all operations have completed and all node locks are free.
    Hence every maximal such schedule terminates within `bound ops K` steps with everything completed and free.

    The full statement of C04 is FALSE for the code as it is (`crossing_sends_deadlock`, `self_send_deadlock`,
    `idle_lock_leak_counterexample`).  What this theorem leaves out of the full property:
    - cyclic sends (they do deadlock) and the faithful time-out path (it does leak) — excluded by hypothesis;
    - the bound is in transitions, not in simulated seconds (each wait polls every 1 s, each attempt backs off
      1–4 s: `bound ops K` steps are at most that many timer periods, not proved here);
    - `K` is an assumption on the schedule (see the header), not derived from the distribution of the draws;
    - failures inside an operation, qubit locks and re-validation retries are not in the model. -/
theorem completes_partial (ops : List Op) (hac : SendAcyclic ops) (K : Nat) (ls : List Label) (s : St)
    (hr : Run false (init ops) ls s) (hK : timeouts ls ≤ K) :
    ls.length ≤ bound ops K ∧
    (s.idle = false → ∃ l s', fire false s l = some s') ∧
    (Stuck false s → s.idle = true ∧ s.allFree = true) := by
  have hs : Reachable false ops s := run_reachable hr Reachable.init
  refine ⟨?_, ?_, no_stuck_state ops hac s hs⟩
  · have h1 := run_length_bounded ops ls s hr
    have h2 : bound ops (timeouts ls) ≤ bound ops K := by
      unfold bound
      exact Nat.add_le_add_left (Nat.mul_le_mul_right _ hK) _
    omega
  · intro hid
    apply Classical.byContradiction
    intro hno
    have hstuck : Stuck false s := by
      intro l
      cases hf : fire false s l with
      | none => rfl
      | some s' => exact absurd ⟨l, s', hf⟩ hno
    have := (no_stuck_state ops hac s hs hstuck).1
    rw [this] at hid; cases hid

/-- the same with the decidable test as hypothesis -/
theorem completes_partial_decidable (ops : List Op) (hac : sendGraphAcyclic ops = true) (K : Nat)
    (ls : List Label) (s : St) (hr : Run false (init ops) ls s) (hK : timeouts ls ≤ K) :
    ls.length ≤ bound ops K ∧
    (s.idle = false → ∃ l s', fire false s l = some s') ∧
    (Stuck false s → s.idle = true ∧ s.allFree = true) :=
  completes_partial ops (sendGraphAcyclic_sound ops hac) K ls s hr hK

/-- two two-qubit gates over the same two nodes -/
def gate2Pair : List Op := [.gate2 [0, 1], .gate2 [0, 1]]

/-- why time-outs are needed: each gate has been granted one node; the only enabled transitions are time-outs -/
theorem gate2_pair_needs_timeout :
    ∃ s, Reachable false gate2Pair s ∧ s.idle = false ∧
      (labelsOf s).filter (fun l => (fire false s l).isSome) = [.timeout 0, .timeout 1] := by
  have hr : run false (init gate2Pair) [.grant 0 0, .grant 1 1] =
      some ⟨[⟨[.acqT [0, 1], .work, .rel 0, .rel 1], [0]⟩, ⟨[.acqT [0, 1], .work, .rel 0, .rel 1], [1]⟩],
            [(1, .op 1), (0, .op 0)], []⟩ := by decide
  exact ⟨_, reachable_of_run hr, by decide, by decide⟩

/-- why their number must be bounded: with adversarial timers the two gates return to the initial state, so the
    schedule below can be repeated for ever (no operation ever completes) -/
theorem timeout_livelock :
    run false (init gate2Pair) [.grant 0 0, .grant 1 1, .timeout 0, .timeout 1, .step 0, .step 1] =
      some (init gate2Pair) := by decide

/-! ### (d) the negation witnesses (F8) -/

/-- `ls` is a schedule of `ops` that ends in a state where nothing is enabled although an operation is in flight -/
def deadlockRun (f : Bool) (ops : List Op) (ls : List Label) : Bool :=
  match run f (init ops) ls with
  | some s => stuckB f s && !s.idle
  | none => false

theorem deadlockRun_sound {f : Bool} {ops : List Op} {ls : List Label} (h : deadlockRun f ops ls = true) :
    ∃ s, Reachable f ops s ∧ Stuck f s ∧ s.idle = false := by
  unfold deadlockRun at h
  cases hr : run f (init ops) ls with
  | none => simp [hr] at h
  | some s =>
    simp only [hr, Bool.and_eq_true, Bool.not_eq_true'] at h
    exact ⟨s, reachable_of_run hr, stuckB_sound h.1, h.2⟩

/-- A→B while B→A: each sender takes its own lock and waits for ever for the other's (either time-out path) -/
theorem crossing_sends_deadlock (f : Bool) :
    ∃ s, Reachable f [.send 0 none 1, .send 1 none 0] s ∧ Stuck f s ∧ s.idle = false := by
  cases f
  · exact deadlockRun_sound (ls := [.step 0, .step 1]) (by decide)
  · exact deadlockRun_sound (ls := [.step 0, .step 1]) (by decide)

/-- a send addressed to the issuing node itself blocks on its own lock, alone -/
theorem self_send_deadlock (f : Bool) :
    ∃ s, Reachable f [.send 0 none 0] s ∧ Stuck f s ∧ s.idle = false := by
  cases f
  · exact deadlockRun_sound (ls := [.step 0]) (by decide)
  · exact deadlockRun_sound (ls := [.step 0]) (by decide)

/-- A→B, B→C, C→A -/
theorem cyclic_sends_deadlock (f : Bool) :
    ∃ s, Reachable f [.send 0 none 1, .send 1 none 2, .send 2 none 0] s ∧ Stuck f s ∧ s.idle = false := by
  cases f
  · exact deadlockRun_sound (ls := [.step 0, .step 1, .step 2]) (by decide)
  · exact deadlockRun_sound (ls := [.step 0, .step 1, .step 2]) (by decide)

/-- the cycle may run through a simulator: A sends a qubit simulated at B (to C) while B sends to A -/
theorem send_via_simulator_deadlock (f : Bool) :
    ∃ s, Reachable f [.send 0 (some 1) 2, .send 1 none 0] s ∧ Stuck f s ∧ s.idle = false := by
  cases f
  · exact deadlockRun_sound (ls := [.step 0, .step 1]) (by decide)
  · exact deadlockRun_sound (ls := [.step 0, .step 1]) (by decide)

-- the test accepts chains in any listing order (completeness of the test is not proved, only its soundness)
example : sendGraphAcyclic [.send 2 none 3, .send 1 none 2, .send 0 none 1, .send 0 (some 2) 3] = true := by decide +kernel

/-- none of these operation lists passes the test of `completes_partial` -/
theorem deadlock_witnesses_are_cyclic :
    sendGraphAcyclic [.send 0 none 1, .send 1 none 0] = false ∧
    sendGraphAcyclic [.send 0 none 0] = false ∧
    sendGraphAcyclic [.send 0 none 1, .send 1 none 2, .send 2 none 0] = false ∧
    sendGraphAcyclic [.send 0 (some 1) 2, .send 1 none 0] = false := by decide

/-! ### (e) the model's programs are the lock shapes of the regenerated skeletons -/

open SqVerif.Skel in
/-- `remote_send_qubit`: every normal path is own lock → receiver's lock (inside `add_qubit`) → release both, or
    own lock → simulator's lock → receiver's lock (inside `transfer_qubit` → `add_qubit`) → release in reverse
    order; both occur.  A change of the locking order in the source breaks this. -/
theorem send_shape_agrees :
    shapesAgree Gen.allMethods Gen.remote_send_qubit [.send 0 none 2, .send 0 (some 1) 2] = true := by
  decide +kernel

-- the comparison is strict: leaving out the variant through the simulator is noticed
example : shapesAgree Gen.allMethods Gen.remote_send_qubit [.send 0 none 2] = false := by decide +kernel

theorem gate1_shape_agrees : shapesAgree Gen.allMethods Gen._single_gate [.gate1 1] = true := by decide +kernel

theorem measure_shape_agrees : shapesAgree Gen.allMethods Gen.remote_measure [.gate1 1] = true := by
  decide +kernel

theorem new_shape_agrees : shapesAgree Gen.allMethods Gen.remote_new_qubit [.new 0] = true := by decide +kernel

theorem add_qubit_shape_agrees : shapesAgree Gen.allMethods Gen.remote_add_qubit [.addQubit 0] = true := by
  decide +kernel

open SqVerif.Skel in
/-- `_two_qubit_gate`: request the whole set with a time-out, release the whole set (the model's
    `acqT ns :: work :: ns.map rel`) -/
theorem gate2_shape_agrees :
    lockShapes Gen.allMethods Gen._two_qubit_gate = [[(.acqT, Role.ALL), (.rel, Role.ALL)]] := by decide +kernel

open SqVerif.Skel in
/-- the time-out branch of `_lock_nodes` (F15, the faithful path of the model): the timer fires when only part
    of the set has been granted, the requests are cancelled, EVERY requested node is released, retry -/
theorem lock_nodes_timeout_shape :
    timeoutShapes Gen._lock_nodes = [([(.acqT, Role.PART), (.cancel, Role.ALL), (.rel, Role.ALL)], Exit.cont)] := by
  decide +kernel

/-- the hold-and-wait edges of the model's `send` are those computed from the skeletons
    (`send_hold_and_wait_edges`): self→recv, self→sim, sim→recv -/
theorem send_edges_agree :
    sameSet (C04.sendEdges.map (fun e => (roleNode e.1, roleNode e.2.1, e.2.2)))
      ((edgesOf (.send 0 (some 1) 2)).map (fun e => (some e.1, some e.2, false))) = true := by decide +kernel

/-! ### (f) non-vacuity: three nodes, `gate1 ‖ gate2 ‖ send` -/

/-- a one-qubit gate at node 1, a two-qubit gate over all three nodes, a send 0 → (simulator 1) → 2 -/
def demoOps : List Op := [.gate1 1, .gate2 [0, 1, 2], .send 0 (some 1) 2]

-- the hypothesis of `completes_partial` holds …
example : sendGraphAcyclic demoOps = true := by decide
example : bound demoOps 1 = 25 := by decide

/-- … and here is one interleaved schedule with one time-out (gate2 is granted node 2, the send gets stuck
    behind it, the timer fires, gate2 backs off) that ends with everything completed and free -/
def demoRun : List Label :=
  [.step 2, .grant 1 2, .step 0, .step 0, .step 0, .step 2, .timeout 1, .step 1,
   .step 2, .step 2, .step 2, .step 2, .step 2, .grant 1 0, .grant 1 1, .grant 1 2, .step 1, .step 1, .step 1,
   .step 1, .step 1]

example : (run false (init demoOps) demoRun).map (fun s => (s.idle, s.allFree, stuckB false s)) =
    some (true, true, true) := by decide
example : timeouts demoRun = 1 ∧ demoRun.length ≤ bound demoOps 1 := by decide

/-- with one more send closing a cycle (2 → 0) the same system can get stuck -/
def demoCyclicOps : List Op := [.gate1 1, .gate2 [0, 1, 2], .send 0 (some 1) 2, .send 2 none 0]

example : sendGraphAcyclic demoCyclicOps = false := by decide

theorem demo_cyclic_stuck : ∃ s, Reachable false demoCyclicOps s ∧ Stuck false s ∧ s.idle = false :=
  -- gate1 and gate2 complete; the sends take their own locks, then the simulator's, and wait for each other
  deadlockRun_sound (ls := [.step 0, .step 0, .step 0, .grant 1 0, .grant 1 1, .grant 1 2, .step 1, .step 1,
    .step 1, .step 1, .step 1, .step 2, .step 3, .step 2]) (by decide)

-- … and `wait_for_cycle_of_sends` applies to that state: its hypotheses are satisfiable
example : ∃ s, Reachable false demoCyclicOps s ∧ (∃ i, Plus (SendWait demoCyclicOps s) i i) := by
  obtain ⟨s, hr, hst, hid⟩ := demo_cyclic_stuck
  exact ⟨s, hr, wait_for_cycle_of_sends _ s hr hst hid⟩

end SqVerif.C04

import SqVerif.StabGen
/- GENERATED on every run by harness/gen/stabgates.py from simulaqron/toolbox/stabilizer_states.py — do not edit.
   Row-wise semantics of the gate methods and of the row-multiplication helpers of `StabilizerState`,
   read off the Python AST statement by statement (symbolic execution on the bits of ONE generator row).
   The obligations over them are in Props/C13Gen.lean. -/
namespace SqVerif.Gen.StabGates
open SqVerif.StabGen

/-! ### gates: one generator row through the method -/

/-- `apply_X(self, position)`, line 531 -/
def applyX (x z s : Bool) : Tr (Bool × Bool × Bool) :=
  -- 538: n = self.num_qubits
  -- 539: if not (position >= 0 and position < n): raise ValueError("position= {} if not a valid qubit position (i.e. in [0, {}]".format(position, n))
  -- 541: yz_rows = self._group[:, position + n]
  -- `yz_rows` is a view of column z of argument 0 (`position`)
  -- 544: self._group[yz_rows, -1] = np.logical_not(self._group[yz_rows, -1])
  let s1 := (bif z then (!s) else s)
  .ok (x, z, s1)
def applyXGuards : List Guard := [⟨539, (.not (.and (.le (.lit 0) (.arg 0)) (.lt (.arg 0) .n))), "ValueError"⟩]

/-- `apply_Y(self, position)`, line 546 -/
def applyY (x z s : Bool) : Tr (Bool × Bool × Bool) :=
  -- 553: n = self.num_qubits
  -- 554: if not (position >= 0 and position < n): raise ValueError("position= {} if not a valid qubit position (i.e. in [0, {}]".format(position, n))
  -- 556: xz_rows = np.logical_xor(self._group[:, position], self._group[:, position + n])
  let v_xz_rows1 := (x != z)
  -- 559: self._group[xz_rows, -1] = np.logical_not(self._group[xz_rows, -1])
  let s1 := (bif v_xz_rows1 then (!s) else s)
  .ok (x, z, s1)
def applyYGuards : List Guard := [⟨554, (.not (.and (.le (.lit 0) (.arg 0)) (.lt (.arg 0) .n))), "ValueError"⟩]

/-- `apply_Z(self, position)`, line 561 -/
def applyZ (x z s : Bool) : Tr (Bool × Bool × Bool) :=
  -- 568: n = self.num_qubits
  -- 569: if not (position >= 0 and position < n): raise ValueError("position= {} if not a valid qubit position (i.e. in [0, {}]".format(position, n))
  -- 571: xy_rows = self._group[:, position]
  -- `xy_rows` is a view of column x of argument 0 (`position`)
  -- 574: self._group[xy_rows, -1] = np.logical_not(self._group[xy_rows, -1])
  let s1 := (bif x then (!s) else s)
  .ok (x, z, s1)
def applyZGuards : List Guard := [⟨569, (.not (.and (.le (.lit 0) (.arg 0)) (.lt (.arg 0) .n))), "ValueError"⟩]

/-- `apply_H(self, position)`, line 576 -/
def applyH (x z s : Bool) : Tr (Bool × Bool × Bool) :=
  -- 583: n = self.num_qubits
  -- 584: if not (position >= 0 and position < n): raise ValueError("position= {} if not a valid qubit position (i.e. in [0, {}]".format(position, n))
  -- 587: self._group[:, [position, position + n]] = self._group[:, [position + n, position]]
  let x1 := z
  let z1 := x
  -- 590: y_rows = np.logical_and(self._group[:, position], self._group[:, position + n])
  let v_y_rows1 := (x1 && z1)
  -- 591: self._group[y_rows, -1] = np.logical_not(self._group[y_rows, -1])
  let s1 := (bif v_y_rows1 then (!s) else s)
  .ok (x1, z1, s1)
def applyHGuards : List Guard := [⟨584, (.not (.and (.le (.lit 0) (.arg 0)) (.lt (.arg 0) .n))), "ValueError"⟩]

/-- `apply_K(self, position)`, line 593 -/
def applyK (x z s : Bool) : Tr (Bool × Bool × Bool) :=
  -- 600: n = self.num_qubits
  -- 601: if not (position >= 0 and position < n): raise ValueError("position= {} if not a valid qubit position (i.e. in [0, {}]".format(position, n))
  -- 604: yz_rows = self._group[:, position + n]
  -- `yz_rows` is a view of column z of argument 0 (`position`)
  -- 605: self._group[yz_rows, position] = np.logical_not(self._group[yz_rows, position])
  let x1 := (bif z then (!x) else x)
  -- 608: x_rows = np.logical_and(self._group[:, position], np.logical_not(self._group[:, position + n]))
  let v_x_rows1 := (x1 && (!z))
  -- 609: self._group[x_rows, -1] = np.logical_not(self._group[x_rows, -1])
  let s1 := (bif v_x_rows1 then (!s) else s)
  .ok (x1, z, s1)
def applyKGuards : List Guard := [⟨601, (.not (.and (.le (.lit 0) (.arg 0)) (.lt (.arg 0) .n))), "ValueError"⟩]

/-- `apply_S(self, position)`, line 611 -/
def applyS (x z s : Bool) : Tr (Bool × Bool × Bool) :=
  -- 618: n = self.num_qubits
  -- 619: if not (position >= 0 and position < n): raise ValueError("position= {} if not a valid qubit position (i.e. in [0, {}]".format(position, n))
  -- 622: xy_rows = self._group[:, position]
  -- `xy_rows` is a view of column x of argument 0 (`position`)
  -- 623: self._group[xy_rows, position + n] = np.logical_not(self._group[xy_rows, position + n])
  let z1 := (bif x then (!z) else z)
  -- 625: x_rows = np.logical_and(self._group[:, position], np.logical_not(self._group[:, position + n]))
  let v_x_rows1 := (x && (!z1))
  -- 626: self._group[x_rows, -1] = np.logical_not(self._group[x_rows, -1])
  let s1 := (bif v_x_rows1 then (!s) else s)
  .ok (x, z1, s1)
def applySGuards : List Guard := [⟨619, (.not (.and (.le (.lit 0) (.arg 0)) (.lt (.arg 0) .n))), "ValueError"⟩]

/-- `apply_sqrt_minIX(self, position)`, line 628 -/
def applySqrtMinIX (x z s : Bool) : Tr (Bool × Bool × Bool) :=
  -- 629: self.apply_K(position)
  (applyK x z s).bind fun r1 =>
  let x1 := r1.1
  let z1 := r1.2.1
  let s1 := r1.2.2
  -- 630: self.apply_Z(position)
  (applyZ x1 z1 s1).bind fun r2 =>
  let x2 := r2.1
  let z2 := r2.2.1
  let s2 := r2.2.2
  .ok (x2, z2, s2)
def applySqrtMinIXGuards : List Guard := [⟨629, (.not (.and (.le (.lit 0) (.arg 0)) (.lt (.arg 0) .n))), "ValueError"⟩]

/-- `apply_sqrt_IZ(self, position)`, line 632 -/
def applySqrtIZ (x z s : Bool) : Tr (Bool × Bool × Bool) :=
  -- 633: self.apply_Z(position)
  (applyZ x z s).bind fun r1 =>
  let x1 := r1.1
  let z1 := r1.2.1
  let s1 := r1.2.2
  -- 634: self.apply_S(position)
  (applyS x1 z1 s1).bind fun r2 =>
  let x2 := r2.1
  let z2 := r2.2.1
  let s2 := r2.2.2
  .ok (x2, z2, s2)
def applySqrtIZGuards : List Guard := [⟨633, (.not (.and (.le (.lit 0) (.arg 0)) (.lt (.arg 0) .n))), "ValueError"⟩]

/-- `apply_CNOT(self, control, target)`, line 636 -/
def applyCNOT (xc zc xt zt s : Bool) : Tr ((Bool × Bool) × (Bool × Bool) × Bool) :=
  -- 645: n = self.num_qubits
  -- 646: if not (control >= 0 and control < n): raise ValueError("control= {} if not a valid qubit position (i.e. in [0, {}]".format(control, n))
  -- 648: if not (target >= 0 and target < n): raise ValueError("target= {} if not a valid qubit position (i.e. in [0, {}]".format(target, n))
  -- 650: if control == target: raise ValueError("Control and target qubits cannot be the same")
  -- 654: xy_control_rows = self._group[:, control]
  -- `xy_control_rows` is a view of column x of argument 0 (`control`)
  -- 655: self._group[xy_control_rows, target] = np.logical_not(self._group[xy_control_rows, target])
  let xt1 := (bif xc then (!xt) else xt)
  -- 658: yz_target_rows = self._group[:, target + n]
  -- `yz_target_rows` is a view of column z of argument 1 (`target`)
  -- 659: self._group[yz_target_rows, control + n] = np.logical_not(self._group[yz_target_rows, control + n])
  let zc1 := (bif zt then (!zc) else zc)
  -- 662: xy_control_yz_target_rows = np.logical_and(self._group[:, control], self._group[:, target + n])
  let v_xy_control_yz_target_rows1 := (xc && zt)
  -- 663: yz_control_xy_target_rows = np.logical_and(self._group[:, control + n], self._group[:, target])
  let v_yz_control_xy_target_rows1 := (zc1 && xt1)
  -- 664: not_yz_control_not_xy_target_rows = np.logical_and( np.logical_not(self._group[:, control + n]), np.logical_not(self._group[:, target]) )
  let v_not_yz_control_not_xy_target_rows1 := ((!zc1) && (!xt1))
  -- 667: rows_to_flip = np.logical_and( xy_control_yz_target_rows, np.logical_or(yz_control_xy_target_rows, not_yz_control_not_xy_target_rows) )
  let v_rows_to_flip1 := (v_xy_control_yz_target_rows1 && (v_yz_control_xy_target_rows1 || v_not_yz_control_not_xy_target_rows1))
  -- 670: self._group[rows_to_flip, -1] = np.logical_not(self._group[rows_to_flip, -1])
  let s1 := (bif v_rows_to_flip1 then (!s) else s)
  .ok ((xc, zc1), (xt1, zt), s1)
def applyCNOTGuards : List Guard := [⟨646, (.not (.and (.le (.lit 0) (.arg 0)) (.lt (.arg 0) .n))), "ValueError"⟩, ⟨648, (.not (.and (.le (.lit 0) (.arg 1)) (.lt (.arg 1) .n))), "ValueError"⟩, ⟨650, (.eq (.arg 0) (.arg 1)), "ValueError"⟩]

/-- `apply_CZ(self, control, target)`, line 672 -/
def applyCZ (xc zc xt zt s : Bool) : Tr ((Bool × Bool) × (Bool × Bool) × Bool) :=
  -- 681: n = self.num_qubits
  -- 682: if not (control >= 0 and control < n): raise ValueError("control= {} if not a valid qubit position (i.e. in [0, {}]".format(control, n))
  -- 684: if not (target >= 0 and target < n): raise ValueError("target= {} if not a valid qubit position (i.e. in [0, {}]".format(target, n))
  -- 686: if control == target: raise ValueError("Control and target qubits cannot be the same")
  -- 690: x_and_y_rows = np.logical_and(self._group[:, control], self._group[:, target])
  let v_x_and_y_rows1 := (xc && xt)
  -- 691: z_rows = np.logical_xor(self._group[:, control + n], self._group[:, target + n])
  let v_z_rows1 := (zc != zt)
  -- 692: rows_to_flip = np.logical_and(x_and_y_rows, z_rows)
  let v_rows_to_flip1 := (v_x_and_y_rows1 && v_z_rows1)
  -- 693: self._group[rows_to_flip, -1] = np.logical_not(self._group[rows_to_flip, -1])
  let s1 := (bif v_rows_to_flip1 then (!s) else s)
  -- 696: xy_control_rows = self._group[:, control]
  -- `xy_control_rows` is a view of column x of argument 0 (`control`)
  -- 697: self._group[xy_control_rows, target + n] = np.logical_not(self._group[xy_control_rows, target + n])
  let zt1 := (bif xc then (!zt) else zt)
  -- 700: xy_target_rows = self._group[:, target]
  -- `xy_target_rows` is a view of column x of argument 1 (`target`)
  -- 701: self._group[xy_target_rows, control + n] = np.logical_not(self._group[xy_target_rows, control + n])
  let zc1 := (bif xt then (!zc) else zc)
  .ok ((xc, zc1), (xt, zt1), s1)
def applyCZGuards : List Guard := [⟨682, (.not (.and (.le (.lit 0) (.arg 0)) (.lt (.arg 0) .n))), "ValueError"⟩, ⟨684, (.not (.and (.le (.lit 0) (.arg 1)) (.lt (.arg 1) .n))), "ValueError"⟩, ⟨686, (.eq (.arg 0) (.arg 1)), "ValueError"⟩]

def gate1Guards : List (String × List Guard) := [("apply_X", applyXGuards), ("apply_Y", applyYGuards), ("apply_Z", applyZGuards), ("apply_H", applyHGuards), ("apply_K", applyKGuards), ("apply_S", applySGuards), ("apply_sqrt_minIX", applySqrtMinIXGuards), ("apply_sqrt_IZ", applySqrtIZGuards)]
def gate2Guards : List (String × List Guard) := [("apply_CNOT", applyCNOTGuards), ("apply_CZ", applyCZGuards)]

/-! ### row multiplication helpers -/

/-- `_get_pauli_mask(s1, s2, p1, p2)` at one position: `a`, `b` the letters (x, z) of s1, s2 there,
    `p1`, `p2` the entries `Pauli2bool[p1]`, `Pauli2bool[p2]` -/
def pauliMask (a b p1 p2 : Bool × Bool) : Tr Bool :=
  -- 338: num_paulis = int((len(s1) - 1) / 2)
  -- 339: p1_bool = StabilizerState.Pauli2bool[p1]
  -- 340: p2_bool = StabilizerState.Pauli2bool[p2]
  -- 341: is_p1 = (s1[:num_paulis] == p1_bool[0]) & (s1[num_paulis:-1] == p1_bool[1])
  let v_is_p1 := ((a.1 == p1.1) && (a.2 == p1.2))
  -- 342: is_p2 = (s2[:num_paulis] == p2_bool[0]) & (s2[num_paulis:-1] == p2_bool[1])
  let v_is_p2 := ((b.1 == p2.1) && (b.2 == p2.2))
  -- 343: return is_p1 & is_p2
  .ok (v_is_p1 && v_is_p2)

/-- `Pauli2bool`, line 23 -/
def pauli2bool : List (Char × (Bool × Bool)) := [('I', (false, false)), ('X', (true, false)), ('Y', (true, true)), ('Z', (false, true))]

/-- `_get_i_mask(s1, s2)` at one position (line 346): or over the pairs XY YZ ZX -/
def isIPairs : List (Char × Char) := [('X', 'Y'), ('Y', 'Z'), ('Z', 'X')]
def isI (a b : Bool × Bool) : Tr Bool :=
  Tr.orAll [pauliMask a b (true, false) (true, true),
            pauliMask a b (true, true) (false, true),
            pauliMask a b (false, true) (true, false)]

/-- `_get_minus_i_mask(s1, s2)` at one position (line 356): or over the pairs YX ZY XZ -/
def isMinusIPairs : List (Char × Char) := [('Y', 'X'), ('Z', 'Y'), ('X', 'Z')]
def isMinusI (a b : Bool × Bool) : Tr Bool :=
  Tr.orAll [pauliMask a b (true, true) (true, false),
            pauliMask a b (false, true) (true, true),
            pauliMask a b (true, false) (false, true)]

/-- `_multiply_compute_phase(s1, s2)`: `s1`, `s2` the sign bits, `ni` / `nmi` the number of positions
    where `_get_i_mask` / `_get_minus_i_mask` is set (`np.count_nonzero`).  Python `%` with a positive
    modulus is `Int.emod`; a number used as a truth value is true iff non-zero. -/
def mulSign (s1 s2 : Bool) (ni nmi : Nat) : Tr Bool :=
  -- 369: has_minus_i = StabilizerState._get_minus_i_mask(s1, s2)
  --      `has_minus_i` = positions contributing a factor -i
  -- 370: has_i = StabilizerState._get_i_mask(s1, s2)
  --      `has_i` = positions contributing a factor i
  -- 371: num_i = np.count_nonzero(has_i)
  let v_num_i : Int := (ni : Int)
  -- 372: num_minus_i = np.count_nonzero(has_minus_i)
  let v_num_minus_i : Int := (nmi : Int)
  -- 373: has_minus_phase = ((num_i - num_minus_i) % 4) / 2
  let v_has_minus_phase : Int := ((v_num_i - v_num_minus_i) % (4 : Int))   -- `/ c`: the float is zero exactly when this integer is
  -- 374: return np.logical_xor(np.logical_xor(s1[-1], s2[-1]), has_minus_phase)
  .ok ((s1 != s2) != decide (v_has_minus_phase ≠ 0))
/-- the contribution of the letters alone -/
def hasMinusPhase (ni nmi : Nat) : Tr Bool := mulSign false false ni nmi

/-- `_multiply_stabilizers(s1, s2)`: every X / Z bit of the product from the bits `u` of s1 and `v` of s2
    at the same index; the last entry is `_multiply_compute_phase(s1, s2)` -/
def mulBit (u v : Bool) : Tr Bool :=
  -- 326: new_s = np.logical_xor(s1[:-1], s2[:-1])
  -- 329: new_s = np.append(new_s, StabilizerState._multiply_compute_phase(s1, s2))
  .ok (u != v)

/-- every method / construct the translator could not read -/
def unrecognised : List (String × String) := []

end SqVerif.Gen.StabGates
